/-
Model of `compio-driver/src/asyncify.rs` (`AsyncifyPool`, `worker`, `CounterGuard`) together with the
drivers' `push_blocking` retry loop (`sys/driver/{iour,poll}/mod.rs`) and the panic carrier
(`panic.rs`): property C17 "the blocking pool is bounded and loses nothing".

A labelled transition system.  One `Event` is one atomic point of one thread:

  dispatcher `d` (any thread calling `pool.dispatch`, e.g. several runtimes sharing one pool)
    submit   enter `dispatch(f)`                        idle      → trying j
    trySend  `sender.try_send(Box::new(f))`             trying j  → idle (a worker was parked in `recv`:
                                                                    the job is put in that receiver's slot)
                                                                  | full j   (`TrySendError::Full(f)`)
    load     `thread_limit == 0` / `counter.load() >= thread_limit`
                                                        full j    → panicked j | refused j | spawning j
    spawn    `std::thread::spawn(worker(..))`           spawning j → sending j   (new worker `starting`)
    send     `sender.send(f)` (blocking, rendezvous)    sending j → idle (receiver waiting) | blocked
    retry    `while let Err(e) = dispatch(closure) { closure = e.0; yield_now() }`
                                                        refused j → trying j
    giveUp   a raw caller keeps `DispatchError(f).0`    refused j → idle, j ∈ returned
             (or the `thread_limit == 0` panic has unwound: panicked j → idle, j ∈ dropped)
    reap     the submitter pops the completed entry (`Proactor::pop`, `resume_unwind_io`)

  worker `w` (a pool thread)
    count    `counter.fetch_add(1)`                     starting → ready
    recv     enter `receiver.recv_timeout(timeout)`     ready → running j (a sender was blocked: flume
                                                                `pull_pending`, that sender returns Ok)
                                                              | parked (hook appended to `waiting`)
    wake     the parked receiver finds its slot filled  handed j → running j
    timeout  `recv_timeout` gives `Err(Timeout)`        parked → leaving   (only with an empty slot:
                                                                flume's `hook.try_take()` after the deadline)
    finish   `f.run()` returns / unwinds                running j → ready (result sent to the submitter)
                                                                  | leaving (uncaught panic: raw closure)
    exit     `CounterGuard::drop`: `counter.fetch_sub(1)`   leaving → exited

flume's `bounded(0)` channel is modelled by its two FIFO hook queues: `waiting` (receivers parked in
`recv`) and `sendq` (senders blocked in `send`, with their message).  `try_send` succeeds iff
`waiting` is non-empty (lib.rs `Shared::send`: `chan.waiting.pop_front()` / `queue.len() < cap` is
false for cap 0).

`reserve = false` is the code as it is (the worker counts itself after it has started).
`reserve = true` is the protocol with the guard the bound needs: the dispatcher reserves the slot
(`counter += 1` together with the limit check) before it spawns; the worker does not count itself.

All interleavings = all `List Event` accepted by `run?`.  Core Lean only (linked into `c17d`).
-/
namespace Compio.Asyncify

/-- what a job does when run: returns a value; panics inside the drivers' `catch_unwind_io`
wrapper (carried as `io::Error`); panics uncaught (raw `dispatch` user) and kills the worker -/
inductive Kind where
  | value | caught | raw
  deriving DecidableEq, Repr, Inhabited

/-- what reaches the submitter: `Ok(v)` or the panic payload resumed by `resume_unwind_io` -/
inductive Outcome where
  | value | panic
  deriving DecidableEq, Repr, Inhabited

inductive DState where
  | idle
  | trying (j : Nat)
  | full (j : Nat)
  | spawning (j : Nat)
  | sending (j : Nat)
  | blocked
  | refused (j : Nat)
  | panicked (j : Nat)
  deriving DecidableEq, Repr, Inhabited

inductive WState where
  | starting
  | ready
  | parked
  | handed (j : Nat)
  | running (j : Nat)
  | leaving
  | exited
  deriving DecidableEq, Repr, Inhabited

/-- an entry of a driver's completion queue (`completed_tx.send(Entry::new(key, res))`) -/
structure Done where
  owner : Nat
  job : Nat
  out : Outcome
  deriving DecidableEq, Repr

inductive Event where
  | submit (d : Nat) (k : Kind)
  | trySend (d : Nat)
  | load (d : Nat)
  | spawn (d : Nat)
  | send (d : Nat)
  | retry (d : Nat)
  | giveUp (d : Nat)
  | reap (d : Nat)
  | count (w : Nat)
  | recv (w : Nat)
  | wake (w : Nat)
  | timeout (w : Nat)
  | finish (w : Nat)
  | exit (w : Nat)
  deriving DecidableEq, Repr

/-- point update of a function -/
def upd {α : Type} (f : Nat → α) (i : Nat) (x : α) : Nat → α := fun k => if k = i then x else f k

structure State where
  /-- `thread_limit` -/
  limit : Nat
  /-- protocol variant, see the header -/
  reserve : Bool
  /-- number of dispatching threads -/
  nd : Nat
  /-- `AsyncifyPool::counter` -/
  counter : Nat
  /-- pool threads spawned so far (worker ids are spawn order) -/
  nw : Nat
  disp : Nat → DState
  wrk : Nat → WState
  /-- flume `chan.waiting`: receivers parked in `recv`, FIFO -/
  waiting : List Nat
  /-- flume `chan.sending`: blocked senders with their message, FIFO: (dispatcher, job) -/
  sendq : List (Nat × Nat)
  /-- jobs submitted so far (job ids are submission order) -/
  njobs : Nat
  kind : Nat → Kind
  owner : Nat → Nat
  /-- completion queues of the submitters (results on their way back) -/
  completed : List Done
  /-- results / panics that reached their submitter -/
  delivered : List Done
  /-- jobs whose uncaught panic killed their worker -/
  crashed : List Nat
  /-- jobs handed back to the caller by `DispatchError(f)` and kept by it -/
  returned : List Nat
  /-- jobs dropped by the `thread_limit == 0` panic -/
  dropped : List Nat
  /-- log of job starts: (job, worker) -/
  ran : List (Nat × Nat)

def init (limit nd : Nat) (reserve : Bool) : State :=
  { limit, reserve, nd, counter := 0, nw := 0, disp := fun _ => .idle, wrk := fun _ => .exited,
    waiting := [], sendq := [], njobs := 0, kind := fun _ => .value, owner := fun _ => 0,
    completed := [], delivered := [], crashed := [], returned := [], dropped := [], ran := [] }

def outcomeOf : Kind → Outcome
  | .value => .value
  | .caught => .panic
  | .raw => .panic

/-! ### dispatcher transitions -/

def doSubmit (s : State) (d : Nat) (k : Kind) : Option State :=
  if d < s.nd then
    match s.disp d with
    | .idle => some { s with disp := upd s.disp d (.trying s.njobs), njobs := s.njobs + 1,
                             kind := upd s.kind s.njobs k, owner := upd s.owner s.njobs d }
    | _ => none
  else none

def doTrySend (s : State) (d : Nat) : Option State :=
  if d < s.nd then
    match s.disp d with
    | .trying j =>
      match s.waiting with
      | w :: rest => some { s with disp := upd s.disp d .idle, wrk := upd s.wrk w (.handed j), waiting := rest }
      | [] => some { s with disp := upd s.disp d (.full j) }
    | _ => none
  else none

def doLoad (s : State) (d : Nat) : Option State :=
  if d < s.nd then
    match s.disp d with
    | .full j =>
      if s.limit = 0 then some { s with disp := upd s.disp d (.panicked j) }
      else if s.limit ≤ s.counter then some { s with disp := upd s.disp d (.refused j) }
      else if s.reserve then some { s with disp := upd s.disp d (.spawning j), counter := s.counter + 1 }
      else some { s with disp := upd s.disp d (.spawning j) }
    | _ => none
  else none

def doSpawn (s : State) (d : Nat) : Option State :=
  if d < s.nd then
    match s.disp d with
    | .spawning j => some { s with disp := upd s.disp d (.sending j), wrk := upd s.wrk s.nw .starting, nw := s.nw + 1 }
    | _ => none
  else none

def doSend (s : State) (d : Nat) : Option State :=
  if d < s.nd then
    match s.disp d with
    | .sending j =>
      match s.waiting with
      | w :: rest => some { s with disp := upd s.disp d .idle, wrk := upd s.wrk w (.handed j), waiting := rest }
      | [] => some { s with disp := upd s.disp d .blocked, sendq := s.sendq ++ [(d, j)] }
    | _ => none
  else none

def doRetry (s : State) (d : Nat) : Option State :=
  if d < s.nd then
    match s.disp d with
    | .refused j => some { s with disp := upd s.disp d (.trying j) }
    | _ => none
  else none

def doGiveUp (s : State) (d : Nat) : Option State :=
  if d < s.nd then
    match s.disp d with
    | .refused j => some { s with disp := upd s.disp d .idle, returned := j :: s.returned }
    | .panicked j => some { s with disp := upd s.disp d .idle, dropped := j :: s.dropped }
    | _ => none
  else none

/-- first completion entry owned by `d`, and the queue without it -/
def takeOwned (d : Nat) : List Done → Option (Done × List Done)
  | [] => none
  | e :: rest =>
    if e.owner = d then some (e, rest)
    else match takeOwned d rest with
      | some (x, r) => some (x, e :: r)
      | none => none

def doReap (s : State) (d : Nat) : Option State :=
  match takeOwned d s.completed with
  | some (e, rest) => some { s with completed := rest, delivered := e :: s.delivered }
  | none => none

/-! ### worker transitions -/

def doCount (s : State) (w : Nat) : Option State :=
  if w < s.nw then
    match s.wrk w with
    | .starting =>
      if s.reserve then some { s with wrk := upd s.wrk w .ready }
      else some { s with wrk := upd s.wrk w .ready, counter := s.counter + 1 }
    | _ => none
  else none

def doRecv (s : State) (w : Nat) : Option State :=
  if w < s.nw then
    match s.wrk w with
    | .ready =>
      match s.sendq with
      | (d, j) :: rest =>
        some { s with wrk := upd s.wrk w (.running j), sendq := rest, disp := upd s.disp d .idle,
                      ran := s.ran ++ [(j, w)] }
      | [] => some { s with wrk := upd s.wrk w .parked, waiting := s.waiting ++ [w] }
    | _ => none
  else none

def doWake (s : State) (w : Nat) : Option State :=
  if w < s.nw then
    match s.wrk w with
    | .handed j => some { s with wrk := upd s.wrk w (.running j), ran := s.ran ++ [(j, w)] }
    | _ => none
  else none

def doTimeout (s : State) (w : Nat) : Option State :=
  if w < s.nw then
    match s.wrk w with
    | .parked => some { s with wrk := upd s.wrk w .leaving, waiting := s.waiting.filter (fun x => x != w) }
    | _ => none
  else none

def doFinish (s : State) (w : Nat) : Option State :=
  if w < s.nw then
    match s.wrk w with
    | .running j =>
      if s.kind j = .raw then some { s with wrk := upd s.wrk w .leaving, crashed := j :: s.crashed }
      else some { s with wrk := upd s.wrk w .ready,
                         completed := s.completed ++ [{ owner := s.owner j, job := j, out := outcomeOf (s.kind j) }] }
    | _ => none
  else none

def doExit (s : State) (w : Nat) : Option State :=
  if w < s.nw then
    match s.wrk w with
    | .leaving => some { s with wrk := upd s.wrk w .exited, counter := s.counter - 1 }
    | _ => none
  else none

/-- one atomic step; `none` = the event is not enabled in `s` -/
def step? (s : State) : Event → Option State
  | .submit d k => doSubmit s d k
  | .trySend d => doTrySend s d
  | .load d => doLoad s d
  | .spawn d => doSpawn s d
  | .send d => doSend s d
  | .retry d => doRetry s d
  | .giveUp d => doGiveUp s d
  | .reap d => doReap s d
  | .count w => doCount s w
  | .recv w => doRecv s w
  | .wake w => doWake s w
  | .timeout w => doTimeout s w
  | .finish w => doFinish s w
  | .exit w => doExit s w

/-- run a schedule; `none` = some event was not enabled when its turn came -/
def run? (s : State) : List Event → Option State
  | [] => some s
  | e :: es =>
    match step? s e with
    | some s' => run? s' es
    | none => none

/-! ### observation functions -/

/-- number of indices `< n` whose value satisfies `p` -/
def cnt {α : Type} (f : Nat → α) (p : α → Bool) : Nat → Nat
  | 0 => 0
  | n + 1 => cnt f p n + (if p (f n) then 1 else 0)

def DState.holds (j : Nat) : DState → Bool
  | .trying i => i == j
  | .full i => i == j
  | .spawning i => i == j
  | .sending i => i == j
  | .refused i => i == j
  | .panicked i => i == j
  | .idle => false
  | .blocked => false

def DState.isSpawning : DState → Bool
  | .spawning _ => true
  | _ => false

def WState.holds (j : Nat) : WState → Bool
  | .handed i => i == j
  | .running i => i == j
  | _ => false

def WState.runs (j : Nat) : WState → Bool
  | .running i => i == j
  | _ => false

def WState.isRunning : WState → Bool
  | .running _ => true
  | _ => false

/-- states in which the worker has done `fetch_add` and not yet `fetch_sub` -/
def WState.counted : WState → Bool
  | .starting => false
  | .exited => false
  | _ => true

def WState.isStarting : WState → Bool
  | .starting => true
  | _ => false

def WState.alive : WState → Bool
  | .exited => false
  | _ => true

/-- pool threads that exist -/
def live (s : State) : Nat := cnt s.wrk WState.alive s.nw
/-- pool threads inside a job -/
def running (s : State) : Nat := cnt s.wrk WState.isRunning s.nw
/-- threads spawned (or about to be: limit check passed) that have not counted themselves yet -/
def inflight (s : State) : Nat := cnt s.wrk WState.isStarting s.nw + cnt s.disp DState.isSpawning s.nd

/-- number of places that hold job `j` -/
def holders (s : State) (j : Nat) : Nat :=
  cnt s.disp (DState.holds j) s.nd + s.sendq.countP (fun e => e.2 == j)
    + cnt s.wrk (WState.holds j) s.nw
    + s.completed.countP (fun e => e.job == j) + s.delivered.countP (fun e => e.job == j)
    + s.crashed.count j + s.returned.count j + s.dropped.count j

/-- how many times job `j` was started -/
def ranCount (s : State) (j : Nat) : Nat := s.ran.countP (fun e => e.1 == j)

/-- largest `inflight` over the states visited by a schedule (the start state included) -/
def peak (s : State) : List Event → Nat
  | [] => inflight s
  | e :: es =>
    match step? s e with
    | some s' => max (inflight s) (peak s' es)
    | none => inflight s

/-! ### what an observer of the real pool can see, and the acceptor run on recorded histories

The harness logs, per thread and in one global order: `call` (before `dispatch` is entered; a whole
`while let Err = dispatch` loop logs its first call only), `retOk` / `retBusy` / `retPanic` (after
`dispatch` returned), `begin` / `fin` (first and last statement of the job body, with the pool thread).
`Spec.step` is the deterministic acceptor for such histories; `obsOf` projects a model step to the
observations it causes (`Props/C17.lean`: every schedule of the model projects to an accepted history). -/
namespace Spec

inductive Obs where
  | call (d j : Nat)
  | retOk (d j : Nat)
  | retBusy (d j : Nat)
  | retPanic (d j : Nat)
  | begin (w j : Nat)
  | fin (w j : Nat)
  deriving DecidableEq, Repr

inductive Phase where
  | fresh
  | inCall (d : Nat)
  | busy (d : Nat)
  | ok
  | dropped
  deriving DecidableEq, Repr

inductive RunSt where
  | notRun
  | running (w : Nat)
  | finished
  deriving DecidableEq, Repr

/-- the job is inside a `dispatch` call or was accepted by one: it may start -/
def Phase.startable : Phase → Bool
  | .ok => true
  | .inCall _ => true
  | _ => false

structure SState where
  limit : Nat
  phase : Nat → Phase
  run : Nat → RunSt
  /-- the job dispatcher `d` is inside `dispatch` with -/
  dcur : Nat → Option Nat
  /-- the job pool thread `w` is running -/
  wjob : Nat → Option Nat
  /-- dispatch calls that returned `Ok` so far -/
  okCount : Nat
  /-- dispatch calls in progress -/
  inCalls : Nat
  nrun : Nat
  maxrun : Nat
  /-- job ids seen are `< seen` -/
  seen : Nat

def sinit (limit : Nat) : SState :=
  { limit, phase := fun _ => .fresh, run := fun _ => .notRun, dcur := fun _ => none, wjob := fun _ => none,
    okCount := 0, inCalls := 0, nrun := 0, maxrun := 0, seen := 0 }

def step (t : SState) : Obs → Option SState
  | .call d j =>
    if t.dcur d = none ∧ (t.phase j = .fresh ∨ t.phase j = .busy d) ∧ t.run j = .notRun then
      some { t with phase := upd t.phase j (.inCall d), dcur := upd t.dcur d (some j),
                    inCalls := t.inCalls + 1, seen := max t.seen (j + 1) }
    else none
  | .retOk d j =>
    if t.dcur d = some j ∧ t.phase j = .inCall d then
      some { t with phase := upd t.phase j .ok, dcur := upd t.dcur d none,
                    inCalls := t.inCalls - 1, okCount := t.okCount + 1 }
    else none
  | .retBusy d j =>
    -- refused: the job was not started, and `counter >= limit` needs `limit` spawns, each made by
    -- another call that returned `Ok` or is still in progress
    if t.dcur d = some j ∧ t.phase j = .inCall d ∧ t.run j = .notRun ∧ 1 ≤ t.limit
        ∧ t.limit + 1 ≤ t.okCount + t.inCalls then
      some { t with phase := upd t.phase j (.busy d), dcur := upd t.dcur d none, inCalls := t.inCalls - 1 }
    else none
  | .retPanic d j =>
    if t.dcur d = some j ∧ t.phase j = .inCall d ∧ t.run j = .notRun ∧ t.limit = 0 then
      some { t with phase := upd t.phase j .dropped, dcur := upd t.dcur d none, inCalls := t.inCalls - 1 }
    else none
  | .begin w j =>
    if (t.phase j).startable = true ∧ t.run j = .notRun ∧ t.wjob w = none then
      some { t with run := upd t.run j (.running w), wjob := upd t.wjob w (some j),
                    nrun := t.nrun + 1, maxrun := max t.maxrun (t.nrun + 1) }
    else none
  | .fin w j =>
    if t.run j = .running w ∧ t.wjob w = some j then
      some { t with run := upd t.run j .finished, wjob := upd t.wjob w none, nrun := t.nrun - 1 }
    else none

def runObs (t : SState) : List Obs → Option SState
  | [] => some t
  | o :: os =>
    match step t o with
    | some t' => runObs t' os
    | none => none

/-- acceptable final status of a job once everything has come to rest -/
def settledJob (t : SState) (j : Nat) : Bool :=
  match t.phase j, t.run j with
  | .ok, .finished => true
  | .busy _, .notRun => true
  | .dropped, .notRun => true
  | .fresh, .notRun => true
  | _, _ => false

def allSettled (t : SState) : Nat → Bool
  | 0 => true
  | n + 1 => allSettled t n && settledJob t n

end Spec

/-- the observations one model step causes (looked up in the state before the step) -/
def obsOf (s : State) : Event → List Spec.Obs
  | .submit d _ => [.call d s.njobs]
  | .retry d => match s.disp d with
    | .refused j => [.call d j]
    | _ => []
  | .trySend d => match s.disp d, s.waiting with
    | .trying j, _ :: _ => [.retOk d j]
    | _, _ => []
  | .load d => match s.disp d with
    | .full j => if s.limit = 0 then [.retPanic d j] else if s.limit ≤ s.counter then [.retBusy d j] else []
    | _ => []
  | .send d => match s.disp d, s.waiting with
    | .sending j, _ :: _ => [.retOk d j]
    | _, _ => []
  | .recv w => match s.wrk w, s.sendq with
    | .ready, (d, j) :: _ => [.begin w j, .retOk d j]
    | _, _ => []
  | .wake w => match s.wrk w with
    | .handed j => [.begin w j]
    | _ => []
  | .finish w => match s.wrk w with
    | .running j => [.fin w j]
    | _ => []
  | _ => []

/-- the observable history of a schedule -/
def trace (s : State) : List Event → List Spec.Obs
  | [] => []
  | e :: es =>
    match step? s e with
    | some s' => obsOf s e ++ trace s' es
    | none => []

/-! ### collecting the result of a blocking job

The job body runs under `catch_unwind_io` on the pool thread (`push_blocking`): a panic is stored in the
key as `io::Error::other(Panic(payload))`.  Every public way to collect — `Proactor::pop`,
`Proactor::pop_with_extra`, `Proactor::cancel` of a completed key, the runtime's `submit(..).await`,
`submit(..).with_extra().await` and the `spawn_blocking` JoinHandle (which are built on the first two) —
is `key.take_result()` followed by `resume_unwind_io`: one function, `collect`, for all paths. -/

/-- what the job body did -/
inductive JobResult where
  | ok (v : Nat)
  | err (code : Nat)
  | panicked (payload : Nat)
  deriving DecidableEq, Repr

/-- the `io::Result<usize>` stored in the key -/
inductive Carried where
  | ok (v : Nat)
  | err (code : Nat)
  | panic (payload : Nat)
  deriving DecidableEq, Repr

/-- `catch_unwind_io` -/
def catchUnwindIo : JobResult → Carried
  | .ok v => .ok v
  | .err c => .err c
  | .panicked p => .panic p

/-- what the collecting call shows to its caller -/
inductive Seen where
  | value (v : Nat)
  | error (code : Nat)
  | unwind (payload : Nat)
  deriving DecidableEq, Repr

/-- `resume_unwind_io` -/
def resumeUnwindIo : Carried → Seen
  | .ok v => .value v
  | .err c => .error c
  | .panic p => .unwind p

inductive CollectPath where
  | pop | popWithExtra | cancel | submit | submitWithExtra | spawnBlocking
  deriving DecidableEq, Repr

/-- `take_result` then `resume_unwind_io`, on every path -/
def collect (_path : CollectPath) (c : Carried) : Seen := resumeUnwindIo c

/-! ### the worker's retirement deadline

`worker` hands the configured idle timeout unchanged to `receiver.recv_timeout(timeout)`; flume computes the
deadline as `Instant::now().checked_add(timeout)`: the addition is *checked*, an overflow (e.g.
`Duration::MAX`, `u64::MAX / 2` seconds) means "no deadline" — the worker never retires, nothing panics.
Durations and instants are counted in nanoseconds. -/

/-- largest representable `Instant` offset (the model only needs that one exists) -/
def instantMax : Nat := 2 ^ 64 * 1000000000

/-- `Instant::checked_add` -/
def checkedDeadline (now timeout : Nat) : Option Nat :=
  if now + timeout < instantMax then some (now + timeout) else none

/-- what a new pool thread does before its first `recv`: count itself, then enter `recv_timeout` with the
checked deadline; `panic` would be a thread that dies before receiving (it is never produced) -/
inductive Prologue where
  | enterRecv (deadline : Option Nat)
  | panic
  deriving DecidableEq, Repr

def workerPrologue (now timeout : Nat) : Prologue := .enterRecv (checkedDeadline now timeout)

/-- the idle timer of a parked worker can fire at `t` -/
def timerMayFire (deadline : Option Nat) (t : Nat) : Bool :=
  match deadline with
  | some d => decide (d ≤ t)
  | none => false

/-! ### a deterministic scheduler for the quiescent runs of the driver

`internal s` = the first worker that can make a step on its own (no timer, no job body involved);
`quiesce` runs such steps until none is left.  Used by `c17d` for the single-dispatcher cases, in
which the harness waits until every pool thread sleeps before it issues the next operation. -/

def internalOf (s : State) (w : Nat) : Option Event :=
  match s.wrk w with
  | .starting => some (.count w)
  | .ready => some (.recv w)
  | .handed _ => some (.wake w)
  | .leaving => some (.exit w)
  | _ => none

def firstInternal (s : State) : Nat → Option Event
  | 0 => none
  | n + 1 =>
    match firstInternal s n with
    | some e => some e
    | none => internalOf s n

def quiesce : Nat → State → List Event × State
  | 0, s => ([], s)
  | fuel + 1, s =>
    match firstInternal s s.nw with
    | none => ([], s)
    | some e =>
      match step? s e with
      | some s' => let r := quiesce fuel s'; (e :: r.1, r.2)
      | none => ([], s)

/-- enough fuel for `quiesce`: every worker makes at most three internal steps -/
def quiesceFuel (s : State) : Nat := 3 * s.nw + 1

end Compio.Asyncify
