/-
What `Submit::poll` sees of the `Ext` that the combinators (`with_cancel`, `with_personality`) layer onto the waker
(compio-runtime/src/future/combinator/mod.rs), computed from the table the extractor regenerates from the `Ext::with_*`
builders (`Compio.Gen.ExtMerge`). Core Lean only.
-/
import Compio.Gen.ExtMerge

namespace Compio.ExtStack

/-- the fields of `Ext` that carry a value -/
abbrev Ext := List String

/-- one builder: the fields it sets are set afterwards, the fields it preserves keep what they had, everything else is
reset -/
def applyRow (row : String × List String × List String × List String) (e : Ext) : Ext :=
  row.2.1 ++ e.filter (fun f => row.2.2.1.contains f)

def applyBuilder (e : Ext) (name : String) : Ext :=
  match Gen.extBuilders.find? (fun r => r.1 == name) with
  | some r => applyRow r e
  | none => e

/-- the `Ext` at the bottom of a stack of combinators, OUTERMOST first (the outermost `poll` runs first and wraps the
waker; each inner one derives its `Ext` from the one it finds) -/
def bottom (stack : List String) : Ext := stack.foldl applyBuilder []

/-- does `Submit::poll` find a cancel token (`cx.get_cancel()`)? -/
def tokenVisible (stack : List String) : Bool := (bottom stack).contains "cancel"

/-- harness notation: one letter per combinator, INNERMOST first (`pc` = `fut.with_personality(p).with_cancel(tok)`) -/
def ofNest (nest : String) : List String :=
  (nest.toList.reverse.map fun ch => if ch = 'c' then "with_cancel" else if ch = 'p' then "with_personality" else "?")

end Compio.ExtStack
