/-
Model of the vectored buffer views of compio-buf: `IoVectoredBuf` / `IoVectoredBufMut` for containers of
buffers (`Vec<T>`, `[T; N]`, `ArrayVec<T, N>`, `SmallVec<[T; N]>` — all through `default_set_len` — and the
tuple chains `(T, Rest)` ending in `(T,)` or `()`), `VectoredSlice` (`slice(begin)`, `slice_mut(begin)`,
any nesting), `VectoredBufIter` (`owned_iter`), `advance_vec_to` (io_buf.rs, io_vec_buf.rs, slice.rs).

Every member is a single-buffer view stack `Buf` over its own root. Iterators are lists of items
`(member index, range or fault)`, consumed left to right: the first faulty item a consumer reaches aborts it,
exactly like a panic inside the real iterator chain.
Core Lean only.
-/
import Compio.Model.View

namespace Compio.View

/-- how the container implements `SetLen` -/
inductive VKind where
  | list          -- Vec / array / ArrayVec / SmallVec / slice of buffers: `default_set_len`
  | tupleSingle   -- `(T, (T, ... (T,)))`
  | tupleUnit     -- `(T, (T, ... ()))`
  deriving DecidableEq, Repr

/-- a vectored buffer: a container of members, under any number of `VectoredSlice` layers -/
inductive VBuf where
  | base (kind : VKind) (ms : List Buf)
  | vslice (inner : VBuf) (begin idx offset : Nat)
  deriving Repr

abbrev Item := Nat × Res (Nat × Nat)

def indexFrom (n : Nat) : List (Res (Nat × Nat)) → List Item
  | [] => []
  | r :: t => (n, r) :: indexFrom (n + 1) t

def VBuf.members : VBuf → List Buf
  | .base _ ms => ms
  | .vslice i _ _ _ => i.members

def VBuf.setMembers (ms' : List Buf) : VBuf → VBuf
  | .base k _ => .base k ms'
  | .vslice i b x o => .vslice (i.setMembers ms') b x o

/-- `iter.skip(idx)`: the skipped items are evaluated (`nth`), a fault among them surfaces at the first `next()` -/
def dropEval : Nat → List Item → List Item
  | 0, l => l
  | _ + 1, [] => []
  | n + 1, (j, r) :: t =>
    match r with
    | .ok _ => dropEval n t
    | .error f => [(j, .error f)]

/-- the closure of `VectoredSlice::iter_*`: `&buf[offset..]` on the first item only -/
def applyOffset (offset : Nat) : List Item → List Item
  | [] => []
  | (j, r) :: t =>
    (j, match r with
      | .ok (o, l) => if offset ≤ l then .ok (o + offset, l - offset) else .error .panic
      | .error f => .error f) :: t

/-- `IoVectoredBuf::iter_slice` -/
def VBuf.iterSlice : VBuf → List Item
  | .base _ ms => indexFrom 0 (ms.map Buf.asInit)
  | .vslice i _ idx offset => applyOffset offset (dropEval idx i.iterSlice)

/-- `IoVectoredBufMut::iter_uninit_slice` -/
def VBuf.iterUninit : VBuf → List Item
  | .base _ ms => indexFrom 0 (ms.map Buf.asUninit)
  | .vslice i _ idx offset => applyOffset offset (dropEval idx i.iterUninit)

/-- `.map(len).sum()`: `total_len` / `total_capacity` -/
def sumItems : List Item → Res Nat
  | [] => .ok 0
  | (_, .ok (_, l)) :: t =>
    match sumItems t with
    | .ok s => .ok (l + s)
    | .error f => .error f
  | (_, .error f) :: _ => .error f

def VBuf.totalLen (v : VBuf) : Res Nat := sumItems v.iterSlice
def VBuf.totalCap (v : VBuf) : Res Nat := sumItems v.iterUninit

/-- the loop of `slice` / `slice_mut`: skip whole members while `len <= offset` -/
def skipCount : List Item → Nat → Nat → Res (Nat × Nat)
  | [], off, idx => .ok (idx, off)
  | (_, .error f) :: _, _, _ => .error f
  | (_, .ok (_, l)) :: t, off, idx => if l > off then .ok (idx, off) else skipCount t (off - l) (idx + 1)

/-- `IoVectoredBuf::slice(begin)`: counts initialised bytes -/
def VBuf.mkSlice (v : VBuf) (b : Nat) : Res VBuf :=
  match skipCount v.iterSlice b 0 with
  | .ok (idx, off) => .ok (.vslice v b idx off)
  | .error f => .error f

/-- `IoVectoredBufMut::slice_mut(begin)`: counts capacity -/
def VBuf.mkSliceMut (v : VBuf) (b : Nat) : Res VBuf :=
  match skipCount v.iterUninit b 0 with
  | .ok (idx, off) => .ok (.vslice v b idx off)
  | .error f => .error f

/-- `default_set_len`: `while len > 0 { curr = next()?; sub = min(curr.buf_capacity(), len); curr.set_len(sub); len -= sub }` -/
def defaultSetLen : List Buf → Nat → Res (List Buf)
  | [], _ => .ok []
  | m :: rest, len =>
    if len = 0 then .ok (m :: rest)
    else
      match m.asUninit with
      | .error f => .error f
      | .ok (_, c) =>
        match m.setLen (min c len) with
        | .error f => .error f
        | .ok m' =>
          match defaultSetLen rest (len - min c len) with
          | .ok rest' => .ok (m' :: rest')
          | .error f => .error f

/-- `SetLen for (T, Rest)` / `(T,)` / `()`: the head takes `min(len, capacity)` (always calling `set_len`, also
with 0), a lone last `(T,)` takes everything unclamped, `()` asserts that nothing is left -/
def tupleSetLen (unit : Bool) : List Buf → Nat → Res (List Buf)
  | [], len => if unit then (if len = 0 then .ok [] else .error .panic) else .ok []
  | [m], len =>
    if unit then
      match m.asUninit with
      | .error f => .error f
      | .ok (_, c) =>
        match m.setLen (min len c) with
        | .error f => .error f
        | .ok m' => if len - min len c = 0 then .ok [m'] else .error .panic
    else
      match m.setLen len with
      | .ok m' => .ok [m']
      | .error f => .error f
  | m :: m2 :: rest, len =>
    match m.asUninit with
    | .error f => .error f
    | .ok (_, c) =>
      match m.setLen (min len c) with
      | .error f => .error f
      | .ok m' =>
        match tupleSetLen unit (m2 :: rest) (len - min len c) with
        | .ok rest' => .ok (m' :: rest')
        | .error f => .error f

/-- `SetLen::set_len` of containers and of `VectoredSlice` (`buf.set_len(begin + len)`) -/
def VBuf.setLen : VBuf → Nat → Res VBuf
  | .base k ms, n =>
    match (match k with
      | .list => defaultSetLen ms n
      | .tupleSingle => tupleSetLen false ms n
      | .tupleUnit => tupleSetLen true ms n) with
    | .ok ms' => .ok (.base k ms')
    | .error f => .error f
  | .vslice i b x o, n =>
    match i.setLen (b + n) with
    | .ok i' => .ok (.vslice i' b x o)
    | .error f => .error f

/-- `SetLenExt::advance_vec_to`: `if len > total_len() { set_len(len) }` -/
def VBuf.advanceVecTo (v : VBuf) (n : Nat) : Res VBuf :=
  match v.totalLen with
  | .error f => .error f
  | .ok t => if n > t then v.setLen n else .ok v

/-- where the bytes of a vectored fill go: consecutive writable ranges, in order, until the data is used up
(the iterator is only advanced while data is left) -/
def distribute : List Item → Bytes → Res (List (Nat × Nat × Bytes))
  | [], _ => .ok []
  | (j, r) :: t, d =>
    if d.isEmpty then .ok []
    else
      match r with
      | .error f => .error f
      | .ok (o, l) =>
        match distribute t (d.drop l) with
        | .ok cs => .ok ((j, o, d.take l) :: cs)
        | .error f => .error f

def modifyAt (f : Buf → Buf) : List Buf → Nat → List Buf
  | [], _ => []
  | m :: t, 0 => f m :: t
  | m :: t, j + 1 => m :: modifyAt f t j

def applyWrites (ms : List Buf) : List (Nat × Nat × Bytes) → List Buf
  | [] => ms
  | (j, o, d) :: cs => applyWrites (modifyAt (fun m => m.write o d) ms j) cs

/-- a vectored fill: `data` goes to the start of the concatenated writable ranges, then `advance_vec_to(|data|)` -/
def VBuf.fill (v : VBuf) (data : Bytes) : Res VBuf :=
  match v.totalCap with
  | .error f => .error f
  | .ok c =>
    if data.length ≤ c then
      match distribute v.iterUninit data with
      | .error f => .error f
      | .ok cs => (v.setMembers (applyWrites v.members cs)).advanceVecTo data.length
    else .error .contract

/-- `IntoInner` of `VectoredSlice` -/
def VBuf.peel : VBuf → VBuf
  | .base k ms => .base k ms
  | .vslice i _ _ _ => i

/-! ### `VectoredBufIter` -/

structure VIter where
  buf : VBuf
  totalFilled : Nat
  index : Nat
  len : Nat
  filled : Nat
  deriving Repr

/-- `.count()` evaluates every item -/
def countItems : List Item → Res Nat
  | [] => .ok 0
  | (_, .ok _) :: t =>
    match countItems t with
    | .ok n => .ok (n + 1)
    | .error f => .error f
  | (_, .error f) :: _ => .error f

/-- `owned_iter()`: `Err(buf)` (here `.inl`) when there is no member -/
def VBuf.ownedIter (v : VBuf) : Res (VBuf ⊕ VIter) :=
  match countItems v.iterSlice with
  | .error f => .error f
  | .ok n => if n > 0 then .ok (.inr ⟨v, 0, 0, n, 0⟩) else .ok (.inl v)

/-- `.nth(index).expect(..)` -/
def nthItem : List Item → Nat → Res (Nat × Nat × Nat)
  | [], _ => .error .panic
  | (j, r) :: _, 0 =>
    match r with
    | .ok (o, l) => .ok (j, o, l)
    | .error f => .error f
  | (_, r) :: t, n + 1 =>
    match r with
    | .ok _ => nthItem t n
    | .error f => .error f

/-- `as_init`: `&curr[self.filled..]` of the current member -/
def VIter.asInit (it : VIter) : Res (Nat × Nat × Nat) :=
  match nthItem it.buf.iterSlice it.index with
  | .error f => .error f
  | .ok (j, o, l) => if it.filled ≤ l then .ok (j, o + it.filled, l - it.filled) else .error .panic

/-- `as_uninit`: the whole writable range of the current member -/
def VIter.asUninit (it : VIter) : Res (Nat × Nat × Nat) := nthItem it.buf.iterUninit it.index

/-- `set_len`: `self.filled = len; self.buf.set_len(self.total_filled + self.filled)` -/
def VIter.setLen (it : VIter) (n : Nat) : Res VIter :=
  match it.buf.setLen (it.totalFilled + n) with
  | .ok b => .ok { it with buf := b, filled := n }
  | .error f => .error f

def VIter.advanceTo (it : VIter) (n : Nat) : Res VIter :=
  match it.asInit with
  | .error f => .error f
  | .ok (_, _, li) => if n > li then it.setLen n else .ok it

/-- `next()`: `.inl buf` when the members are exhausted -/
def VIter.next (it : VIter) : VBuf ⊕ VIter :=
  if it.index + 1 < it.len then
    .inr { it with index := it.index + 1, totalFilled := it.totalFilled + it.filled, filled := 0 }
  else .inl it.buf

/-- fill the current member: write at the start of `as_uninit`, record with `advance_to` -/
def VIter.fill (it : VIter) (data : Bytes) : Res VIter :=
  match it.asUninit with
  | .error f => .error f
  | .ok (j, o, c) =>
    if data.length ≤ c then
      match it.asInit with
      | .error f => .error f
      | .ok _ =>
        ({ it with buf := it.buf.setMembers (modifyAt (fun m => m.write o data) it.buf.members j) }).advanceTo
          data.length
    else .error .contract

end Compio.View
