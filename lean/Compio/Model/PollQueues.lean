/-
Per-descriptor interest queues of the polling driver
(compio-driver/src/sys/driver/poll/mod.rs: `FdQueue`, `Driver::{submit, submit_front, remove_one, renew, poll_one}`).

Keys are operation ids (`Nat`). The registry is a total function `fd ↦ FdQ`; the empty queue stands for
"no registry entry" (the code removes an entry as soon as both queues are empty: `remove_one`, `renew`,
the rollback in `submit`). Core Lean only.
-/
namespace Compio.PollQueues

/-- `Interest::{Readable, Writable}` -/
inductive Dir where
  | rd
  | wr
  deriving DecidableEq, Repr

/-- `FdQueue { read_queue, write_queue }` -/
structure FdQ where
  rq : List Nat
  wq : List Nat
  deriving DecidableEq, Repr

namespace FdQ

def empty : FdQ := ⟨[], []⟩

def sel (q : FdQ) : Dir → List Nat
  | .rd => q.rq
  | .wr => q.wq

def isEmpty (q : FdQ) : Bool := q.rq.isEmpty && q.wq.isEmpty

/-- `push_back_interest` -/
def pushBack (q : FdQ) (d : Dir) (k : Nat) : FdQ :=
  match d with
  | .rd => { q with rq := q.rq ++ [k] }
  | .wr => { q with wq := q.wq ++ [k] }

/-- `push_front_interest` -/
def pushFront (q : FdQ) (d : Dir) (k : Nat) : FdQ :=
  match d with
  | .rd => { q with rq := k :: q.rq }
  | .wr => { q with wq := k :: q.wq }

/-- `remove`: `retain(|k| k != key)` on both queues -/
def remove (q : FdQ) (k : Nat) : FdQ :=
  ⟨q.rq.filter (· != k), q.wq.filter (· != k)⟩

/-- number of references to `k` held by the two queues (what `remove` drops) -/
def occ (q : FdQ) (k : Nat) : Nat := q.rq.count k + q.wq.count k

/-- what the poller is asked to watch: `FdQueue::event` (readable, writable, user-data key) -/
structure Interest where
  r : Bool
  w : Bool
  key : Option Nat
  deriving DecidableEq, Repr

/-- `event()`: the key is the write head if there is one, else the read head -/
def event (q : FdQ) : Interest :=
  ⟨!q.rq.isEmpty, !q.wq.isEmpty,
    match q.wq.head? with
    | some k => some k
    | none => q.rq.head?⟩

/-- `pop_interest(&event)`: readable first -/
def popInterest (q : FdQ) (r w : Bool) : Option (Nat × Dir × FdQ) :=
  match r, q.rq with
  | true, k :: rest => some (k, .rd, { q with rq := rest })
  | _, _ =>
    match w, q.wq with
    | true, k :: rest => some (k, .wr, { q with wq := rest })
    | _, _ => none

end FdQ

abbrev Reg := Nat → FdQ

def upd {α : Type} (f : Nat → α) (k : Nat) (v : α) : Nat → α := fun x => if x = k then v else f x

@[simp] theorem upd_same {α : Type} (f : Nat → α) (k : Nat) (v : α) : upd f k v k = v := by simp [upd]

theorem upd_other {α : Type} (f : Nat → α) (k x : Nat) (v : α) (h : x ≠ k) : upd f k v x = f x := by
  simp [upd, h]

def Reg.empty : Reg := fun _ => FdQ.empty

end Compio.PollQueues
