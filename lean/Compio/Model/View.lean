/-
Model of the single-buffer view algebra of compio-buf
(`io_buf.rs`: IoBuf / IoBufMut / SetLen and the derived `*Ext` methods, `slice.rs`: Slice,
`uninit.rs`: Uninit, `io.rs`: Reader / Writer) and of `BufferRef`'s SetLen (compio-driver/src/buffer_pool.rs).

Conventions
* a root buffer is `(kind, len, mem)`; `mem` holds *all* `cap = mem.length` bytes of the allocation
  (the harness pre-initialises the spare capacity so that it can be observed), `len` is the
  initialised length the container reports;
* every range is reported in root coordinates: `(offset from the root allocation, length)`;
* a Rust panic (failed `assert!`, slice index out of range, `debug_assert!` — the harness is a debug
  build) is `.error .panic`; a call that would be undefined behaviour in the real container
  (`Vec::set_len` beyond the capacity) is `.error .ub`; a call the harness refuses to issue because
  the caller would break the documented safety contract of `set_len` (`len ≤ as_uninit().len()`)
  is `.error .contract`.
Core Lean only (no Mathlib) so that the driver links as an executable.
-/
import Compio.Model.Common

namespace Compio.View

inductive Fault where
  | panic
  | ub
  | contract
  deriving DecidableEq, Repr

abbrev Res := Except Fault

/-- root buffer kinds, by the behaviour of their `SetLen` impl (io_buf.rs) -/
inductive Kind where
  | vec        -- `Vec<u8>`: `Vec::set_len` raw
  | bytesmut   -- `BytesMut`: `BytesMut::set_len` raw (debug_assert on the capacity)
  | arr        -- `[u8; N]`: len = cap fixed, `set_len` only `debug_assert!(len <= N)`
  | boxed      -- `Box<[u8]>`: like `arr` (`impl SetLen for [u8]`)
  | arrayvec   -- `ArrayVec<u8, N>`: grows only (`if buf_len() < len`)
  | smallvec   -- `SmallVec<[u8; N]>`: grows only
  | pool       -- `BufferRef`: `len = min(len, cap)` (not tied by the harness: needs a driver)
  deriving DecidableEq, Repr

structure Root where
  kind : Kind
  len : Nat
  mem : Bytes
  deriving DecidableEq, Repr

def Root.cap (r : Root) : Nat := r.mem.length

/-- `SetLen::set_len` of the root containers -/
def Root.setLen (r : Root) (n : Nat) : Res Root :=
  match r.kind with
  | .vec => if n ≤ r.cap then .ok { r with len := n } else .error .ub
  | .bytesmut => if n ≤ r.cap then .ok { r with len := n } else .error .panic
  | .arr => if n ≤ r.cap then .ok r else .error .panic
  | .boxed => if n ≤ r.cap then .ok r else .error .panic
  | .arrayvec =>
    if r.len < n then (if n ≤ r.cap then .ok { r with len := n } else .error .panic) else .ok r
  | .smallvec =>
    if r.len < n then (if n ≤ r.cap then .ok { r with len := n } else .error .ub) else .ok r
  | .pool => .ok { r with len := min n r.cap }

/-- overwrite `data.length` bytes of `mem` starting at `off` (caller keeps `off + |data| ≤ |mem|`) -/
def splice (mem : Bytes) (off : Nat) (data : Bytes) : Bytes :=
  mem.take off ++ data ++ mem.drop (off + data.length)

/-- a view stack over one root: `Slice { buffer, begin, end }`, `Uninit(Slice { buffer, begin, None })`.
`Box<B>` layers forward every call and are not represented. -/
inductive Buf where
  | root (r : Root)
  | slice (inner : Buf) (b : Nat) (e : Option Nat)
  | uninit (inner : Buf) (b : Nat)
  deriving DecidableEq, Repr

/-- `&bytes[begin .. min(end.unwrap_or(l), l)]` of a region `(o, l)`: panics when `begin` exceeds the clamped end -/
def subRange (p : Nat × Nat) (b : Nat) (e : Option Nat) : Res (Nat × Nat) :=
  let e' := min (e.getD p.2) p.2
  if b ≤ e' then .ok (p.1 + b, e' - b) else .error .panic

/-- `IoBuf::as_init`: (offset in the root allocation, length) -/
def Buf.asInit : Buf → Res (Nat × Nat)
  | .root r => .ok (0, r.len)
  | .slice i b e =>
    match i.asInit with
    | .ok p => subRange p b e
    | .error f => .error f
  | .uninit i b =>
    match i.asInit with
    | .ok p => subRange p b none
    | .error f => .error f

/-- `IoBufMut::as_uninit`. `Uninit` skips `buf_len()` bytes of its slice (`&mut self.0.as_uninit()[len..]`). -/
def Buf.asUninit : Buf → Res (Nat × Nat)
  | .root r => .ok (0, r.cap)
  | .slice i b e =>
    match i.asUninit with
    | .ok p => subRange p b e
    | .error f => .error f
  | .uninit i b =>
    match i.asInit with
    | .error f => .error f
    | .ok pi =>
      match subRange pi b none with
      | .error f => .error f
      | .ok (_, li) =>
        match i.asUninit with
        | .error f => .error f
        | .ok pu =>
          match subRange pu b none with
          | .error f => .error f
          | .ok (o, c) => if li ≤ c then .ok (o + li, c - li) else .error .panic

def Buf.getRoot : Buf → Root
  | .root r => r
  | .slice i _ _ => i.getRoot
  | .uninit i _ => i.getRoot

def Buf.setRoot (r' : Root) : Buf → Buf
  | .root _ => .root r'
  | .slice i b e => .slice (i.setRoot r') b e
  | .uninit i b => .uninit (i.setRoot r') b

/-- `SetLen::set_len`: `Slice` and `Uninit` add their `begin` and forward -/
def Buf.setLen : Buf → Nat → Res Buf
  | .root r, n =>
    match r.setLen n with
    | .ok r' => .ok (.root r')
    | .error f => .error f
  | .slice i b e, n =>
    match i.setLen (b + n) with
    | .ok i' => .ok (.slice i' b e)
    | .error f => .error f
  | .uninit i b, n =>
    match i.setLen (b + n) with
    | .ok i' => .ok (.uninit i' b)
    | .error f => .error f

/-- `SetLenExt::advance_to`: `if len > buf_len() { set_len(len) }` -/
def Buf.advanceTo (v : Buf) (n : Nat) : Res Buf :=
  match v.asInit with
  | .error f => .error f
  | .ok (_, li) => if n > li then v.setLen n else .ok v

/-- `SetLenExt::advance`: `set_len(buf_len() + len)` -/
def Buf.advance (v : Buf) (n : Nat) : Res Buf :=
  match v.asInit with
  | .error f => .error f
  | .ok (_, li) => v.setLen (li + n)

/-- `SetLenExt::clear` -/
def Buf.clear (v : Buf) : Res Buf := v.setLen 0

/-- store `data` at root offset `off` (what a driver / the kernel does through the `as_uninit` pointer) -/
def Buf.write (v : Buf) (off : Nat) (data : Bytes) : Buf :=
  v.setRoot { v.getRoot with mem := splice v.getRoot.mem off data }

/-- `IoBufExt::slice(range)`: `assert!(begin <= buf_len())`, `assert!(begin <= end)` -/
def Buf.mkSlice (v : Buf) (b : Nat) (e : Option Nat) : Res Buf :=
  match v.asInit with
  | .error f => .error f
  | .ok (_, li) =>
    if b ≤ li then
      match e with
      | none => .ok (.slice v b none)
      | some e => if b ≤ e then .ok (.slice v b (some e)) else .error .panic
    else .error .panic

/-- `IoBufMutExt::uninit`: `Uninit(buffer.slice(buf_len()..))` -/
def Buf.mkUninit (v : Buf) : Res Buf :=
  match v.asInit with
  | .error f => .error f
  | .ok (_, li) => .ok (.uninit v li)

/-- `Slice<Slice<T>>::flatten` (anything else is returned unchanged: the method does not exist there) -/
def Buf.flatten : Buf → Buf
  | .slice (.slice i lb le) b e =>
    let ne := match e, le with
      | some se, some le => some (min (lb + se) le)
      | some se, none => some (lb + se)
      | none, le => le
    .slice i (lb + b) ne
  | v => v

/-- `IntoInner::into_inner` of `Slice` / `Uninit` -/
def Buf.peel : Buf → Buf
  | .root r => .root r
  | .slice i _ _ => i
  | .uninit i _ => i

/-! ### the operations drivers and the harness perform, with the safety contract of `set_len` checked -/

/-- write `data` at the start of the writable region, then record it with `advance_to(|data|)` -/
def Buf.fill (v : Buf) (data : Bytes) : Res Buf :=
  match v.asUninit with
  | .error f => .error f
  | .ok (o, c) => if data.length ≤ c then (v.write o data).advanceTo data.length else .error .contract

/-- the capacity the harness checks a requested length against: `as_uninit().len()` -/
def Buf.checked (v : Buf) (n : Nat) (k : Res Buf) : Res Buf :=
  match v.asUninit with
  | .error f => .error f
  | .ok (_, c) => if n ≤ c then k else .error .contract

/-- `IoBufMut::reserve` as far as it is deterministic: `none` = would have to grow a growable root
(allocator dependent, the harness does not issue it), `some true` = `Ok(())`, `some false` = `NotSupported`.
Slice: fixed-size slices refuse; Uninit: forwards to the buffer *under* its slice. -/
def Buf.reserve : Buf → Nat → Res (Option Bool)
  | .root r, n =>
    match r.kind with
    | .vec | .bytesmut | .smallvec => if n ≤ r.cap - r.len then .ok (some true) else .ok none
    | _ => .ok (some (n ≤ r.cap - r.len))
  | .slice i _ e, n => if e.isSome then .ok (some false) else i.reserve n
  | .uninit i _, n => i.reserve n

inductive ExtendRes where
  | done (v : Buf)
  | notSupported
  | grow            -- would reallocate: not issued
  | fault (f : Fault)
  deriving Repr

/-- `IoBufMutExt::extend_from_slice` (and `Writer::write`): `init = buf_len(); reserve(len)?;
ptr = buf_mut_ptr() + init; copy; advance_to(init + len)`. The copy goes through a raw pointer: if it would
leave the root allocation the result is `.fault .ub` (the harness does not perform such a copy; a copy
of zero bytes touches nothing). -/
def Buf.extend (v : Buf) (data : Bytes) : ExtendRes :=
  match v.asInit with
  | .error f => .fault f
  | .ok (_, init) =>
    match v.reserve data.length with
    | .error f => .fault f
    | .ok none => .grow
    | .ok (some false) => .notSupported
    | .ok (some true) =>
      match v.asUninit with
      | .error f => .fault f
      | .ok (o, _) =>
        if data.length = 0 ∨ o + init + data.length ≤ v.getRoot.cap then
          match (v.write (o + init) data).advanceTo (init + data.length) with
          | .ok v' => .done v'
          | .error f => .fault f
        else .fault .ub

/-- `Reader::read(n)` on `Reader(Slice { buffer, begin, None })`: copies `min(n, remaining)` bytes and moves `begin`.
Returns the bytes delivered and the new reader (a slice with `e = none`). -/
def readerRead (v : Buf) (n : Nat) : Res (Bytes × Buf) :=
  match v with
  | .slice i b none =>
    match (Buf.slice i b none).asInit with
    | .error f => .error f
    | .ok (o, l) =>
      let k := min n l
      -- `set_begin`: `assert!(begin <= self.buffer.buf_len())`
      match i.asInit with
      | .error f => .error f
      | .ok (_, li) =>
        if b + k ≤ li then .ok (((i.getRoot.mem.drop o).take k), .slice i (b + k) none) else .error .panic
  | _ => .error .contract

/-- one step of a single-buffer program (the lines of the harness) -/
inductive Op where
  | slice (b : Nat) (e : Option Nat)
  | uninit
  | flat (b1 : Nat) (e1 : Option Nat) (b2 : Nat) (e2 : Option Nat)
  | peel
  | fill (data : Bytes)
  | setLen (n : Nat)
  | advanceTo (n : Nat)
  | advance (n : Nat)
  | clear
  deriving Repr

def Buf.step (v : Buf) : Op → Res Buf
  | .slice b e => v.mkSlice b e
  | .uninit => v.mkUninit
  | .flat b1 e1 b2 e2 =>
    match v.mkSlice b1 e1 with
    | .error f => .error f
    | .ok s => match s.mkSlice b2 e2 with
      | .error f => .error f
      | .ok s2 => .ok s2.flatten
  | .peel => .ok v.peel
  | .fill d => v.fill d
  | .setLen n => v.checked n (v.setLen n)
  | .advanceTo n => v.checked n (v.advanceTo n)
  | .advance n =>
    match v.asInit with
    | .error f => .error f
    | .ok (_, li) => v.checked (li + n) (v.advance n)
  | .clear => v.clear

def Buf.run (v : Buf) : List Op → Res Buf
  | [] => .ok v
  | op :: rest =>
    match v.step op with
    | .ok v' => v'.run rest
    | .error f => .error f

end Compio.View
