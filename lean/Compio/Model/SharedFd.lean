/-
C06 — executable model of `compio-driver/src/fd.rs` (`SharedFd`, `take()`, `Drop`) and of the
life cycle of descriptors produced by operations (accept / open / socket / pipe, multishot accept).
Core Lean only.

`SharedFd<T>(Shared<Inner<T>>)`, `Inner { fd, waits: AtomicBool, waker: WakerSlot }`.

Actors are numbered by creation order (index into `actors`): handles, operations holding a clone,
closers (a handle turned into the `take()` / `close()` future). Every interleaving of the actors'
atomic actions is a `List Ev`; `run` folds `step` over it.

Granularity.
* `Drop for SharedFd` is `if strong_count == 2 && waits { waker.wake() }` FOLLOWED BY the field drop
  (the reference-count decrement). Without the `sync` feature (`Rc`, one thread) nothing can run in
  between: event `drop`. With `sync` (`Arc`, handles are `Send`) the two halves are separate atomic
  actions: `dropCheck`, `dropDec`.
* One poll of the `poll_fn` inside `take()` is `try_unwrap; register; try_unwrap`. Event `poll` is the
  whole poll; with `sync` the micro steps `pSwap pTry1 pReg pTry2 pBegin pNone` can be interleaved with
  other threads.
* Paths that release a reference WITHOUT running `Drop for SharedFd` (the raw `Shared` captured by the
  `take()` future is dropped: the second closer that finds `waits` already set, a `take()` future dropped
  before completion) are modelled as they are: plain decrement, counted in the ghost field `rawDecs`.
* `File::close` / `Socket::close` wrap the handle in `ManuallyDrop` and move it into an `async` block:
  dropping that future before its first poll forgets the reference (`leaked`).
Atomics are sequentially consistent (DESIGN.md §8).
-/
namespace Compio.SharedFd

/-- a handle or an operation's clone: alive, or (sync build) past the wake test of `Drop` but not yet decremented -/
inductive HSt where
  | live | checked
  deriving DecidableEq, Repr

/-- program counter of a `take()` / `close()` future -/
inductive CPc where
  | wrapped   -- `File::close`/`Socket::close` future, never polled (handle inside `ManuallyDrop`)
  | created   -- `SharedFd::take` future, never polled (raw `Shared` captured)
  | losing    -- `waits.swap(true)` returned `true`: will return `None` and drop the raw `Shared`
  | try1      -- inside a poll, before the first `try_unwrap`
  | reg       -- first `try_unwrap` failed, before `waker.register`
  | try2      -- registered, before the second `try_unwrap`
  | parked    -- the poll returned `Pending`
  | doneSome  -- `Ready(Some(fd))`: this closer owns the descriptor
  | doneNone  -- `Ready(None)`
  | dropped   -- future dropped while it held the reference (`created` or `parked`)
  | leaked    -- `wrapped` future dropped: the reference is forgotten, never released
  deriving DecidableEq, Repr

inductive Role where
  | handle (st : HSt)
  | op (st : HSt)
  | closer (pc : CPc)
  | gone
  deriving DecidableEq, Repr

def CPc.holds : CPc → Bool
  | .doneSome | .doneNone | .dropped => false
  | _ => true

/-- does this actor own one strong reference -/
def Role.holds : Role → Bool
  | .handle _ => true
  | .op _ => true
  | .closer pc => pc.holds
  | .gone => false

def b2n (b : Bool) : Nat := if b then 1 else 0

/-- number of strong references owned by the actors -/
def refs : List Role → Nat
  | [] => 0
  | r :: rs => b2n r.holds + refs rs

structure St where
  /-- `sync` feature: handles may be dropped on other threads (split `Drop`, interleaved polls) -/
  sync : Bool
  actors : List Role
  /-- `Shared::strong_count` (0 once the inner value has left the `Shared`) -/
  count : Nat
  waits : Bool
  /-- closer whose waker is stored in the `WakerSlot` -/
  slot : Option Nat
  /-- closers whose task has been woken since the start of their last poll -/
  woken : List Nat
  /-- number of `Waker::wake` calls made so far -/
  wakes : Nat
  /-- ghost: how many times the inner descriptor left the `Shared` (dropped in place = closed, or handed out) -/
  released : Nat
  /-- ghost: how many of those were hand-outs (`take()` = `Some`, `try_unwrap` = `Ok`) -/
  delivered : Nat
  /-- ghost: the closer that won `waits.swap(true)` -/
  winner : Option Nat
  /-- ghost: decrements that did not run `Drop for SharedFd` (no wake test) -/
  rawDecs : Nat
  /-- identity of the waker stored in the `WakerSlot` (meaningful while `slot` is `some`) -/
  slotW : Nat
  /-- per closer: the waker (task) that will poll the future next (`setWaker`: the future is handed to
  another task / polled through another combinator); default 0 -/
  nextW : List (Nat × Nat)
  /-- ghost, per closer: the waker supplied by the poll that parked it (= its latest poll while parked) -/
  parkedW : List (Nat × Nat)
  /-- (closer, waker) pairs woken since the start of that closer's last poll -/
  wokenW : List (Nat × Nat)
  /-- ghost: every `Waker::wake` so far, oldest first: (closer that registered it, waker id) -/
  wakeLog : List (Nat × Nat)
  deriving Repr

def wOf (l : List (Nat × Nat)) (c : Nat) : Nat := (l.lookup c).getD 0

def init (sync : Bool) : St :=
  { sync, actors := [.handle .live], count := 1, waits := false, slot := none, woken := [],
    wakes := 0, released := 0, delivered := 0, winner := none, rawDecs := 0, slotW := 0, nextW := [],
    parkedW := [], wokenW := [], wakeLog := [] }

inductive Ev where
  | clone (h : Nat)       -- `Clone for SharedFd` on a live handle: new handle
  | opStart (h : Nat)     -- `to_shared_fd()`: an operation stores a clone for its whole lifetime: new op
  | drop (x : Nat)        -- `Drop for SharedFd` of a handle / of a finished operation, as ONE step
  | dropCheck (x : Nat)   -- sync: `if strong_count == 2 && waits { wake }`
  | dropDec (x : Nat)     -- sync: the decrement that follows
  | tryUnwrap (h : Nat)   -- `SharedFd::try_unwrap`
  | take (h : Nat)        -- `SharedFd::take()`: the handle becomes a closer (`created`)
  | close (h : Nat)       -- `File::close()` / `Socket::close()`: the handle becomes a closer (`wrapped`)
  | poll (c : Nat)        -- one complete poll of the closer's future
  | pSwap (c : Nat)       -- sync micro steps of a poll
  | pNone (c : Nat)
  | pTry1 (c : Nat)
  | pReg (c : Nat)
  | pTry2 (c : Nat)
  | pBegin (c : Nat)
  | dropFut (c : Nat)     -- the closer's future is dropped
  | setWaker (c w : Nat)  -- between polls: the closer's future will be polled with waker `w` from now on
  deriving DecidableEq, Repr

def setRole (s : St) (i : Nat) (r : Role) : St := { s with actors := s.actors.set i r }

/-- `WakerSlot::wake`: take the stored waker, wake it -/
def wake (s : St) : St :=
  match s.slot with
  | some c =>
    { s with slot := none, woken := c :: s.woken, wakes := s.wakes + 1,
             wokenW := (c, s.slotW) :: s.wokenW, wakeLog := s.wakeLog ++ [(c, s.slotW)] }
  | none => s

/-- the test at the top of `Drop for SharedFd` -/
def dropTest (s : St) : St := if s.count = 2 ∧ s.waits = true then wake s else s

/-- drop of one `Shared` reference; the last one drops the inner value (closes the descriptor) -/
def decRef (s : St) : St :=
  if s.count = 1 then { s with count := 0, released := s.released + 1 }
  else { s with count := s.count - 1 }

/-- successful `Shared::try_unwrap` -/
def deliver (s : St) : St :=
  { s with count := 0, released := s.released + 1, delivered := s.delivered + 1 }

def clearWoken (s : St) (c : Nat) : St :=
  { s with woken := s.woken.filter (· != c), wokenW := s.wokenW.filter (·.1 != c) }

def stepClone (s : St) (h : Nat) : Option St :=
  match s.actors[h]? with
  | some (.handle .live) => some { s with actors := s.actors ++ [.handle .live], count := s.count + 1 }
  | _ => none

def stepOpStart (s : St) (h : Nat) : Option St :=
  match s.actors[h]? with
  | some (.handle .live) => some { s with actors := s.actors ++ [.op .live], count := s.count + 1 }
  | _ => none

def stepDrop (s : St) (x : Nat) : Option St :=
  match s.actors[x]? with
  | some (.handle .live) => some (decRef (setRole (dropTest s) x .gone))
  | some (.op .live) => some (decRef (setRole (dropTest s) x .gone))
  | _ => none

def stepDropCheck (s : St) (x : Nat) : Option St :=
  if s.sync then
    match s.actors[x]? with
    | some (.handle .live) => some (setRole (dropTest s) x (.handle .checked))
    | some (.op .live) => some (setRole (dropTest s) x (.op .checked))
    | _ => none
  else none

def stepDropDec (s : St) (x : Nat) : Option St :=
  if s.sync then
    match s.actors[x]? with
    | some (.handle .checked) => some (decRef (setRole s x .gone))
    | some (.op .checked) => some (decRef (setRole s x .gone))
    | _ => none
  else none

def stepTryUnwrap (s : St) (h : Nat) : Option St :=
  match s.actors[h]? with
  | some (.handle .live) => if s.count = 1 then some (deliver (setRole s h .gone)) else some s
  | _ => none

def stepTake (s : St) (h : Nat) : Option St :=
  match s.actors[h]? with
  | some (.handle .live) => some (setRole s h (.closer .created))
  | _ => none

def stepClose (s : St) (h : Nat) : Option St :=
  match s.actors[h]? with
  | some (.handle .live) => some (setRole s h (.closer .wrapped))
  | _ => none

/-- `waits.swap(true)` at the first poll -/
def swapWaits (s : St) (c : Nat) : St :=
  if s.waits then setRole s c (.closer .losing)
  else setRole { s with waits := true, winner := some c } c (.closer .try1)

/-- `else { None }`: the captured raw `Shared` is dropped, no wake test -/
def loseNone (s : St) (c : Nat) : St :=
  decRef { setRole s c (.closer .doneNone) with rawDecs := s.rawDecs + 1 }

def tryUnwrap1 (s : St) (c : Nat) : St :=
  if s.count = 1 then deliver (setRole s c (.closer .doneSome)) else setRole s c (.closer .reg)

/-- `this.waker.register(cx.waker())`: on EVERY poll that finds the descriptor still shared -/
def register (s : St) (c : Nat) : St :=
  setRole { s with slot := some c, slotW := wOf s.nextW c } c (.closer .try2)

def tryUnwrap2 (s : St) (c : Nat) : St :=
  if s.count = 1 then deliver (setRole s c (.closer .doneSome))
  else setRole { s with parkedW := (c, wOf s.nextW c) :: s.parkedW } c (.closer .parked)

def beginPoll (s : St) (c : Nat) : St := setRole (clearWoken s c) c (.closer .try1)

/-- the rest of a poll from `try1`, as one step -/
def pollBody (s : St) (c : Nat) : St :=
  if s.count = 1 then deliver (setRole s c (.closer .doneSome))
  else setRole { s with slot := some c, slotW := wOf s.nextW c, parkedW := (c, wOf s.nextW c) :: s.parkedW }
    c (.closer .parked)

def firstPoll (s : St) (c : Nat) : St :=
  if s.waits then loseNone s c
  else pollBody { s with waits := true, winner := some c } c

def stepPoll (s : St) (c : Nat) : Option St :=
  match s.actors[c]? with
  | some (.closer .created) => some (firstPoll s c)
  | some (.closer .wrapped) => some (firstPoll s c)
  | some (.closer .parked) => some (pollBody (clearWoken s c) c)
  | _ => none

def stepMicro (s : St) (c : Nat) (from_ : CPc) (f : St → Nat → St) : Option St :=
  if s.sync then
    match s.actors[c]? with
    | some (.closer pc) => if pc = from_ then some (f s c) else none
    | _ => none
  else none

def stepPSwap (s : St) (c : Nat) : Option St :=
  if s.sync then
    match s.actors[c]? with
    | some (.closer .created) => some (swapWaits s c)
    | some (.closer .wrapped) => some (swapWaits s c)
    | _ => none
  else none

def stepDropFut (s : St) (c : Nat) : Option St :=
  match s.actors[c]? with
  | some (.closer .created) => some (decRef { setRole s c (.closer .dropped) with rawDecs := s.rawDecs + 1 })
  | some (.closer .parked) => some (decRef { setRole s c (.closer .dropped) with rawDecs := s.rawDecs + 1 })
  | some (.closer .wrapped) => some (setRole s c (.closer .leaked))
  | _ => none

/-- the pending future changes hands; only between polls (the waker of a running poll is fixed) -/
def stepSetWaker (s : St) (c w : Nat) : Option St :=
  match s.actors[c]? with
  | some (.closer .created) => some { s with nextW := (c, w) :: s.nextW }
  | some (.closer .wrapped) => some { s with nextW := (c, w) :: s.nextW }
  | some (.closer .parked) => some { s with nextW := (c, w) :: s.nextW }
  | _ => none

def step (s : St) : Ev → Option St
  | .clone h => stepClone s h
  | .opStart h => stepOpStart s h
  | .drop x => stepDrop s x
  | .dropCheck x => stepDropCheck s x
  | .dropDec x => stepDropDec s x
  | .tryUnwrap h => stepTryUnwrap s h
  | .take h => stepTake s h
  | .close h => stepClose s h
  | .poll c => stepPoll s c
  | .pSwap c => stepPSwap s c
  | .pNone c => stepMicro s c .losing loseNone
  | .pTry1 c => stepMicro s c .try1 tryUnwrap1
  | .pReg c => stepMicro s c .reg register
  | .pTry2 c => stepMicro s c .try2 tryUnwrap2
  | .pBegin c => stepMicro s c .parked beginPoll
  | .dropFut c => stepDropFut s c
  | .setWaker c w => stepSetWaker s c w

def run (s : St) : List Ev → Option St
  | [] => some s
  | e :: es =>
    match step s e with
    | some s' => run s' es
    | none => none

/-- events in which `Drop for SharedFd` is one step (everything except the split halves) -/
def Ev.dropAtomic : Ev → Bool
  | .dropCheck _ | .dropDec _ => false
  | _ => true

/-- events of the single-threaded (`Rc`) build: whole drops, whole polls -/
def Ev.unsync : Ev → Bool
  | .dropCheck _ | .dropDec _ | .pSwap _ | .pNone _ | .pTry1 _ | .pReg _ | .pTry2 _ | .pBegin _ => false
  | _ => true

/-- the index an event acts on -/
def Ev.target : Ev → Nat
  | .clone h | .opStart h | .drop h | .dropCheck h | .dropDec h | .tryUnwrap h | .take h | .close h
  | .poll h | .pSwap h | .pNone h | .pTry1 h | .pReg h | .pTry2 h | .pBegin h | .dropFut h => h
  | .setWaker h _ => h

def St.role (s : St) (i : Nat) : Option Role := s.actors[i]?

def St.parked (s : St) (c : Nat) : Prop := s.actors[c]? = some (.closer .parked)

/-- no actor other than closers that are finished owns a reference -/
def St.quiescent (s : St) : Prop := refs s.actors = 0

end Compio.SharedFd

/-! ## Descriptors produced by an operation

`Accept::accepted_fd`, `OpenFile::opened_fd`, `CreateSocket::opened_fd`, `Pipe::fds`, the multishot
accept queue: a descriptor created by the kernel is adopted into an owning type *inside the op*
(`set_result`, or `call()` on the polling driver) even if the submitter is gone; it stays owned by the
op until the caller takes it (`into_inner`, `pop_multishot`), and is closed when the op is dropped.
The op itself is owned by the key: the future holds one reference, the driver one while in flight. -/
namespace Compio.Produced

inductive Fut where
  | idle        -- future created, never polled: owns the op
  | submitted   -- polled `Pending`: owns a key
  | ready       -- returned `Ready`, the caller got the op back
  | dropped
  deriving DecidableEq, Repr

structure St where
  fut : Fut
  /-- the driver still holds its key reference (operation in flight) -/
  inDriver : Bool
  cancelled : Bool
  /-- completion stored in the key -/
  result : Option Bool
  /-- descriptors owned by the op struct (`accepted_fd` / `opened_fd` / multishot queue), oldest first -/
  held : List Nat
  /-- ghost: descriptors produced so far are named `0 .. next-1` -/
  next : Nat
  taken : List Nat
  closed : List Nat
  deriving Repr

def init : St :=
  { fut := .idle, inDriver := false, cancelled := false, result := none, held := [], next := 0,
    taken := [], closed := [] }

inductive Ev where
  | poll                    -- poll of the `Submit` future / `poll_next` of the stream for the final result
  | pollImm (ok : Bool)     -- first poll where the driver completes the op synchronously (`PushEntry::Ready`)
  | complete (ok : Bool)    -- the driver completes the op: `set_result` (+ adoption) and drops its key
  | shot                    -- multishot: one more accepted descriptor (`push_multishot`)
  | popShot                 -- `poll_next` hands one queued descriptor to the caller
  | dropFut                 -- the future / stream is dropped (`Proactor::cancel`)
  /-- io_uring driver, opcode not supported by the kernel: `push_blocking` runs `call_blocking()` (which
  stores the new descriptor in the op) and `Entry::notify` then runs the io_uring `set_result`, which wraps
  the same number a second time and overwrites the field: the first owner is dropped (closes the number)
  while the op keeps the second (`CreateSocket`, `Accept`; `OpenFile::call` returns `Ok(0)`, so there the
  second owner is descriptor 0). -/
  | completeFallback
  /-- `Incoming::poll_next` after it handed out the descriptor of a finished op (`try_take().into_inner()`,
  `this.op = None`): the next `poll_next` builds a fresh `AcceptMulti` (the stream outlives its ops) -/
  | rearm
  deriving DecidableEq, Repr

/-- the op struct is dropped: everything it still owns is closed -/
def dropOp (s : St) : St := { s with closed := s.closed ++ s.held, held := [] }

/-- the caller takes the op back and calls `into_inner` -/
def takeAll (s : St) : St := { s with taken := s.taken ++ s.held, held := [] }

def adopt (s : St) : St := { s with held := s.held ++ [s.next], next := s.next + 1 }

def step (s : St) : Ev → Option St
  | .poll =>
    match s.fut with
    | .idle => some { s with fut := .submitted, inDriver := true }
    | .submitted =>
      match s.result with
      | some _ => some (takeAll { s with fut := .ready })
      | none => some s
    | _ => none
  | .pollImm ok =>
    match s.fut with
    | .idle =>
      let s1 := if ok then adopt s else s
      some (takeAll { s1 with fut := .ready, result := some ok })
    | _ => none
  | .complete ok =>
    if s.inDriver = true ∧ s.result = none then
      let s1 := if ok then adopt s else s
      let s2 := { s1 with inDriver := false, result := some ok }
      -- nobody else holds the key: the op is dropped with the driver's reference
      some (if s.fut = .dropped then dropOp s2 else s2)
    else none
  | .completeFallback =>
    if s.inDriver = true ∧ s.result = none then
      let s1 := adopt s
      let s2 := { s1 with closed := s1.closed ++ [s.next], inDriver := false, result := some true }
      some (if s.fut = .dropped then dropOp s2 else s2)
    else none
  | .rearm =>
    match s.fut with
    | .ready => some { s with fut := .idle, result := none, cancelled := false }
    | _ => none
  | .shot =>
    if s.inDriver = true ∧ s.result = none then some (adopt s) else none
  | .popShot =>
    match s.fut, s.held with
    | .submitted, fd :: rest => some { s with held := rest, taken := s.taken ++ [fd] }
    | _, _ => none
  | .dropFut =>
    match s.fut with
    | .idle => some (dropOp { s with fut := .dropped })
    | .submitted =>
      match s.result with
      | some _ => some (dropOp { s with fut := .dropped })          -- `cancel` returns the result, dropped
      | none => some { s with fut := .dropped, cancelled := true }  -- the driver keeps the op until it completes
    | _ => none

def run (s : St) : List Ev → Option St
  | [] => some s
  | e :: es =>
    match step s e with
    | some s' => run s' es
    | none => none

/-- nothing in flight and nobody left who could take the op -/
def St.finished (s : St) : Prop := s.inDriver = false ∧ (s.fut = .ready ∨ s.fut = .dropped)

end Compio.Produced

/-! ## An operation that waits on k descriptors (polling driver, `Splice`: source readable AND destination writable)

`poll::Driver::push` registers one interest per wait descriptor, each holding a clone of the key;
`Driver::cancel` calls `cancel_one` for EVERY descriptor of the op and sends one cancelled entry if any
interest was removed. The op struct — and with it its k `SharedFd` clones — is dropped when the last key
clone goes (future, interests, completed entry). -/
namespace Compio.MultiWait

structure St where
  /-- interest registry: (descriptor, key) -/
  reg : List (Nat × Nat)
  /-- completed queue: keys of the entries waiting to be reaped -/
  completed : List Nat
  /-- keys held by a live future -/
  futures : List Nat
  deriving Repr

def init : St := { reg := [], completed := [], futures := [] }

/-- number of key clones alive: the op (and its k descriptor references) lives while this is positive -/
def keyRefs (s : St) (key : Nat) : Nat :=
  (s.reg.filter (·.2 == key)).length + s.completed.count key + s.futures.count key

def push (s : St) (key : Nat) (fds : List Nat) : St :=
  { s with reg := s.reg ++ fds.map (·, key), futures := key :: s.futures }

def mine (key : Nat) (fds : List Nat) (e : Nat × Nat) : Bool := e.2 == key && fds.contains e.1

/-- `Driver::cancel`: every interest of the op is removed; one cancelled entry if there was any -/
def cancel (s : St) (key : Nat) (fds : List Nat) : St :=
  { s with reg := s.reg.filter (fun e => !mine key fds e),
           completed := if s.reg.any (mine key fds) then key :: s.completed else s.completed }

def dropFuture (s : St) (key : Nat) : St := { s with futures := s.futures.erase key }

/-- the driver pops the completed entry and drops its key -/
def reap (s : St) (key : Nat) : St := { s with completed := s.completed.erase key }

end Compio.MultiWait
