/-
C10, session 3: (a) repeated *appending* fills through one `Uninit` view (what `uninit.rs` is for: the view
"exposes the tail after the initialised length", so a reader stores at the front of `as_uninit()` and records
with `advance(k)`), (b) pool buffers: `BufferRef` of compio-driver/src/buffer_pool.rs with `set_capacity` /
`with_capacity` (the hand model of the `SetLen` clamp in `Root.setLen .pool` has no capacity that can move).
Core Lean only.
-/
import Compio.Model.View

namespace Compio.View

/-- no `Uninit` layer in the stack -/
def Buf.noUninit : Buf → Bool
  | .root _ => true
  | .slice i _ _ => i.noUninit
  | .uninit _ _ => false

/-- store `data` at the front of `as_uninit()`, record it with `advance(|data|)` (= `set_len(buf_len() + k)`).
Issued by the harness only on an `Uninit` whose inner stack has no further `Uninit` layer (else `contract`). -/
def Buf.fillAdv (v : Buf) (data : Bytes) : Res Buf :=
  match v with
  | .uninit i b =>
    if i.noUninit then
      match (Buf.uninit i b).asUninit with
      | .error f => .error f
      | .ok (o, c) =>
        if data.length ≤ c then ((Buf.uninit i b).write o data).advance data.length else .error .contract
    else .error .contract
  | _ => .error .contract

/-- a sequence of appending fills through one view -/
def Buf.fillAdvAll (v : Buf) : List Bytes → Res Buf
  | [] => .ok v
  | d :: rest =>
    match v.fillAdv d with
    | .ok v' => v'.fillAdvAll rest
    | .error f => .error f

/-- what one appending fill has to do to the root: `d` stored right behind the initialised bytes, `len` moved behind it -/
def appendRoot (r : Root) (d : Bytes) : Root :=
  { r with len := r.len + d.length, mem := splice r.mem r.len d }

end Compio.View

namespace Compio.Pool
open Compio Compio.View

/-- `BufferRef`: `len`, `cap` (user-set), the whole allocation `mem` (`full_cap = |mem|`) -/
structure PBuf where
  len : Nat
  cap : Nat
  mem : Bytes
  deriving DecidableEq, Repr

def PBuf.full (p : PBuf) : Nat := p.mem.length

def u32Max : Nat := 4294967295

/-- `SetLen::set_len`: `debug_assert!(len <= u32::MAX)`, `self.len = (len as u32).min(self.cap)` -/
def PBuf.setLen (p : PBuf) (n : Nat) : Res PBuf :=
  if n ≤ u32Max then .ok { p with len := min n p.cap } else .error .panic

/-- `set_capacity`: `if cap == 0 { return }`, `self.cap = (cap as u32).min(self.full_cap)`,
`self.len = self.len.min(self.cap)` (`as u32` truncates) -/
def PBuf.setCap (p : PBuf) (c : Nat) : PBuf :=
  if c = 0 then p else
    let cap := min (c % (u32Max + 1)) p.full
    { p with cap := cap, len := min p.len cap }

/-- `SetLenExt::advance_to` -/
def PBuf.advanceTo (p : PBuf) (n : Nat) : Res PBuf := if n > p.len then p.setLen n else .ok p

/-- `SetLenExt::advance` -/
def PBuf.advance (p : PBuf) (n : Nat) : Res PBuf := p.setLen (p.len + n)

/-- store at the front of `as_uninit()` (`cap` bytes from the base), then `advance_to(k)` -/
def PBuf.fill (p : PBuf) (d : Bytes) : Res PBuf :=
  if d.length ≤ p.cap then ({ p with mem := splice p.mem 0 d } : PBuf).advanceTo d.length else .error .contract

inductive Op where
  | setLen (n : Nat)
  | advanceTo (n : Nat)
  | advance (n : Nat)
  | clear
  | setCap (c : Nat)      -- also `with_capacity` (= `set_capacity` on the moved value)
  | fill (d : Bytes)
  deriving Repr

def PBuf.step (p : PBuf) : Op → Res PBuf
  | .setLen n => p.setLen n
  | .advanceTo n => p.advanceTo n
  | .advance n => p.advance n
  | .clear => p.setLen 0
  | .setCap c => .ok (p.setCap c)
  | .fill d => p.fill d

/-- a program; a refused / panicking call leaves the buffer as it was (the harness goes on) -/
def PBuf.run (p : PBuf) : List Op → PBuf
  | [] => p
  | op :: rest =>
    match p.step op with
    | .ok p' => p'.run rest
    | .error _ => p.run rest

/-- `as_init()` = `len` bytes from the base, `as_uninit()` = `cap` bytes from the base -/
def PBuf.asInit (p : PBuf) : Nat × Nat := (0, p.len)
def PBuf.asUninit (p : PBuf) : Nat × Nat := (0, p.cap)

/-- statement alphabet of the straight-line bodies of `BufferRef::set_capacity` / `SetLen::set_len`
(the lists themselves are regenerated from the source: Gen/PoolBufRef.lean) -/
inductive Stmt where
  | returnIfZero        -- `if cap == 0 { return; }`
  | capFromArgMinFull   -- `self.cap = (cap as u32).min(self.full_cap);`
  | lenMinCap           -- `self.len = self.len.min(self.cap);`
  | assertU32           -- `debug_assert!(len <= u32::MAX as usize);`
  | lenFromArgMinCap    -- `self.len = (len as u32).min(self.cap);`
  deriving DecidableEq, Repr

/-- run a statement list on a buffer with the method's `usize` argument `a` -/
def execStmts : List Stmt → PBuf → Nat → Res PBuf
  | [], p, _ => .ok p
  | .returnIfZero :: rest, p, a => if a = 0 then .ok p else execStmts rest p a
  | .capFromArgMinFull :: rest, p, a => execStmts rest { p with cap := min (a % (u32Max + 1)) p.full } a
  | .lenMinCap :: rest, p, a => execStmts rest { p with len := min p.len p.cap } a
  | .assertU32 :: rest, p, a => if a ≤ u32Max then execStmts rest p a else .error .panic
  | .lenFromArgMinCap :: rest, p, a => execStmts rest { p with len := min (a % (u32Max + 1)) p.cap } a


end Compio.Pool
