/-
Model of the endpoint-level waker bookkeeping of compio-quic (compio-quic/src/endpoint.rs), property C16:
`wait_incoming()` futures parked in `EndpointState::incoming_wakers`, `Endpoint::close`, and the tail of the worker
loop of `EndpointInner::run`. The statement list of `close`, the if-chains of the loop tail and the registration
site come from `Compio.Gen.QuicEndpoint`, REGENERATED from the source.

The worker loop only iterates when its `select!` completes: a datagram arrived on the socket or a connection sent
an endpoint event. `Endpoint::close` itself does not make it iterate. So whatever must happen AT close has to
happen IN `close`.
-/
import Compio.Gen.QuicEndpoint

namespace Compio.QuicEndpoint
open Compio.Gen.QuicEndpoint

structure Ep where
  tabs : ETbl → List Nat        -- waker ids, in `push_back` order
  closed : Bool                  -- `close.is_some()`
  incoming : Nat                 -- queued `quinn_proto::Incoming`
  woken : List Nat               -- ghost log of `Waker::wake`
  untold : Nat := 0              -- registered connections that were NOT sent `ConnectionEvent::Close`
  told : Nat := 0                -- registered connections that were

def Ep.init : Ep := ⟨fun _ => [], false, 0, [], 0, 0⟩

def Ep.setTab (e : Ep) (t : ETbl) (l : List Nat) : Ep :=
  { e with tabs := fun t' => if t' = t then l else e.tabs t' }

inductive ERes where
  | pending
  | incoming     -- `Ready(Some(incoming))`
  | none         -- `Ready(None)`: the endpoint is closed
  deriving DecidableEq, Repr

/-- `EndpointState::poll_incoming` polled by task `w` -/
def Ep.pollIncoming (e : Ep) (r : EReg) (w : Nat) : Ep × ERes :=
  if eRegChecksClosed r && e.closed then (e, .none)
  else if e.incoming > 0 then ({ e with incoming := e.incoming - 1 }, .incoming)
  else (e.setTab (eRegistersIn r) (e.tabs (eRegistersIn r) ++ [w]), .pending)

/-- the statements of `Endpoint::close` after the already-closed guard -/
def Ep.applyClose (e : Ep) : CloseAct → Ep
  | .guardAlreadyClosed => e
  | .setClose => { e with closed := true }
  | .notifyConnections => { e with told := e.told + e.untold, untold := 0 }
  | .drain t => { e.setTab t [] with woken := e.woken ++ e.tabs t }

/-- `Endpoint::close`: `if state.close.is_some() { return }` cuts the rest -/
def Ep.close (e : Ep) : Ep :=
  if closeBody.head? = some .guardAlreadyClosed && e.closed then e
  else closeBody.foldl Ep.applyClose e

def Ep.cond (e : Ep) : LoopCond → Bool
  | .incomingQueued => e.incoming > 0
  | .closed => e.closed

def Ep.applyWake (e : Ep) : LoopWake → Ep
  | .wakeMin t =>
    let n := min e.incoming (e.tabs t).length
    { e.setTab t ((e.tabs t).drop n) with woken := e.woken ++ (e.tabs t).take n }
  | .wakeAll t => { e.setTab t [] with woken := e.woken ++ e.tabs t }

/-- one if / else-if chain: the first branch whose condition holds -/
def Ep.runChain (e : Ep) : List (LoopCond × LoopWake) → Ep
  | [] => e
  | (c, w) :: rest => if e.cond c then e.applyWake w else e.runChain rest

/-- the tail of one iteration of the worker loop -/
def Ep.loopTail (e : Ep) : Ep := loopChains.foldl Ep.runChain e

inductive EOp where
  | poll (w : Nat)                -- a `wait_incoming()` future polled by task `w`
  | close                         -- `Endpoint::close`
  | datagram (newConn : Bool)     -- the worker handles a datagram (a new connection attempt or not), then the loop tail
  | newConn                       -- `EndpointState::new_connection`: `Incoming::accept` (of an `Incoming` handed out
                                  -- earlier, possibly before the close) or `Endpoint::connect`
  deriving DecidableEq, Repr

def Ep.step (e : Ep) : EOp → Ep × Option ERes
  | .poll w => let (e', r) := e.pollIncoming .endpointStatePollIncoming w; (e', some r)
  | .close => (e.close, none)
  | .datagram nc =>
    let e1 := if nc && newConnectionQueuedOnlyWhenOpen && !e.closed then { e with incoming := e.incoming + 1 } else e
    (e1.loopTail, none)
  | .newConn =>
    if newConnectionBornClosedWhenClosed && e.closed then ({ e with told := e.told + 1 }, none)
    else ({ e with untold := e.untold + 1 }, none)

def Ep.run (e : Ep) : List EOp → Ep
  | [] => e
  | o :: os => ((e.step o).1).run os

end Compio.QuicEndpoint
