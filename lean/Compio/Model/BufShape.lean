/-
C08 — buffer shapes as the driver op codes see them, and what "the OS transfers n bytes, then the
high-level call records the length" does to them.

* `Root`  : a `Vec<u8>`: the whole allocation `mem` (capacity = `mem.length`, spare bytes included, so that
            "untouched spare content" can be stated) and the recorded length `len`.
* `Buf`   : `Slice<Vec<u8>>` = `vec.slice(begin..end)` (compio-buf/src/slice.rs); `begin = 0, end = none`
            is the plain `Vec<u8>`.
* `offered k b` : the (offset, length) pair the op hands to the OS for range kind `k`
            (`Gen.OpTable.Kind`): `init` = `as_init()` / `sys_slice()`, `writable` = `as_uninit()` /
            `sys_slice_mut()`  (compio-driver/src/sys/sys_slice.rs).
* `osFill` / `osFillVec` : the OS stores bytes into the offered ranges, in order (readv semantics).
* `advanceTo`, `defaultSetLen`, `advanceVecTo` : compio-buf/src/io_buf.rs `SetLenExt::advance_to`,
            `default_set_len`, `SetLenExt::advance_vec_to`; `Vec::set_len` is a plain store.
* `readOp` / `readVecOp` / `writeOp` / `writeVecOp` : op + result mapping (op/ext.rs `map_advanced`,
            `map_vec_advanced`) against a file given as bytes.

Core Lean only.
-/
import Compio.Model.Common
import Compio.Gen.OpTable

namespace Compio.BufShape

open Compio.Gen.OpTable (Kind)

structure Root where
  mem : Bytes
  len : Nat
  deriving DecidableEq, Repr

def Root.cap (r : Root) : Nat := r.mem.length

structure Buf where
  root : Root
  start : Nat
  stop : Option Nat
  deriving DecidableEq, Repr

/-- plain `Vec<u8>` -/
def Buf.ofRoot (r : Root) : Buf := ⟨r, 0, none⟩

/-- `Slice::end_or_len` / plain `buf_len` -/
def Buf.endOrLen (b : Buf) : Nat := min (b.stop.getD b.root.len) b.root.len

/-- `Slice::end_or_cap` -/
def Buf.endOrCap (b : Buf) : Nat := min (b.stop.getD b.root.cap) b.root.cap

/-- `buf_len()` = `as_init().len()` -/
def Buf.bufLen (b : Buf) : Nat := b.endOrLen - b.start

/-- `buf_capacity()` = `as_uninit().len()` -/
def Buf.bufCap (b : Buf) : Nat := b.endOrCap - b.start

/-- the invariant `IoBufExt::slice` asserts (`begin <= buf_len`, `begin <= end`) plus `len <= capacity` -/
def Buf.wf (b : Buf) : Prop :=
  b.root.len ≤ b.root.cap ∧ b.start ≤ b.root.len ∧ (∀ e, b.stop = some e → b.start ≤ e)

instance (b : Buf) : Decidable b.wf :=
  match h : b.stop with
  | none => decidable_of_iff (b.root.len ≤ b.root.cap ∧ b.start ≤ b.root.len) (by simp [Buf.wf, h])
  | some e =>
    decidable_of_iff (b.root.len ≤ b.root.cap ∧ b.start ≤ b.root.len ∧ b.start ≤ e) (by simp [Buf.wf, h])

/-- (offset into `mem`, length) handed to the OS -/
def Buf.offered (k : Kind) (b : Buf) : Nat × Nat :=
  match k with
  | .init => (b.start, b.bufLen)
  | .writable => (b.start, b.bufCap)

/-- `as_init()` -/
def Buf.visible (b : Buf) : Bytes := (b.root.mem.drop b.start).take b.bufLen

/-- the bytes of `as_uninit()` (initialised or not; the harness pre-fills the allocation) -/
def Buf.window (b : Buf) : Bytes := (b.root.mem.drop b.start).take b.bufCap

/-- store `data` at offset `off` of the allocation (the caller guarantees it fits) -/
def storeAt (mem : Bytes) (off : Nat) (data : Bytes) : Bytes :=
  mem.take off ++ data ++ mem.drop (off + data.length)

/-- the OS stores `data` at the start of the range offered for kind `k` (at most its length) -/
def Buf.osFill (k : Kind) (b : Buf) (data : Bytes) : Buf :=
  let (off, n) := b.offered k
  { b with root := { b.root with mem := storeAt b.root.mem off (data.take n) } }

/-- `SetLen::set_len` of `Slice<Vec<u8>>`: `self.buffer.set_len(self.begin + len)`; `Vec::set_len` stores -/
def Buf.setLen (b : Buf) (l : Nat) : Buf :=
  { b with root := { b.root with len := b.start + l } }

/-- `SetLenExt::advance_to` -/
def Buf.advanceTo (b : Buf) (n : Nat) : Buf :=
  if n > b.bufLen then b.setLen n else b

/-- sum of the offered lengths -/
def offeredLen (k : Kind) (bs : List Buf) : Nat := (bs.map fun b => (b.offered k).2).sum

/-- `IoVectoredBuf::total_len` -/
def totalLen (bs : List Buf) : Nat := (bs.map Buf.bufLen).sum

/-- `IoVectoredBufMut::total_capacity` -/
def totalCap (bs : List Buf) : Nat := (bs.map Buf.bufCap).sum

/-- readv: the OS fills the offered ranges in order -/
def osFillVec (k : Kind) : List Buf → Bytes → List Buf
  | [], _ => []
  | b :: rest, data => b.osFill k data :: osFillVec k rest (data.drop (b.offered k).2)

/-- `default_set_len` (`[T]`, `[T; N]`, `Vec<T>`): walks the members while `len > 0` -/
def defaultSetLen : List Buf → Nat → List Buf
  | [], _ => []
  | b :: rest, len =>
    if len = 0 then b :: rest
    else
      let sub := min b.bufCap len
      b.setLen sub :: defaultSetLen rest (len - sub)

/-- `SetLenExt::advance_vec_to` -/
def advanceVecTo (bs : List Buf) (n : Nat) : List Buf :=
  if n > totalLen bs then defaultSetLen bs n else bs

/-- concatenation of the `as_init()` of the members (`iter_slice`) -/
def visibleVec (bs : List Buf) : Bytes := (bs.map Buf.visible).flatten

/-- concatenation of the `as_uninit()` windows of the members -/
def windowVec (bs : List Buf) : Bytes := (bs.map Buf.window).flatten

/-! ## reference file (`pread` on a byte list) and the ops -/

/-- `pread(fd, buf[..n], pos)` on a regular file with content `f` -/
def pread (f : Bytes) (pos n : Nat) : Bytes := (f.drop pos).take n

/-- `ReadAt`/`Read` with range kind `k`, followed by `map_advanced`: (result, buffer) -/
def readOp (k : Kind) (b : Buf) (f : Bytes) (pos : Nat) : Nat × Buf :=
  let data := pread f pos (b.offered k).2
  (data.length, (b.osFill k data).advanceTo data.length)

/-- `ReadVectoredAt`/`ReadVectored` with range kind `k`, followed by `map_vec_advanced` -/
def readVecOp (k : Kind) (bs : List Buf) (f : Bytes) (pos : Nat) : Nat × List Buf :=
  let data := pread f pos (offeredLen k bs)
  (data.length, advanceVecTo (osFillVec k bs data) data.length)

/-- the bytes a write op with range kind `k` hands to the OS -/
def Buf.offeredBytes (k : Kind) (b : Buf) : Bytes :=
  (b.root.mem.drop (b.offered k).1).take (b.offered k).2

def offeredBytesVec (k : Kind) (bs : List Buf) : Bytes := (bs.map (Buf.offeredBytes k)).flatten

/-- the range kind the op `op` hands to the OS on driver `d`, read off the regenerated table
(`none` when the table has no such row or the row is not unambiguous) -/
def kindOf (op : Gen.OpTable.Op) (d : Gen.OpTable.Driver) : Option Kind :=
  match Gen.OpTable.rows.find? fun r => r.op = op ∧ r.driver = d with
  | some r => match r.mainKinds with
    | [k] => some k
    | _ => none
  | none => none

/-! ## the length handed to the OS -/

open Compio.Gen.OpTable (LenKind)

def u32Max : Nat := 2 ^ 32 - 1

/-- the number the OS receives for a buffer of `n` bytes, by the way the op derives it -/
def lenHanded : LenKind → Nat → Nat
  | .saturating, n => min n u32Max
  | .cast, n => n % 2 ^ 32
  | .toField, n => n
  | .full, n => n

/-- how op `op` on driver `d` derives the byte length it hands to the OS (regenerated table); an impl that
passes the slice itself (no length expression) hands the full length -/
def lenOf (op : Gen.OpTable.Op) (d : Gen.OpTable.Driver) : Option LenKind :=
  match Gen.OpTable.rows.find? fun r => r.op = op ∧ r.driver = d with
  | some r => match r.byteLens with
    | [] => some .full
    | [k] => some k
    | _ => none
  | none => none

/-- a read into a fresh `Vec::with_capacity(cap)` (huge capacities are not materialised: only the bytes
delivered are tracked): the OS is asked for `lenHanded lk cap` bytes of `avail` -/
def hugeRead (lk : LenKind) (cap : Nat) (avail : Bytes) : Bytes := avail.take (lenHanded lk cap)

end Compio.BufShape
