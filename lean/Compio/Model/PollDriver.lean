/-
C02 — the polling driver's bookkeeping, modelled branch by branch from
compio-driver/src/sys/driver/poll/mod.rs (+ poll/op.rs, sys/extra/poll.rs, lib.rs `Proactor::{cancel, cancel_token}`).

  registry : HashMap<RawFd, FdQueue>     ↦ `reg : Fd → Option FdQueue`
  polling::Poller (epoll, one-shot mode)  ↦ `epoll : Fd → Option Event`  (interest last set by add/modify;
                                            delivering an event clears both flags = EPOLLONESHOT)
  PollExtra::track                        ↦ `track : Id → List Track`
  completed_tx / completed_rx             ↦ `chan : List (Id × Res)` (FIFO)
  AsyncifyPool jobs in flight             ↦ `pool : List Id`

The operations' own behaviour (`OpCode::operate`) and the file-descriptor kinds epoll refuses are parameters
(`Ops`), so every theorem holds for every operation mix; the line-protocol driver instantiates them with the
pipe/socket model of `Model/CompletionOs.lean`.

Core Lean only.
-/
import Compio.Model.Completion

namespace Compio.PollDriver
open Compio.Completion

abbrev Fd := Nat

inductive Dir where
  | read
  | write
deriving DecidableEq, Repr, Inhabited

/-- `Track { arg: WaitArg { fd, interest }, ready }` -/
structure Track where
  fd : Fd
  dir : Dir
  ready : Bool
deriving DecidableEq, Repr

/-- `polling::Event` as used by the driver -/
structure Event where
  key : Id
  readable : Bool
  writable : Bool
deriving DecidableEq, Repr

structure FdQueue where
  readQ : List Id := []
  writeQ : List Id := []
deriving DecidableEq, Repr

namespace FdQueue

def isEmpty (q : FdQueue) : Bool := q.readQ.isEmpty && q.writeQ.isEmpty

def get (q : FdQueue) : Dir → List Id
  | .read => q.readQ
  | .write => q.writeQ

/-- `push_back_interest` -/
def pushBack (q : FdQueue) (id : Id) : Dir → FdQueue
  | .read => { q with readQ := q.readQ ++ [id] }
  | .write => { q with writeQ := q.writeQ ++ [id] }

/-- `push_front_interest` -/
def pushFront (q : FdQueue) (id : Id) : Dir → FdQueue
  | .read => { q with readQ := id :: q.readQ }
  | .write => { q with writeQ := id :: q.writeQ }

/-- `remove_token` with the token `push_back_interest` just returned (index `len - 1`) -/
def removeLast (q : FdQueue) : Dir → FdQueue
  | .read => { q with readQ := q.readQ.dropLast }
  | .write => { q with writeQ := q.writeQ.dropLast }

/-- `remove`: `retain(|k| k != key)` on both queues -/
def remove (q : FdQueue) (id : Id) : FdQueue :=
  { readQ := q.readQ.filter (· ≠ id), writeQ := q.writeQ.filter (· ≠ id) }

/-- `event()`: interest = non-empty queues; key = head of the write queue if any, else head of the read queue -/
def event (q : FdQueue) : Event :=
  let k0 := match q.readQ with
    | k :: _ => k
    | [] => 0
  let k1 := match q.writeQ with
    | k :: _ => k
    | [] => k0
  { key := k1, readable := !q.readQ.isEmpty, writable := !q.writeQ.isEmpty }

/-- `pop_interest` -/
def popInterest (q : FdQueue) (ev : Event) : Option (Id × FdQueue) :=
  match ev.readable, q.readQ with
  | true, k :: rest => some (k, { q with readQ := rest })
  | _, _ =>
    match ev.writable, q.writeQ with
    | true, k :: rest => some (k, { q with writeQ := rest })
    | _, _ => none

end FdQueue

/-- what the driver needs to know about the operations and the descriptors -/
structure Ops (W : Type) where
  /-- `OpCode::operate` after a readiness event: `none` = `Poll::Pending` -/
  operate : W → Id → Option Res × W
  /-- errno of `epoll_ctl(EPOLL_CTL_ADD)` on this descriptor (EPERM for regular files, …) -/
  addFails : Fd → Option Nat

structure St (W : Type) where
  reg : Fd → Option FdQueue := fun _ => none
  epoll : Fd → Option Event := fun _ => none
  track : Id → List Track := fun _ => []
  chan : List (Id × Res) := []
  pool : List Id := []
  /-- `RawOp::cancelled` -/
  cancelled : Id → Bool := fun _ => false
  keys : Keys := {}
  world : W
  /-- ghost: ids successfully queued on (fd, read) resp. (fd, write), in submission order -/
  pushedR : Fd → List Id := fun _ => []
  pushedW : Fd → List Id := fun _ => []
  /-- ghost: the user dropped its key (`Proactor::cancel`) -/
  gaveUp : Id → Bool := fun _ => false

def St.queue {W : Type} (s : St W) (fd : Fd) (d : Dir) : List Id :=
  match s.reg fd with
  | none => []
  | some q => q.get d

def St.pushed {W : Type} (s : St W) (fd : Fd) : Dir → List Id
  | .read => s.pushedR fd
  | .write => s.pushedW fd

/-! ### the Poller (epoll interest list) -/

def epollAdd {W : Type} (ops : Ops W) (ep : Fd → Option Event) (fd : Fd) (ev : Event) :
    Except Nat (Fd → Option Event) :=
  match ops.addFails fd with
  | some e => .error e
  | none => if (ep fd).isSome then .error EEXIST else .ok (upd ep fd (some ev))

def epollModify (ep : Fd → Option Event) (fd : Fd) (ev : Event) : Except Nat (Fd → Option Event) :=
  if (ep fd).isSome then .ok (upd ep fd (some ev)) else .error ENOENT

def epollDelete (ep : Fd → Option Event) (fd : Fd) : Except Nat (Fd → Option Event) :=
  if (ep fd).isSome then .ok (upd ep fd none) else .error ENOENT

/-! ### `submit`, `submit_front`, `renew`, `remove_one` -/

def notePushed {W : Type} (s : St W) (id : Id) (fd : Fd) : Dir → St W
  | .read => { s with pushedR := upd s.pushedR fd (s.pushedR fd ++ [id]) }
  | .write => { s with pushedW := upd s.pushedW fd (s.pushedW fd ++ [id]) }

/-- `Driver::submit`: push back, add / modify, roll the push back on error. `some e` = `Err(e)`. -/
def submit {W : Type} (ops : Ops W) (s : St W) (id : Id) (fd : Fd) (dir : Dir) : St W × Option Nat :=
  let needAdd := (s.reg fd).isNone
  let q := ((s.reg fd).getD {}).pushBack id dir
  let res := if needAdd then epollAdd ops s.epoll fd q.event else epollModify s.epoll fd q.event
  match res with
  | .ok ep => (notePushed { s with reg := upd s.reg fd (some q), epoll := ep } id fd dir, none)
  | .error e =>
    let q' := q.removeLast dir
    ({ s with reg := upd s.reg fd (if q'.isEmpty then none else some q') }, some e)

/-- `Driver::submit_front`: push front, add / modify; an error propagates with the push left in place. -/
def submitFront {W : Type} (ops : Ops W) (s : St W) (id : Id) (fd : Fd) (dir : Dir) : St W × Option Nat :=
  let needAdd := (s.reg fd).isNone
  let q := ((s.reg fd).getD {}).pushFront id dir
  let s1 := { s with reg := upd s.reg fd (some q) }
  let res := if needAdd then epollAdd ops s.epoll fd q.event else epollModify s.epoll fd q.event
  match res with
  | .ok ep => ({ s1 with epoll := ep }, none)
  | .error e => (s1, some e)

/-- `Driver::renew` -/
def renew {W : Type} (s : St W) (fd : Fd) (ev : Event) : St W × Option Nat :=
  if !ev.readable && !ev.writable then
    match epollDelete s.epoll fd with
    | .ok ep => ({ s with epoll := ep, reg := upd s.reg fd none }, none)
    | .error e => (s, some e)
  else
    match epollModify s.epoll fd ev with
    | .ok ep => ({ s with epoll := ep }, none)
    | .error e => (s, some e)

/-- `Driver::remove_one` -/
def removeOne {W : Type} (s : St W) (id : Id) (fd : Fd) : St W × Option Nat :=
  match s.reg fd with
  | none => (s, none)
  | some q =>
    let q' := q.remove id
    let s1 := { s with reg := upd s.reg fd (if q'.isEmpty then none else some q') }
    renew s1 fd q'.event

/-- `for … { let _ = self.remove_one(&key, fd); }` -/
def removeAll {W : Type} (s : St W) (id : Id) : List Fd → St W
  | [] => s
  | fd :: rest => removeAll (removeOne s id fd).1 id rest

/-! ### `push` -/

/-- `Decision` returned by `pre_submit` (or its error) -/
inductive Decision where
  | wait (args : List (Fd × Dir))
  | completed (n : Nat)
  | blocking
  | fail (code : Nat)
deriving Repr

def submitAll {W : Type} (ops : Ops W) (s : St W) (id : Id) : List (Fd × Dir) → St W × Option Nat
  | [] => (s, none)
  | a :: rest =>
    match submit ops s id a.1 a.2 with
    | (s1, none) => submitAll ops s1 id rest
    | (s1, some e) => (s1, some e)

/-- `Proactor::push_with_extra` on the polling driver. `some r` = `PushEntry::Ready`. -/
def push {W : Type} (ops : Ops W) (s : St W) (id : Id) (d : Decision) : St W × Option Res :=
  let s0 := { s with keys := s.keys.alloc id }
  match d with
  | .fail code => ({ s0 with keys := s0.keys.immediate id (.err code) }, some (.err code))
  | .completed n => ({ s0 with keys := s0.keys.immediate id (.ok n) }, some (.ok n))
  | .blocking => ({ s0 with pool := id :: s0.pool }, none)
  | .wait args =>
    let s1 := { s0 with track := upd s0.track id (args.map fun a => ⟨a.1, a.2, false⟩) }
    match submitAll ops s1 id args with
    | (s2, none) => (s2, none)
    | (s2, some e) =>
      let s3 := removeAll s2 id (args.map (·.1))
      ({ s3 with keys := s3.keys.immediate id (.err e) }, some (.err e))

/-- a thread-pool job finishes: `completed.send(Entry::new(key, res)); waker.wake()` -/
def jobDone {W : Type} (s : St W) (id : Id) (res : Res) : St W :=
  { s with pool := s.pool.erase id, chan := s.chan ++ [(id, res)], keys := s.keys.produce id res }

/-! ### cancel -/

/-- the loop of `Driver::cancel` over the op's fds; `sent` = an ECANCELED entry was already queued -/
def cancelFds {W : Type} (s : St W) (id : Id) : List Fd → Bool → St W
  | [], _ => s
  | fd :: rest, sent =>
    match removeOne s id fd with
    | (s1, none) =>
      if sent then cancelFds s1 id rest true
      else cancelFds { s1 with chan := s1.chan ++ [(id, .err ECANCELED)],
                               keys := s1.keys.produce id (.err ECANCELED) } id rest true
    | (s1, some _) => cancelFds s1 id rest sent

/-- `Driver::cancel`: `op_type()` is `None` for operations that wait for no descriptor -/
def driverCancel {W : Type} (s : St W) (id : Id) : St W :=
  match s.track id with
  | [] => s
  | ts => cancelFds s id (ts.map (·.fd)) false

/-- `Proactor::cancel_token` (the token upgrades iff the RawOp is still allocated) -/
def cancelToken {W : Type} (s : St W) (id : Id) : St W × Bool :=
  match s.keys.slot id with
  | .free => (s, false)
  | sl =>
    let s1 := { s with cancelled := upd s.cancelled id true }
    if s.cancelled id || sl.isReady then (s1, false) else (driverCancel s1 id, true)

/-- `Proactor::cancel(key)`: consumes the user's key -/
def cancelDrop {W : Type} (s : St W) (id : Id) : St W × Option Res :=
  if s.cancelled id then ({ s with gaveUp := upd s.gaveUp id true }, none)
  else
    let s1 := { s with cancelled := upd s.cancelled id true }
    match s1.keys.pop id with
    | (ks, some r) => ({ s1 with keys := ks }, some r)
    | (_, none) => ({ driverCancel s1 id with gaveUp := upd s1.gaveUp id true }, none)

/-! ### poll -/

/-- `poll_completed` -/
def pollCompleted {W : Type} (s : St W) : St W × Bool :=
  (s.chan.foldl (fun (acc : St W) (e : Id × Res) => { acc with keys := acc.keys.notify e.1 e.2 })
     { s with chan := [] }, !s.chan.isEmpty)

/-- `PollExtra::next_fd` -/
def nextFd (ts : List Track) : Option Fd := (ts.find? (fun t => !t.ready)).map (·.fd)

/-- `PollExtra::handle_event` -/
def handleEvent (ts : List Track) (fd : Fd) : List Track × Bool :=
  let ts' := ts.map fun t => if t.fd = fd then { t with ready := true } else t
  (ts', ts'.all (·.ready))

/-- `PollExtra::reset` -/
def resetTracks (ts : List Track) : List Track := ts.map fun t => { t with ready := false }

def submitFrontAll {W : Type} (ops : Ops W) (s : St W) (id : Id) : List Track → St W × Option Nat
  | [] => (s, none)
  | t :: rest =>
    match submitFront ops s id t.fd t.dir with
    | (s1, none) => submitFrontAll ops s1 id rest
    | (s1, some e) => (s1, some e)

inductive Fault where
  /-- a Rust panic (`expect("the fd should be submitted")`) -/
  | panic (msg : String)
  /-- the environment event is impossible (event for a descriptor that is not armed) -/
  | reject (msg : String)
deriving DecidableEq, Repr

/-- the `if let Some((key, _)) = queue.pop_interest(&event) && … handle_event(fd) { match operate() … }`
    block of `poll_one`; `some e` = the early `return Err(e)` -/
def pollOneBody {W : Type} (ops : Ops W) (s : St W) (q : FdQueue) (ev : Event) (fd : Fd) : St W × Option Nat :=
  match q.popInterest ev with
  | none => (s, none)
  | some (id, q') =>
    let s1 := { s with reg := upd s.reg fd (some q') }
    let he := handleEvent (s1.track id) fd
    let s2 := { s1 with track := upd s1.track id he.1 }
    if he.2 then
      match ops.operate s2.world id with
      | (none, w') =>
        let ts := resetTracks (s2.track id)
        let s3 := { s2 with world := w', track := upd s2.track id ts }
        match submitFrontAll ops s3 id ts with
        | (s4, none) => (s4, none)
        | (s4, some e) => (removeAll s4 id (ts.map (·.fd)), some e)
      | (some res, w') =>
        ({ s2 with world := w', keys := (s2.keys.produce id res).notify id res }, none)
    else (s2, none)

/-- `Driver::poll_one` -/
def pollOne {W : Type} (ops : Ops W) (s : St W) (ev : Event) (fd : Fd) : Except Fault (St W × Option Nat) :=
  match s.reg fd with
  | none => .error (.panic "the fd should be submitted")
  | some q =>
    match pollOneBody ops s q ev fd with
    | (s', some e) => .ok (s', some e)
    | (s', none) =>
      match s'.reg fd with
      | none => .error (.panic "the fd should be submitted")
      | some q2 => .ok (renew s' fd q2.event)

/-- one entry of the `epoll_wait` result, named by the descriptor it really belongs to -/
structure Fired where
  fd : Fd
  readable : Bool
  writable : Bool
deriving DecidableEq, Repr

/-- `epoll_wait` in one-shot mode: each reported descriptor must be armed; reporting disarms it;
    the event carries the key registered last. -/
def deliver {W : Type} (s : St W) : List Fired → Except Fault (St W × List Event)
  | [] => .ok (s, [])
  | f :: rest =>
    match s.epoll f.fd with
    | none => .error (.reject "event for a descriptor that is not registered")
    | some ev =>
      if !(ev.readable || ev.writable) then .error (.reject "event for a disarmed descriptor")
      else
        let s1 := { s with epoll := upd s.epoll f.fd (some { ev with readable := false, writable := false }) }
        match deliver s1 rest with
        | .error e => .error e
        | .ok (s2, evs) => .ok (s2, ⟨ev.key, f.readable, f.writable⟩ :: evs)

inductive PollRes where
  | ok
  | timedOut
  | err (code : Nat)
deriving DecidableEq, Repr

/-- the `for event in events.iter()` loop of `Driver::poll` -/
def eventLoop {W : Type} (ops : Ops W) : St W → List Event → Except Fault (St W × PollRes)
  | s, [] => .ok (s, .ok)
  | s, ev :: rest =>
    -- `BorrowedKey::from_raw(event.key)`: dereferences the RawOp
    let s := if s.keys.slot ev.key == .free then { s with keys := { s.keys with uaf := true } } else s
    match s.track ev.key with
    | [] => eventLoop ops s rest                       -- `op_type()` is `None`
    | t :: ts =>
      match nextFd (t :: ts) with
      | none => .ok (s, .ok)                           -- "FIXME: This should not happen": `return Ok(())`
      | some fd =>
        match pollOne ops s ev fd with
        | .error f => .error f
        | .ok (s1, some e) => .ok (s1, .err e)
        | .ok (s1, none) => eventLoop ops s1 rest

/-- the timeout `Driver::poll` hands to the poller: a queued completion (`has_completed`, read BEFORE the
    wait) or a pending notification (`!need_wait`) turns a blocking wait into a non-blocking one -/
def waitTimeout {W : Type} (s : St W) (notified : Bool) (timeout : Option Nat) : Option Nat :=
  if notified || !s.chan.isEmpty then some 0 else timeout

/-- `Driver::poll`; `fired` is what `epoll_wait` reports -/
def poll {W : Type} (ops : Ops W) (s : St W) (timeoutIsSome : Bool) (fired : List Fired) :
    Except Fault (St W × PollRes) :=
  let hasCompleted := !s.chan.isEmpty
  match deliver s fired with
  | .error e => .error e
  | .ok (s1, evs) =>
    if evs.isEmpty then
      match pollCompleted s1 with
      | (s2, true) => .ok (s2, .ok)
      | (s2, false) => if timeoutIsSome then .ok (s2, .timedOut) else .ok (s2, .ok)
    else
      let s2 := if hasCompleted then (pollCompleted s1).1 else s1
      eventLoop ops s2 evs

/-! ### the user side -/

def pop {W : Type} (s : St W) (id : Id) : St W × Option Res :=
  match s.keys.pop id with
  | (ks, r) => ({ s with keys := ks }, r)

def setWaker {W : Type} (s : St W) (id : Id) (w : WakerId) : St W :=
  { s with keys := s.keys.setWaker id w }

/-! ### labelled transition system: every driver call and every environment action is one `Step` -/

inductive Step where
  | push (id : Id) (d : Decision)
  | jobDone (id : Id) (r : Res)
  | poll (timeoutIsSome : Bool) (fired : List Fired)
  | pop (id : Id)
  | setWaker (id : Id) (w : WakerId)
  | cancelToken (id : Id)
  | cancelDrop (id : Id)
deriving Repr

def step {W : Type} (ops : Ops W) (s : St W) : Step → Except Fault (St W)
  | .push id d =>
    -- ids are fresh (a key is a fresh allocation)
    if s.keys.slot id != .free || !(s.keys.src id).isEmpty || !(s.track id).isEmpty || s.pool.contains id
    then .error (.reject "push: id in use") else .ok (push ops s id d).1
  | .jobDone id r =>
    if s.pool.contains id then .ok (jobDone s id r) else .error (.reject "jobDone: no such job")
  | .poll t fired =>
    match poll ops s t fired with
    | .error f => .error f
    | .ok (s', _) => .ok s'
  | .pop id => if s.gaveUp id then .error (.reject "pop: key dropped") else .ok (pop s id).1
  | .setWaker id w => if s.gaveUp id then .error (.reject "waker: key dropped") else .ok (setWaker s id w)
  | .cancelToken id => .ok (cancelToken s id).1
  | .cancelDrop id =>
    -- the user must still hold the key: not dropped before, not consumed by `pop`
    if s.gaveUp id || s.keys.slot id == .free then .error (.reject "cancel: no key")
    else .ok (cancelDrop s id).1

/-- the operation pushed by this step waits for at most one descriptor (true for every operation of
    compio-driver except `Splice`, the only user of `Decision::wait_for_many`) -/
def Step.single : Step → Prop
  | .push _ (.wait args) => args.length ≤ 1
  | _ => True

def run {W : Type} (ops : Ops W) : St W → List Step → Except Fault (St W)
  | s, [] => .ok s
  | s, e :: rest =>
    match step ops s e with
    | .error f => .error f
    | .ok s' => run ops s' rest

end Compio.PollDriver
