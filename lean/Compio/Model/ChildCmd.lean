/-
C20 — two more pieces of compio-process (session 3):

1. `Command` as a REUSABLE builder (compio-process/src/lib.rs). `Command(process::Command)`: every method forwards
   to the wrapped std builder `self.0`. Which `stdin/stdout/stderr` calls each method makes on `self.0` is not
   restated by hand: it is read from the source by the extractor target `CommandShape`
   (`Compio.Gen.CommandShape.stdioOfSpawn`, `stdioOfStatus`, `stdioOfOutput`, `stdioOfStdin`, …) and the
   effect of a method on the configuration (`effect`) is the fold of those calls.
   NOTE what compio's `output()` does: unlike `std::process::Command::output` it sets NO default
   (`Stdio::piped()`) for an unconfigured stdout/stderr — it is `spawn` + `wait_with_output`; an unconfigured
   stream is inherited and the `Output` field is empty. Modelled as it is.

2. The buffer-pool read path `ChildStdout/ChildStderr::read_managed` (compio-process/src/unix.rs,
   `AsyncReadManaged`): one `ReadManaged` operation into a buffer of the runtime's pool. No free buffer:
   both drivers complete the operation with `ErrorKind::ResourceBusy` (io_uring: `ENOBUFS` in
   `create_result`, polling: `BufControl::pop`), and `read_managed` passes the error on. `Ok(None)` (end of file)
   is returned only for a read of 0 bytes. The reader (the caller) holds the `BufferRef`s it got and gives them back
   whenever it likes; on `ResourceBusy` it consumes what it holds and retries.
Core Lean only.
-/
import Compio.Model.ChildIo
import Compio.Gen.CommandShape

namespace Compio.ChildCmd

open Compio.ChildIo
open Compio.Gen.CommandShape

/-! ## the reusable builder -/

/-- `std::process::Stdio` as far as the property cares -/
inductive Sd where
  | inherit | piped | null
  deriving DecidableEq, Repr

/-- stdio configuration inside the builder (unconfigured = inherit for `spawn`) -/
structure BCfg where
  sin : Sd
  sout : Sd
  serr : Sd
  deriving DecidableEq, Repr

def BCfg.fresh : BCfg := ⟨.inherit, .inherit, .inherit⟩

/-- value of a recorded argument; `v` = what the caller passed -/
def argSd : StdioArg → Sd → Sd
  | .param, v => v
  | .null, _ => .null
  | .piped, _ => .piped
  | .inherit, _ => .inherit

def applyCall (v : Sd) (b : BCfg) (c : Stream × StdioArg) : BCfg :=
  match c.1 with
  | .stdin => { b with sin := argSd c.2 v }
  | .stdout => { b with sout := argSd c.2 v }
  | .stderr => { b with serr := argSd c.2 v }

/-- effect of a method on the configuration = its recorded `self.0.stdin/stdout/stderr(..)` calls, in order -/
def effect (calls : List (Stream × StdioArg)) (v : Sd) (b : BCfg) : BCfg := calls.foldl (applyCall v) b

inductive RunKind where
  | spawn | status | output
  deriving DecidableEq, Repr

/-- the calls of a run method, from the generated table -/
def RunKind.calls : RunKind → List (Stream × StdioArg)
  | .spawn => stdioOfSpawn
  | .status => stdioOfStatus
  | .output => stdioOfOutput

def setCalls : Stream → List (Stream × StdioArg)
  | .stdin => stdioOfStdin
  | .stdout => stdioOfStdout
  | .stderr => stdioOfStderr

/-- one call on the builder -/
inductive BOp where
  | set (s : Stream) (v : Sd)
  | run (k : RunKind)
  deriving DecidableEq, Repr

/-- The code: run a sequence of calls on ONE `Command`; for every `spawn/status/output` the configuration the
child is started with (the method's own configuration calls come before its `spawn`). -/
def runSeq (b : BCfg) : List BOp → List (RunKind × BCfg)
  | [] => []
  | .set s v :: r => runSeq (effect (setCalls s) v b) r
  | .run k :: r =>
    let b' := effect k.calls .inherit b
    (k, b') :: runSeq b' r

/-- The specification (std's documented builder semantics): a setter changes its own stream only, running a
child changes nothing. -/
def setSpec (b : BCfg) : Stream → Sd → BCfg
  | .stdin, v => { b with sin := v }
  | .stdout, v => { b with sout := v }
  | .stderr, v => { b with serr := v }

def specSeq (b : BCfg) : List BOp → List (RunKind × BCfg)
  | [] => []
  | .set s v :: r => specSeq (setSpec b s v) r
  | .run k :: r => (k, b) :: specSeq b r

/-- what the parent can collect from a stream of a child started with configuration `sd`: the bytes the child
wrote iff the stream is a pipe -/
def captured (sd : Sd) (bs : Bytes) : Option Bytes :=
  match sd with
  | .piped => some bs
  | _ => none

/-! ## the managed (buffer pool) reader -/

/-- result of one `read_managed` call -/
inductive MRes where
  | buf (bs : Bytes)
  | eof
  | busy
  deriving DecidableEq, Repr

/-- One `read_managed`: `free` = free buffers of the pool, `src` = what the child has written and will still write
and the parent has not read yet, `k` = the count the OS returns. No buffer → `ResourceBusy` — NOT end of file;
end of file only when nothing is left. -/
def readManaged (free : Nat) (src : Bytes) (k : Nat) : MRes :=
  if free = 0 then .busy
  else if src = [] then .eof
  else .buf (src.take k)

structure MSt where
  src : Bytes
  free : Nat
  held : List Bytes
  out : Bytes
  done : Bool
  deriving Repr

def mInit (pool : Nat) (src : Bytes) : MSt := ⟨src, pool, [], [], false⟩

inductive MEv where
  /-- the reader calls `read_managed`, the OS would transfer `k` bytes -/
  | read (k : Nat)
  /-- the reader consumes its `j` oldest buffers (they return to the pool) -/
  | release (j : Nat)
  deriving DecidableEq, Repr

def flat (l : List Bytes) : Bytes := l.foldr (· ++ ·) []

/-- the reader's reaction to the three results of `read_managed` -/
def mRead (pool : Nat) (s : MSt) (k : Nat) : MSt :=
  if s.done then s else
  match readManaged s.free s.src k with
  | .buf bs => { s with src := s.src.drop k, free := s.free - 1, held := s.held ++ [bs] }
  | .eof => { s with done := true, out := s.out ++ flat s.held, held := [], free := pool }
  -- `Err(ResourceBusy)`: consume the batch (gives the buffers back), retry later
  | .busy => { s with out := s.out ++ flat s.held, held := [], free := pool }

def mRelease (s : MSt) (j : Nat) : MSt :=
  { s with out := s.out ++ flat (s.held.take j), held := s.held.drop j, free := s.free + (s.held.take j).length }

def mStep (pool : Nat) (s : MSt) : MEv → MSt
  | .read k => mRead pool s k
  | .release j => mRelease s j

def mRun (pool : Nat) (s : MSt) : List MEv → MSt
  | [] => s
  | e :: es => mRun pool (mStep pool s e) es

/-- the harness' reader: request `len` bytes per call, keep at most `hold` buffers -/
def mLoop (pool hold len : Nat) : Nat → MSt → MSt
  | 0, s => s
  | f + 1, s =>
    if s.done then s else
    let s1 := mStep pool s (.read (min len s.src.length))
    let s2 := if s1.held.length > hold then mStep pool s1 (.release (s1.held.length - hold)) else s1
    mLoop pool hold len f s2

/-- the events `mLoop` performs (so that it is a schedule of `mRun`) -/
def mLoopEvs (pool hold len : Nat) : Nat → MSt → List MEv
  | 0, _ => []
  | f + 1, s =>
    if s.done then [] else
    let e1 := MEv.read (min len s.src.length)
    let s1 := mStep pool s e1
    if s1.held.length > hold then
      let e2 := MEv.release (s1.held.length - hold)
      e1 :: e2 :: mLoopEvs pool hold len f (mStep pool s1 e2)
    else e1 :: mLoopEvs pool hold len f s1

end Compio.ChildCmd
