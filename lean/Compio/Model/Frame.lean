/-
Model of compio-io/src/framed/frame.rs (LengthDelimited, AnyDelimited/CharDelimited, NoopFramer)
and of the read state machine of compio-io/src/framed/read.rs (`Stream::poll_next` of `Framed`).

Conventions
* a buffer is the list of initialised, not yet consumed bytes of `Buffer<B>` (the `Slice` view);
* Rust `usize` is 64 bit; an arithmetic overflow or an out-of-range slice is the explicit result `.panic`;
* `io::Error` results are `.err`.
Core Lean only (no Mathlib) so that the driver links as an executable.
-/
import Compio.Model.Common

namespace Compio.Frame

/-- exclusive upper bound of `usize` on the 64-bit targets the harness runs on -/
def usizeLimit : Nat := 2 ^ 64

/-- the `k` low bytes of `n`, least significant first (`u64::to_le_bytes()[..k]`) -/
def leBytes : Nat → Nat → Bytes
  | 0, _ => []
  | k + 1, n => UInt8.ofNat (n % 256) :: leBytes k (n / 256)

/-- value of a little-endian byte string (`u64::from_le_bytes` of the zero-extended field) -/
def leVal : Bytes → Nat
  | [] => 0
  | b :: r => b.toNat + 256 * leVal r

/-- `LengthDelimited::enclose` writes the low `lfl` bytes of the payload length, BE or LE -/
def encodeLen (lfl : Nat) (be : Bool) (n : Nat) : Bytes :=
  if be then (leBytes lfl n).reverse else leBytes lfl n

def decodeLen (be : Bool) (field : Bytes) : Nat :=
  if be then leVal field.reverse else leVal field

/-- result of `Framer::extract` -/
inductive Extract where
  | none
  | frame (pre pay suf : Nat)
  | err
  | panic
  deriving Repr, DecidableEq

/-- `LengthDelimited` (`length_field_len`, `length_field_is_big_endian`) -/
structure LD where
  lfl : Nat
  be : Bool
  deriving Repr, DecidableEq

def LD.enclose (f : LD) (payload : Bytes) : Bytes :=
  encodeLen f.lfl f.be payload.length ++ payload

/-- `LengthDelimited::extract` as the code is after the repair of finding F7a:
`length_field_len.checked_add(len)` failing is an `InvalidData` error. -/
def LD.extract (f : LD) (buf : Bytes) : Extract :=
  if buf.length < f.lfl then .none
  else
    let len := decodeLen f.be (buf.take f.lfl)
    if usizeLimit ≤ f.lfl + len then .err
    else if buf.length < f.lfl + len then .none
    else .frame f.lfl len 0

/-- the same function as it was on the pinned tree (finding F7a): the addition overflows -/
def LD.extractUnfixed (f : LD) (buf : Bytes) : Extract :=
  if buf.length < f.lfl then .none
  else
    let len := decodeLen f.be (buf.take f.lfl)
    if usizeLimit ≤ f.lfl + len then .panic
    else if buf.length < f.lfl + len then .none
    else .frame f.lfl len 0

/-- index of the first window of `buf` equal to `d` (`windows(d.len()).position(..)`), `d ≠ []` -/
def findSub (d : Bytes) : Bytes → Option Nat
  | [] => Option.none
  | b :: r => if d.isPrefixOf (b :: r) then some 0 else (findSub d r).map (· + 1)

/-- `AnyDelimited::extract`; `slice::windows(0)` panics -/
def anyExtract (d : Bytes) (buf : Bytes) : Extract :=
  if buf.isEmpty then .none
  else if d.isEmpty then .panic
  else match findSub d buf with
    | some pos => .frame 0 pos d.length
    | Option.none => .none

def anyEnclose (d : Bytes) (payload : Bytes) : Bytes := payload ++ d

/-- `NoopFramer::extract` -/
def noopExtract (maxSize : Nat) (buf : Bytes) : Extract :=
  if buf.isEmpty then .none
  else .frame 0 (if buf.length < maxSize then buf.length else maxSize) 0

/-! ### the `Framed` read state machine -/

/-- what one call of the inner reader's `append` produced -/
inductive Frag where
  | data (bs : Bytes)   -- `Ok(n)` with these `n` bytes appended (`n = 0` is an end-of-file read)
  | ioerr               -- `Err(e)`
  deriving Repr, DecidableEq

/-- what one `poll_next` that returned `Ready` produced -/
inductive Out where
  | item (payload : Bytes)   -- `Some(Ok(decoded))`, decoder = identity on the payload bytes
  | err                      -- `Some(Err(_))`
  | done                     -- `None`
  | panic
  deriving Repr, DecidableEq

structure RState where
  buf : Bytes
  eof : Bool
  deriving Repr, DecidableEq

def RState.init : RState := ⟨[], false⟩

/-- One `poll_next` driven to `Ready`: returns the item, the new state and the reads not yet
performed. When the script of reads is exhausted the inner reader reports end of file. -/
def pollNext (ext : Bytes → Extract) : RState → List Frag → Out × RState × List Frag
  | st, frags =>
    match ext st.buf with
    | .panic => (.panic, st, frags)
    | .err => (.err, st, frags)
    | .frame p l s =>
      -- `frame.slice(buf)` indexes `p .. p+l`; `buf.advance(p+l+s)` asserts it stays in the buffer
      if st.buf.length < p + l + s then (.panic, st, frags)
      else (.item ((st.buf.drop p).take l), { st with buf := st.buf.drop (p + l + s) }, frags)
    | .none =>
      match frags with
      | [] =>
        -- reader at end of file: first time sets `eof` and loops (extract fails again, reads 0 again)
        (.done, { st with eof := true }, [])
      | .ioerr :: rest => (.err, st, rest)
      | .data bs :: rest =>
        if bs.isEmpty then
          if st.eof then (.done, st, rest)
          else pollNext ext { st with eof := true } rest
        else pollNext ext { st with buf := st.buf ++ bs } rest

/-- Poll the stream `fuel` times or until it ends / fails; the list of everything it yielded. -/
def runAll (ext : Bytes → Extract) : Nat → RState → List Frag → List Out
  | 0, _, _ => []
  | fuel + 1, st, frags =>
    match pollNext ext st frags with
    | (.item b, st', frags') => .item b :: runAll ext fuel st' frags'
    | (o, _, _) => [o]

/-- number of polls after which every run has ended: every byte can yield at most one frame -/
def fuelFor (st : RState) (frags : List Frag) : Nat :=
  st.buf.length + (frags.map fun | .data bs => bs.length | .ioerr => 0).sum + 1

/-- Sink side: bytes handed to the inner writer for a list of items (`start_send` per item). -/
def encodeAll (enc : Bytes → Bytes) (items : List Bytes) : Bytes :=
  (items.map enc).flatten

end Compio.Frame
