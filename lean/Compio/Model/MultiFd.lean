/-
Operations that wait on SEVERAL descriptors (C01, strengthening round 4 / session 3).

compio-driver/src/sys/driver/poll/mod.rs
  `Driver::push`    `Decision::Wait(args)`: `for arg in args { self.submit(key.clone(), arg) }` — one key clone per
                    `WaitArg`, appended to the interest queue of that descriptor
  `Driver::cancel`  `Some(OpType::Fd(fds)) => for fd in fds { let entry = self.cancel_one(key.clone(), fd); … }` —
                    `cancel_one` → `remove_one` → `FdQueue::remove` (retain `!= key` on both queues); the FIRST entry
                    goes to the completed channel, the others are dropped
  `Drop`            the registry (queues with their keys) and the channel die with the driver
compio-driver/src/sys/op/fs/poll.rs  `Splice`: `wait_for_many([readable(fd_in), writable(fd_out)])`.
On io_uring the same operation is ONE SQE (`key.into_raw()` leaked to the kernel), cancelled by an `AsyncCancel`.

The shape of the cancel loop is read from the source (`Compio.Gen.PollCancel`): whether it can leave before the last
descriptor is the parameter `brk` of `cancelFds`.  Core Lean only.
-/
import Compio.Gen.PollCancel
import Compio.Model.PollQueues
import Compio.Model.Common

namespace Compio.MultiFd

open Compio.PollQueues

inductive Drv where
  | iour
  | poll
  deriving DecidableEq, Repr

/-! ### registry level -/

/-- `push`: one clone of the key per `WaitArg`, `push_back_interest` on that descriptor's queue -/
def pushFds (reg : Reg) (key : Nat) : List (Nat × Dir) → Reg
  | [] => reg
  | (fd, d) :: rest => pushFds (upd reg fd ((reg fd).pushBack d key)) key rest

/-- `remove_one(&key, fd)`: `queue.remove(key)` (an empty queue = no registry entry, nothing happens) -/
def removeOne (reg : Reg) (key fd : Nat) : Reg := upd reg fd ((reg fd).remove key)

/-- the loop of `Driver::cancel` over the descriptors of the operation. `cancel_one` yields an entry whenever `renew`
succeeds (assumed), so a loop that leaves once an entry was produced (`brk`) stops after the first descriptor. -/
def cancelFds (brk : Bool) (reg : Reg) (key : Nat) : List Nat → Reg
  | [] => reg
  | fd :: rest => if brk then removeOne reg key fd else cancelFds brk (removeOne reg key fd) key rest

/-- key references released by that loop (what the `retain`s drop) -/
def cancelDrops (brk : Bool) (reg : Reg) (key : Nat) : List Nat → Nat
  | [] => 0
  | fd :: rest => (reg fd).occ key + (if brk then 0 else cancelDrops brk (removeOne reg key fd) key rest)

/-- descriptors the loop visits -/
def cancelVisits (brk : Bool) (fds : List Nat) : Nat := if brk then min 1 fds.length else fds.length

/-- key references held by the registry for `key` on the descriptors `fds` (each descriptor once) -/
def regRefs (reg : Reg) (key : Nat) : List Nat → Nat
  | [] => 0
  | fd :: rest => (reg fd).occ key + regRefs (removeOne reg key fd) key rest

/-! ### operations -/

structure MOp where
  /-- `WaitArg`s (polling) / the two ends (io_uring) -/
  fds : List (Nat × Dir)
  rc : Nat
  user : Nat
  /-- io_uring: user_data leaked to the kernel -/
  inFl : Bool
  /-- io_uring: an `AsyncCancel` was issued -/
  kcancel : Bool
  /-- cancelled entries waiting in the completed channel (each owns a key) -/
  chan : Nat
  cancelled : Bool
  /-- errno of the result (`ECANCELED` is the only one these scripts produce) -/
  result : Option Nat
  freed : Nat
  returned : Nat
  uaf : Bool
  deriving DecidableEq, Repr

namespace MOp

def dropRefs (o : MOp) (n : Nat) : MOp :=
  { o with rc := o.rc - n,
           freed := if 0 < o.rc ∧ o.rc ≤ n then o.freed + 1 else o.freed,
           uaf := o.uaf || decide (o.rc < n) }

def takeResult (o : MOp) : MOp := { o with rc := 0, user := 0, returned := o.returned + 1 }

def fdList (o : MOp) : List Nat := o.fds.map (·.1)

end MOp

structure State where
  drv : Drv
  ops : List MOp
  reg : Reg
  alive : Bool

def init (d : Drv) : State := ⟨d, [], Reg.empty, true⟩

def modAt {α : Type} (f : α → α) : List α → Nat → List α
  | [], _ => []
  | x :: xs, 0 => f x :: xs
  | x :: xs, n + 1 => x :: modAt f xs n

inductive Event where
  /-- `Proactor::push(op)` of an operation waiting on `fds`, not ready -/
  | push (fds : List (Nat × Dir))
  /-- `Proactor::cancel(key)` -/
  | cancel (id : Nat)
  /-- `drop(key)` -/
  | drop (id : Nat)
  /-- `Proactor::pop(key)` -/
  | pop (id : Nat)
  /-- `Proactor::poll`: completed channel drained / cancel CQEs reaped -/
  | poll
  /-- `drop(proactor)` -/
  | pdrop
  deriving Repr

/-- `Driver::cancel(key)` -/
def driverCancel (brk : Bool) (s : State) (id : Nat) (o : MOp) : State :=
  match s.drv with
  | .iour => { s with ops := modAt (fun o => { o with kcancel := true }) s.ops id }
  | .poll =>
    if o.fds.isEmpty then s else
    { s with reg := cancelFds brk s.reg id o.fdList,
             ops := modAt (fun o =>
               -- per visited descriptor: `key.clone()`, the `retain`s drop the queue's references, the entry keeps the
               -- clone; the first entry is sent, the others are dropped at once
               { ({ o with rc := o.rc + cancelVisits brk o.fdList }.dropRefs
                   (cancelDrops brk s.reg id o.fdList + (cancelVisits brk o.fdList - 1))) with chan := o.chan + 1 })
               s.ops id }

def step (brk : Bool) (s : State) : Event → Option State
  | .push fds =>
    if s.alive ∧ ¬ fds.isEmpty then
      let id := s.ops.length
      match s.drv with
      | .iour =>
        some { s with ops := s.ops ++ [⟨fds, 2, 1, true, false, 0, false, none, 0, 0, false⟩] }
      | .poll =>
        some { s with ops := s.ops ++ [⟨fds, 1 + fds.length, 1, false, false, 0, false, none, 0, 0, false⟩],
                      reg := pushFds s.reg id fds }
    else none
  | .cancel id =>
    match s.ops[id]? with
    | some o =>
      if s.alive ∧ 0 < o.user then
        if o.cancelled then
          some { s with ops := modAt (fun o => { o with user := o.user - 1 }.dropRefs 1) s.ops id }
        else if o.rc = 1 ∧ o.result.isSome then
          some { s with ops := modAt (fun o => { o with cancelled := true }.takeResult) s.ops id }
        else
          let s1 := { s with ops := modAt (fun o => { o with cancelled := true }) s.ops id }
          let s2 := driverCancel brk s1 id o
          some { s2 with ops := modAt (fun o => { o with user := o.user - 1 }.dropRefs 1) s2.ops id }
      else none
    | none => none
  | .drop id =>
    match s.ops[id]? with
    | some o =>
      if 0 < o.user then some { s with ops := modAt (fun o => { o with user := o.user - 1 }.dropRefs 1) s.ops id }
      else none
    | none => none
  | .pop id =>
    match s.ops[id]? with
    | some o =>
      if s.alive ∧ 0 < o.user then
        if o.result.isSome ∧ o.rc = 1 then some { s with ops := modAt MOp.takeResult s.ops id }
        else if o.result.isSome then none   -- `expect("Key not unique")`: outside these scripts
        else some s
      else none
    | none => none
  | .poll =>
    if s.alive then
      some { s with ops := s.ops.map fun o =>
        match s.drv with
        | .poll => if o.chan = 0 then o else { o with chan := 0, result := some 125 }.dropRefs o.chan
        | .iour =>
          if o.inFl ∧ o.kcancel then { o with inFl := false, result := some 125 }.dropRefs 1 else o }
    else none
  | .pdrop =>
    if s.alive then
      some { s with alive := false, reg := Reg.empty,
                    ops := (List.range s.ops.length).zipWith (fun id o =>
                      match s.drv with
                      | .poll => { o with chan := 0 }.dropRefs (regRefs s.reg id o.fdList + o.chan)
                      | .iour => { o with inFl := false }.dropRefs (if o.inFl then 1 else 0)) s.ops }
    else none

def run (brk : Bool) : State → List Event → Option State
  | s, [] => some s
  | s, e :: es =>
    match step brk s e with
    | some s' => run brk s' es
    | none => none

/-! ### script layer (lines `mfd <drv>`, `spl <pair>`, `mcancel i`, `mdrop i`, `mpop i`, `mpoll`, `mready <pair>`,
`mpdrop`): pair `p` = descriptors `2p` (read end of an EMPTY pipe, input of the splice) and `2p+1` (write end of a FULL
pipe, output of the splice) -/

structure Sim where
  st : State
  dead : Bool
  /-- pairs the harness made ready (`mready`): no further splice is started on them -/
  hot : List Nat

def Sim.init (d : Drv) : Sim := ⟨MultiFd.init d, false, []⟩

def ev (sim : Sim) (e : Event) : Sim :=
  if sim.dead then sim else
  match step Gen.pollCancelLoopLeavesEarly sim.st e with
  | some s => { sim with st := s }
  | none => { sim with dead := true }

def statusOf (o : MOp) : String :=
  if o.uaf then "U"
  else if o.freed + o.returned ≥ 2 then "D"
  else if o.freed = 1 then "F"
  else if o.returned = 1 then "R"
  else "L"

def statusVec (s : State) : String :=
  if s.ops.isEmpty then "-" else String.join (s.ops.map statusOf)

def line (sim : Sim) (out : String) : Sim × String :=
  if sim.dead then (sim, s!"reject | {statusVec sim.st}") else (sim, s!"{out} | {statusVec sim.st}")

def withKey (sim : Sim) (id : String) (needAlive : Bool) (f : Nat → MOp → Sim × String) : Sim × String :=
  match id.toNat? with
  | some id =>
    match sim.st.ops[id]? with
    | some o =>
      if needAlive ∧ !sim.st.alive then line sim "noproactor"
      else if o.user = 0 then line sim "nokey"
      else f id o
    | none => (sim, "bad-op")
  | none => (sim, "bad-op")

/-- is an operation still waiting on pair `p` (registered in a queue / in the kernel and not cancelled)? Readiness of
its output end is then outside these scripts (io_uring: also while an `AsyncCancel` has not been reaped yet — until
then the kernel may complete the splice). -/
def parkedOn (s : State) (p : Nat) : Bool :=
  match s.drv with
  | .poll => !(s.reg (2 * p)).isEmpty || !(s.reg (2 * p + 1)).isEmpty
  | .iour => s.ops.any fun o => o.inFl && o.fdList.contains (2 * p + 1)

def exec (sim : Sim) (w : List String) : Sim × String :=
  match w with
  | ["spl", p] =>
    match p.toNat? with
    | some p =>
      if !sim.st.alive then line sim "noproactor"
      else if sim.hot.contains p then line sim "skip"
      else line (ev sim (.push [(2 * p, .rd), (2 * p + 1, .wr)])) "pending"
    | none => (sim, "bad-op")
  | ["mcancel", id] => withKey sim id true fun id o =>
      let out := if !o.cancelled ∧ o.rc = 1 ∧ o.result.isSome then "some:err:125" else "none"
      line (ev sim (.cancel id)) out
  | ["mdrop", id] => withKey sim id false fun id _ => line (ev sim (.drop id)) "ok"
  | ["mpop", id] => withKey sim id true fun id o =>
      let out := match o.result with
        | some e => if o.rc = 1 then s!"err:{e}" else "panic"
        | none => "pending"
      line (ev sim (.pop id)) out
  | ["mpoll"] => if !sim.st.alive then line sim "noproactor" else line (ev sim .poll) "ok"
  | ["mready", p] =>
    match p.toNat? with
    | some p =>
      if sim.st.alive ∧ parkedOn sim.st p then line { sim with dead := true } "ok"
      else line { sim with hot := p :: sim.hot } "ok"
    | none => (sim, "bad-op")
  | ["mpdrop"] => if !sim.st.alive then line sim "noproactor" else line (ev sim .pdrop) "ok"
  | ["end"] => line sim "ok"
  | _ => (sim, "bad-op")

end Compio.MultiFd
