/-
C11 — buffers as the I/O helpers of compio-io see them.

* `VBuf`   : a `Vec<u8>`-like destination (initialised content + capacity); fixed arrays are the
             special case `data.length = cap`.
* `overlay`: what "the reader writes k bytes at the start of the view `buf.slice(pos..)` and calls
             `advance_to(k)`" does to the content (compio-buf `Slice::as_uninit`/`set_len`).
* `MBuf`/`VS`: members of a vectored destination (`Vec<Vec<u8>>`) and the `VectoredSlice` view
             (`slice_mut`), `default_set_len`, `VectoredBufIter` filling.
* `Buffer` : compio-io/src/buffer.rs — `Slice<Vec<u8>>` with a progress cursor (`begin`).

Core Lean only.
-/
import Compio.Model.Common

namespace Compio.Io

/-- `io::ErrorKind`, as far as the helpers distinguish kinds; `other k` = an error produced by the
inner stream's script (kind number `k`). -/
inductive IoErr where
  | interrupted
  | unexpectedEof
  | writeZero
  | other (k : Nat)
  deriving Repr, DecidableEq

/-- Result of a call. `panic` = a Rust panic (assert, slice index, overflow check, capacity overflow);
`ub` = the code would expose bytes nobody wrote (`set_len` beyond the written extent);
`fuel` = the model's loop bound ran out (proved unreachable for the bounds the driver uses). -/
inductive Res (α : Type) where
  | ok (a : α)
  | err (e : IoErr)
  | panic
  | ub
  | fuel
  deriving Repr, DecidableEq

/-- replace `src.length` bytes of `dst` from `pos` on; runs past the end when needed -/
def overlay (dst : Bytes) (pos : Nat) (src : Bytes) : Bytes :=
  dst.take pos ++ src ++ dst.drop (pos + src.length)

/-- a `Vec<u8>` used as destination: `data` = initialised bytes (`len`), `cap` = capacity -/
structure VBuf where
  data : Bytes
  cap : Nat
  deriving Repr, DecidableEq

/-- the inner reader wrote `bs` at the start of `buf.slice(pos..)` and called `advance_to` -/
def VBuf.place (b : VBuf) (pos : Nat) (bs : Bytes) : VBuf :=
  { b with data := overlay b.data pos bs }

/-- `RawVec::grow_amortized` for `u8` (min non-zero capacity 8) -/
def growAmortized (len cap add : Nat) : Nat := max (max (cap * 2) (len + add)) 8

/-- `Vec::reserve(add)` -/
def VBuf.reserve (b : VBuf) (add : Nat) : VBuf :=
  if add ≤ b.cap - b.data.length then b else { b with cap := growAmortized b.data.length b.cap add }

/-! ## vectored destinations -/

/-- member of a vectored destination. `mem` = the bytes of the allocation written so far (its
extent), `len` = the recorded length (`Vec::len`); the visible content is `mem.take len`. -/
structure MBuf where
  mem : Bytes
  len : Nat
  cap : Nat
  deriving Repr, DecidableEq

def MBuf.data (b : MBuf) : Bytes := b.mem.take b.len

def MBuf.ofData (d : Bytes) (cap : Nat) : MBuf := ⟨d, d.length, cap⟩

/-- `Vec::set_len` (unconditional). Growing beyond what was ever written exposes garbage: `ub`. -/
def MBuf.setLen (b : MBuf) (n : Nat) : Res MBuf :=
  if n ≤ b.mem.length then .ok { b with len := n } else .ub

/-- compio-buf `default_set_len`: distribute `len` over the members by capacity, stop at 0 -/
def setLenAll : List MBuf → Nat → Res (List MBuf)
  | [], _ => .ok []
  | b :: rest, len =>
    if len = 0 then .ok (b :: rest)
    else
      let sub := min b.cap len
      match b.setLen sub with
      | .ok b' =>
        match setLenAll rest (len - sub) with
        | .ok r => .ok (b' :: r)
        | .err e => .err e
        | .panic => .panic
        | .ub => .ub
        | .fuel => .fuel
      | .err e => .err e
      | .panic => .panic
      | .ub => .ub
      | .fuel => .fuel

/-- `IoVectoredBufMut::slice_mut(begin)`: number of members skipped and offset into the next one,
counting capacities -/
def sliceMutPos : List MBuf → Nat → Nat × Nat
  | [], off => (0, off)
  | b :: rest, off =>
    if b.cap > off then (0, off)
    else ((sliceMutPos rest (off - b.cap)).1 + 1, (sliceMutPos rest (off - b.cap)).2)

/-- `VectoredSlice<Vec<Vec<u8>>>` (`begin = idx = offset = 0`: the plain vectored buffer) -/
structure VS where
  bufs : List MBuf
  begin : Nat
  idx : Nat
  offset : Nat
  deriving Repr, DecidableEq

def VS.plain (bufs : List MBuf) : VS := ⟨bufs, 0, 0, 0⟩

def VS.sliceMut (bufs : List MBuf) (begin : Nat) : VS :=
  ⟨bufs, begin, (sliceMutPos bufs begin).1, (sliceMutPos bufs begin).2⟩

/-- `VectoredSlice::iter_slice` evaluates `&buf[offset..]` on the first member it yields:
panics when `offset` exceeds that member's recorded length -/
def VS.initOk (vs : VS) : Bool :=
  match vs.bufs[vs.idx]? with
  | none => true
  | some m => vs.offset ≤ m.len

/-- lengths of the initialised views (`iter_slice`), valid when `initOk` -/
def initLens : List MBuf → Nat → List Nat
  | [], _ => []
  | b :: rest, o => (b.len - o) :: initLens rest 0

def VS.initLens (vs : VS) : List Nat := Io.initLens (vs.bufs.drop vs.idx) vs.offset

/-- capacities of the views (`iter_uninit_slice`) -/
def viewCaps : List MBuf → Nat → List Nat
  | [], _ => []
  | b :: rest, o => (b.cap - o) :: viewCaps rest 0

def VS.viewCaps (vs : VS) : List Nat := Io.viewCaps (vs.bufs.drop vs.idx) vs.offset

def sumNat : List Nat → Nat
  | [] => 0
  | a :: r => a + sumNat r

/-- the loop `for buf in iter_uninit_slice() { n = copy(this, buf); this = &this[n..]; if this.is_empty() { break } }` -/
def scatterGo : List MBuf → Nat → Bytes → List MBuf
  | [], _, _ => []
  | b :: rest, o, src =>
    let n := min src.length (b.cap - o)
    let b' := { b with mem := overlay b.mem o (src.take n) }
    if (src.drop n).isEmpty then b' :: rest else b' :: scatterGo rest 0 (src.drop n)

/-- `advance_vec_to(total)` on a `VectoredSlice`: `total_len()` walks `iter_slice` (panic check),
`set_len(begin + total)` only when `total` exceeds the current total length -/
def VS.advanceVecTo (vs : VS) (total : Nat) : Res VS :=
  if !vs.initOk then .panic
  else if total > sumNat vs.initLens then
    match setLenAll vs.bufs (vs.begin + total) with
    | .ok bufs => .ok { vs with bufs := bufs }
    | .err e => .err e
    | .panic => .panic
    | .ub => .ub
    | .fuel => .fuel
  else .ok vs

/-- in-memory vectored read (`&[u8]::read_vectored`, `[u8]::read_vectored_at`): copies `src` across the
views, records the length with `advance_vec_to`. Returns the number of bytes and the buffer. -/
def memReadVectored (src : Bytes) (vs : VS) : Res Nat × VS :=
  let total := min src.length (sumNat vs.viewCaps)
  let bufs1 := vs.bufs.take vs.idx ++ scatterGo (vs.bufs.drop vs.idx) vs.offset src
  let vs1 := { vs with bufs := bufs1 }
  match vs1.advanceVecTo total with
  | .ok vs2 => (.ok total, vs2)
  | .err e => (.err e, vs1)
  | .panic => (.panic, vs1)
  | .ub => (.ub, vs1)
  | .fuel => (.fuel, vs1)

/-- index (relative to `idx`) and capacity of the first view with non-zero capacity: the walk of
`loop_read_vectored!` with `VectoredBufIter::next` -/
def firstRoom : List Nat → Nat → Option (Nat × Nat)
  | [], _ => none
  | c :: rest, i => if c > 0 then some (i, c) else firstRoom rest (i + 1)

def modifyNth {α : Type} (f : α → α) : List α → Nat → List α
  | [], _ => []
  | a :: r, 0 => f a :: r
  | a :: r, n + 1 => a :: modifyNth f r n

/-- A reader wrote `bs` at the start of the `VectoredBufIter` positioned on view `index` and called
`advance_to(bs.length)`: `buf_len()` goes through `iter_slice().nth(index)` (panic check on the first
view), `set_len(k)` is `VectoredSlice::set_len(total_filled + k)` with `total_filled = 0`. -/
def VS.fillView (vs : VS) (index : Nat) (bs : Bytes) : Res VS :=
  if !vs.initOk then .panic
  else
    let o := if index = 0 then vs.offset else 0
    let cur := (vs.initLens[index]?).getD 0
    let bufs1 := modifyNth (fun b => { b with mem := overlay b.mem o bs }) vs.bufs (vs.idx + index)
    if bs.length > cur then
      match setLenAll bufs1 (vs.begin + bs.length) with
      | .ok bufs => .ok { vs with bufs := bufs }
      | .err e => .err e
      | .panic => .panic
      | .ub => .ub
      | .fuel => .fuel
    else .ok { vs with bufs := bufs1 }

/-! ## `Buffer` (compio-io/src/buffer.rs) -/

/-- `Buffer(Some(Slice<Vec<u8>>))`: the vector (`data`, `cap`) and the slice's `begin` -/
structure Buffer where
  data : Bytes
  cap : Nat
  begin : Nat
  deriving Repr, DecidableEq

def Buffer.withCapacity (cap : Nat) : Buffer := ⟨[], cap, 0⟩

/-- `buffer()`: initialised and not yet consumed -/
def Buffer.pending (b : Buffer) : Bytes := b.data.drop b.begin

/-- `all_done()`: the sliced view is empty -/
def Buffer.allDone (b : Buffer) : Bool := decide (b.data.length ≤ b.begin)

/-- `need_fill()`: the vector is empty -/
def Buffer.needFill (b : Buffer) : Bool := b.data.isEmpty

/-- `need_flush()`: `len > cap * 2 / 3` -/
def Buffer.needFlush (b : Buffer) : Bool := decide (b.data.length > b.cap * 2 / 3)

/-- `reset()` -/
def Buffer.reset (b : Buffer) : Buffer := { b with data := [], begin := 0 }

/-- `fill_buf` up to the inner call: `if all_done { reset }` -/
def Buffer.prep (b : Buffer) : Buffer := if b.allDone then b.reset else b

/-- `advance(amount)`: `assert!(begin + amount <= capacity)`, then `slice(pos..)` asserts
`pos <= len`. `none` = panic. -/
def Buffer.advance (b : Buffer) (amount : Nat) : Option Buffer :=
  if b.begin + amount ≤ b.cap ∧ b.begin + amount ≤ b.data.length then
    some { b with begin := b.begin + amount }
  else none

/-- the closure of `BufWriter::write`: copy into the spare capacity after `len` -/
def Buffer.push (b : Buffer) (src : Bytes) : Nat × Buffer :=
  let n := min src.length (b.cap - b.data.length)
  (n, { b with data := b.data ++ src.take n })

/-- `compact_to(capacity, max_capacity)` -/
def Buffer.compactTo (b : Buffer) (capacity maxCapacity : Nat) : Buffer :=
  if 0 < b.begin ∧ b.begin < b.data.length then
    { b with data := b.data.drop b.begin, begin := 0 }
  else if b.data.length ≤ b.begin then
    { data := [], begin := 0,
      cap := if b.cap > maxCapacity then (if b.cap > capacity then capacity else b.cap) else b.cap }
  else { b with begin := 0 }

end Compio.Io
