/-
C09, session 3: how `TimerRuntime::insert` allocates keys, and the shape of the `block_on` loop.
Core Lean only. Both parts INTERPRET lists regenerated from the Rust source by the extractor
(`Gen/TimerInsert.lean`: the statements of `fn insert` and where the key's generation comes from;
`Gen/BlockOnLoop.lean`: the statements of the loop in `Runtime::block_on_at`).
-/
import Compio.Model.Timer
import Compio.Gen.TimerInsert
import Compio.Gen.BlockOnLoop

namespace Compio.Timer.Alloc
open Compio.Timer

/-! ## `TimerRuntime::insert`, statement by statement -/

/-- local state of one call of `insert` -/
structure Frame where
  w : Wheel
  key : Option Key          -- the local `key`, once bound
  res : Option InsertRes    -- `some` = the call has returned (or panicked)
deriving Repr

open Compio.Gen.TimerInsert in
/-- one statement. `now` is what `Instant::now()` returns in the guard. -/
def stmt (now d : Nat) (f : Frame) : Stmt → Frame
  | .guardDue => if d ≤ now then { f with res := some .none } else f
  | .mkKey =>
    let g := match keyGeneration with
      | .counter => f.w.gen
      | .wheelLen => f.w.entries.length
    { f with key := some ⟨d, g⟩ }
  | .wheelInsert =>
    match f.key with
    | some k => { f with w := { f.w with entries := insertEntry k none f.w.entries } }
    | none => f
  | .bumpChecked =>
    -- `checked_add(1).expect("too many timers created")`
    if f.w.gen ≥ u64Max then { f with res := some .panic }
    else { f with w := { f.w with gen := f.w.gen + 1 } }
  | .retKey =>
    match f.key with
    | some k => { f with res := some (.some k) }
    | none => f
  | .other => f

open Compio.Gen.TimerInsert in
def execStmts (now d : Nat) : List Stmt → Frame → Frame
  | [], f => f
  | s :: rest, f =>
    match f.res with
    | some _ => f
    | none => execStmts now d rest (stmt now d f s)

/-- `TimerRuntime::insert` as the interpretation of the extracted statement list
(`none`: the list ends without a `return`, which is not a Rust function of this type) -/
def insertG (w : Wheel) (now d : Nat) : Option (Wheel × InsertRes) :=
  let f := execStmts now d Compio.Gen.TimerInsert.body ⟨w, none, none⟩
  f.res.map fun r => (f.w, r)

/-! ## live timers: the keys held by timer futures that are neither dropped nor expired -/

inductive AOp where
  | insert (now d : Nat)     -- `Sleep::new` / `TimerFuture::new`: a new future holding the key
  | cancel (i : Nat)         -- drop of the `i`-th live future: `cancel(&key)`
  | wake (now : Nat)         -- `TimerRuntime::wake` with the clock at `now`
deriving Repr

structure ASt where
  w : Wheel
  live : List Key
deriving Repr

def ASt.init : ASt := ⟨⟨Compio.Gen.TimerInsert.counterInit, []⟩, []⟩

/-- `none` = `insert` panicked (the generation counter overflowed) -/
def astep (s : ASt) : AOp → Option ASt
  | .insert now d =>
    match insertG s.w now d with
    | some (w', .some k) => some ⟨w', k :: s.live⟩
    | some (w', .none) => some ⟨w', s.live⟩
    | _ => none
  | .cancel i =>
    match s.live[i]? with
    | some k => some ⟨cancel s.w k, s.live.eraseIdx i⟩
    | none => some s
  | .wake now => some ⟨(wake s.w now).1, s.live.filter fun k => ¬ k.lt (splitKey now)⟩

def arun (s : ASt) : List AOp → Option ASt
  | [] => some s
  | op :: rest =>
    match astep s op with
    | some s' => arun s' rest
    | none => none

/-! ## one iteration of the loop in `Runtime::block_on_at` (main future pending) -/

open Compio.Gen.BlockOnLoop in
/-- does the rest of the iteration reach `poll_with`? `remaining` is what `self.run()` returned. -/
def reachesPollWith (remaining : Bool) : List Stmt → Bool
  | [] => false
  | .pollMain :: rest => reachesPollWith remaining rest     -- `Pending`: falls through
  | .runTasks :: rest => reachesPollWith remaining rest
  | .pollIdle :: _ => true
  | .pollZero :: _ => true
  | .ifRemaining t e :: rest =>
    match (if remaining then t else e) with
    | .pollZero => true
    | .pollIdle => true
    | .continueLoop => false                                   -- next iteration, nothing polled
    | .nothing => reachesPollWith remaining rest

/-- One iteration at the wheel: the tasks have run (whatever they did is in `w`), then — if the
iteration reaches it — `poll_with` with the driver returning in way `o` at clock `now`.
`none` = panic of `poll_with`. -/
def blockOnIter (w : Wheel) (now : Nat) (remaining : Bool) (o : PollOutcome) : Option (Wheel × List Entry) :=
  if reachesPollWith remaining Compio.Gen.BlockOnLoop.loopBody then pollWith w now o
  else some (w, [])

end Compio.Timer.Alloc
