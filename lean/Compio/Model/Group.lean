/-
Model of `compio-actor/src/process_group/mod.rs` + `strategy.rs` (C19, routing half).

`ProcessGroup::send` holds the group mutex for its whole body, so one invocation is a pure function of
  * the member vector (`Vec<Member>`, here a `List α` of member ids),
  * the cursor (`usize`, wrapping),
  * what `member.broker.send(message)` answers for each member *at the moment it is visited*
    (`Status`: `Ok(())`, `Err(Full)`, `Err(Closed)`).
`scan_wrap` (Lemmas/Group.lean) / `send_characterised` (Props/C19.lean) justify the last point: the members
asked are a prefix of the cyclic scan order, so each member is asked at most once per `send`.

Core Lean only (the driver `c19d` links this file).
-/
namespace Compio.Group

/-- answer of `Broker::send` for one member: `Ok(())`, `Err(Full(_))`, `Err(Closed(_))` -/
inductive Status where
  | ok | full | closed
  deriving DecidableEq, Repr, Inhabited

/-- result of `ProcessGroup::send`: `Ok(())` (with the member that accepted, a ghost of the model),
`Err(Full(msg))`, `Err(Closed(msg))`; `panic` = `state.members[index]` out of range -/
inductive Outcome (α : Type) where
  | delivered (m : α)
  | full
  | closed
  | panic
  deriving DecidableEq, Repr

/-- `usize::MAX + 1` on the 64-bit targets the harness runs on -/
def usizeMod : Nat := 2 ^ 64

/-- `Strategy::RoundRobin.select(&mut cursor, members)`: `(selected, cursor')`;
`selected = *cursor % members`, `*cursor = cursor.wrapping_add(1)` -/
def select (cursor n : Nat) : Nat × Nat := (cursor % n, (cursor + 1) % usizeMod)

/-- what the loop returns once it stops trying -/
def giveUp {α : Type} (sawFull : Bool) : Outcome α := if sawFull then .full else .closed

/-- The `while attempted < attempts && !state.members.is_empty()` loop.
`fuel = attempts - attempted` (the loop's own counter, not an artificial bound). -/
def scan {α : Type} (status : α → Status) :
    (fuel : Nat) → (members : List α) → (index : Nat) → (sawFull : Bool) → Outcome α × List α
  | 0, ms, _, sf => (giveUp sf, ms)
  | fuel + 1, ms, idx, sf =>
    if ms.isEmpty then (giveUp sf, ms) else
    match ms[idx]? with
    | none => (.panic, ms)                       -- `state.members[index]` would panic
    | some m =>
      match status m with
      | .ok => (.delivered m, ms)
      | .full => scan status fuel ms ((idx + 1) % ms.length) true
      | .closed =>
        let ms' := ms.eraseIdx idx               -- `state.members.remove(index)`
        scan status fuel ms' (if ms'.isEmpty then idx else idx % ms'.length) sf

/-- `ProcessGroup::send`: `(outcome, members', cursor')` -/
def send {α : Type} (status : α → Status) (cursor : Nat) (members : List α) :
    Outcome α × List α × Nat :=
  if members.isEmpty then (.closed, members, cursor)     -- `None => return Err(Closed(message))`
  else
    let (idx, c') := select cursor members.length
    let (o, ms) := scan status members.length members idx false
    (o, ms, c')

/-! ### the specification the theorems compare with -/

/-- members in the order `send` asks them: starting at `cursor % len`, cyclically -/
def scanOrder {α : Type} (cursor : Nat) (ms : List α) : List α :=
  ms.drop (cursor % ms.length) ++ ms.take (cursor % ms.length)

def isOk {α : Type} (status : α → Status) (m : α) : Bool := status m == .ok
def isFull {α : Type} (status : α → Status) (m : α) : Bool := status m == .full
def isClosed {α : Type} (status : α → Status) (m : α) : Bool := status m == .closed

/-- the members asked before one accepts (all of them when nobody accepts) -/
def met {α : Type} (status : α → Status) (l : List α) : List α := l.takeWhile (fun m => !isOk status m)

/-- a segment after the scan went through it: closed members that were met are gone -/
def evictSeg {α : Type} (status : α → Status) (seg : List α) : List α :=
  (met status seg).filter (fun m => !isClosed status m) ++ seg.dropWhile (fun m => !isOk status m)

/-- reference outcome -/
def specOutcome {α : Type} (status : α → Status) (order : List α) : Outcome α :=
  match order.find? (isOk status) with
  | some m => .delivered m
  | none => if order.any (isFull status) then .full else .closed

/-- reference membership after the call -/
def specMembers {α : Type} (status : α → Status) (cursor : Nat) (ms : List α) : List α :=
  let k := cursor % ms.length
  let back := ms.drop k      -- asked first
  let front := ms.take k     -- asked after wrapping around
  (if back.all (fun m => !isOk status m) then evictSeg status front else front) ++ evictSeg status back

/-! ### join / leave / len (the rest of the group state) -/

structure GState where
  nextId : Nat := 0
  cursor : Nat := 0
  members : List Nat := []
  deriving Repr

/-- `ProcessGroup::join`: `(state', membership id)` -/
def GState.join (g : GState) : GState × Nat :=
  ({ g with nextId := (g.nextId + 1) % usizeMod, members := g.members ++ [g.nextId] }, g.nextId)

/-- `impl Drop for Membership`: remove the first member with this id, if any -/
def GState.leave (g : GState) (id : Nat) : GState :=
  match g.members.findIdx? (· == id) with
  | some i => { g with members := g.members.eraseIdx i }
  | none => g

def GState.len (g : GState) : Nat := g.members.length

/-- `ProcessGroup::send` on the group state -/
def GState.send (g : GState) (status : Nat → Status) : Outcome Nat × GState :=
  let (o, ms, c) := Group.send status g.cursor g.members
  (o, { g with members := ms, cursor := c })

end Compio.Group
