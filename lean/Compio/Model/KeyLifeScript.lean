/-
Script layer over `Compio.KeyLife`: the line protocol shared by the C01 and C05 harnesses
(harness/drv/src/bin/keylife/mod.rs executes the same lines on the real `Proactor`).

Every line is expanded into micro events of the LTS — the `Proactor` call itself plus the kernel's
reaction, which the harness *causes* (bytes written to a peer socket, connections made, a gate opened) and
this file therefore predicts deterministically — and pushed through `KeyLife.step`. The printed line is
read off the resulting `State` (return value of the call, and for every operation whether its storage is
live / freed / handed back), so a divergence between model and implementation shows up as a differing line.

Core Lean only.
-/
import Compio.Model.Common
import Compio.Model.KeyLife
import Compio.Gen.WithCancel
import Compio.Model.ExtStack

namespace Compio.KeyLife.Script

open Compio Compio.KeyLife Compio.PollQueues

/-- kinds of operation the harness submits -/
inductive HKind where
  | rd    -- `Recv` of one 4-byte chunk on a stream socket
  | acc   -- `AcceptMulti` on a listener
  | zc    -- `SendZc` of 5 bytes on a TCP socket
  | blk   -- `Asyncify` closure gated by a channel
  deriving DecidableEq, Repr

def HKind.kind : HKind → Kind
  | .rd => .single
  | .acc => .multi
  | .zc => .zc
  | .blk => .blocking

def HKind.dir : HKind → Dir
  | .zc => .wr
  | _ => .rd

structure Sim where
  st : State
  /-- per fd slot: chunks waiting in the socket / connections waiting in the backlog -/
  avail : List Nat
  hk : List HKind
  /-- a `step` was rejected: the script left the model's domain -/
  dead : Bool
  /-- CQEs the simulated kernel posted since the log was last cleared -/
  log : List (Nat × Bool × Res) := []

def Sim.init (d : Drv) (cap : Nat) : Sim := ⟨KeyLife.init d cap, [], [], false, []⟩

def getAvail (sim : Sim) (fd : Nat) : Nat := sim.avail.getD fd 0

def setAvail (sim : Sim) (fd n : Nat) : Sim :=
  let a := if sim.avail.length ≤ fd then sim.avail ++ List.replicate (fd + 1 - sim.avail.length) 0 else sim.avail
  { sim with avail := a.set fd n }

def ev (sim : Sim) (e : Event) : Sim :=
  if sim.dead then sim else
  match step Cfg.gen sim.st e with
  | some s =>
    match e with
    | .kPost id more r => { sim with st := s, log := sim.log ++ [(id, more, r)] }
    | _ => { sim with st := s }
  | none => { sim with dead := true }

def evs (sim : Sim) (es : List Event) : Sim := es.foldl ev sim

/-- result of a harness operation of kind `k` that succeeds -/
def okRes : HKind → Res
  | .rd => .ok 4
  | .acc => .ok 1
  | .zc => .ok 5
  | .blk => .ok 7

/-- io_uring kernel, data side: an in-flight op whose descriptor has something to deliver posts its CQE(s) -/
def kernelData (sim : Sim) : Sim :=
  (List.range sim.st.ops.length).foldl (fun sim id =>
    match sim.st.ops[id]?, sim.hk[id]? with
    | some o, some hk =>
      if o.kstat = .inflight then
        match hk with
        | .rd => if 0 < getAvail sim o.fd then setAvail (ev sim (.kPost id false (okRes .rd))) o.fd (getAvail sim o.fd - 1) else sim
        | .acc =>
          let n := getAvail sim o.fd
          setAvail (evs sim (List.replicate n (.kPost id true (okRes .acc)))) o.fd 0
        | .zc =>
          -- slot 7 is a unix stream pair: the kernel answers the zero-copy send with EOPNOTSUPP (95) and still posts
          -- the notification CQE
          evs sim [.kPost id true (if o.fd = 7 then .err 95 else okRes .zc), .kPost id false (.ok 0)]
        | .blk => sim
      else sim
    | _, _ => sim) sim

/-- io_uring kernel, cancel side: an `AsyncCancel` that finds its target in flight makes it post `-ECANCELED` -/
def kernelCancel (sim : Sim) : Sim :=
  (List.range sim.st.ops.length).foldl (fun sim id =>
    match sim.st.ops[id]? with
    | some o => if o.kstat = .inflight ∧ o.kcancel then ev sim (.kPost id false ECANCELED) else sim
    | none => sim) sim

/-- `io_uring_enter` and what the kernel does with the batch -/
def doSubmit (sim : Sim) : Sim := kernelCancel (kernelData (ev sim .submit))

/-- the `push_raw` loop: on a full SQ submit, drain the CQ, retry -/
def withRoom (sim : Sim) (e : Event) : Sim :=
  if sim.st.sqLen < sim.st.cap then ev sim e else ev (ev (doSubmit sim) .pollEntries) e

def anyChan (s : State) : Bool := s.ops.any fun o => !o.chan.isEmpty

/-- `Proactor::flush` on io_uring: `arm_notifier` (through `push_raw`), then submit; completions are not looked at
unless the notifier push overflowed the SQ -/
def iourFlush (sim : Sim) : Sim :=
  let sim := if sim.st.needNotifier then withRoom sim .pushNotifier else sim
  doSubmit sim

/-- one `Proactor::poll(Some(ZERO))` on io_uring -/
def iourPollOnce (sim : Sim) : Sim :=
  if anyChan sim.st then ev sim .pollBlocking
  else
    let sim := if sim.st.needNotifier then withRoom sim .pushNotifier else sim
    ev (doSubmit sim) .pollEntries

/-- readiness events of the polling driver: every descriptor whose read queue is armed and has data -/
def pollFdEvents (sim : Sim) (fuel : Nat) : Sim :=
  match fuel with
  | 0 => sim
  | fuel + 1 =>
    let fds := List.range sim.avail.length
    match fds.find? (fun fd => (sim.st.armed fd).r && decide (0 < getAvail sim fd)) with
    | none => sim
    | some fd =>
      let hk := match (sim.st.reg fd).rq.head? with
        | some id => (sim.hk[id]?).getD .rd
        | none => .rd
      pollFdEvents (setAvail (ev sim (.fdEvent fd true false (some (okRes hk)))) fd (getAvail sim fd - 1)) fuel

def pollPollOnce (sim : Sim) : Sim :=
  let sim := if anyChan sim.st then ev sim .pollBlocking else sim
  pollFdEvents sim 16

/-- `poll` line: the harness polls until two consecutive polls time out -/
def settle (sim : Sim) : Sim :=
  match sim.st.drv with
  | .iour => iourPollOnce (iourPollOnce (iourPollOnce sim))
  | .poll => pollPollOnce (pollPollOnce (pollPollOnce sim))

def showRes : Res → String
  | .ok n => s!"ok:{n}"
  | .err e => s!"err:{e}"

/-- storage status of every operation: `L`ive, `F`reed once, `R` handed back to the caller; anything else
is an anomaly (`U` use after release, `D` released twice) -/
def statusOf (o : Op) : String :=
  if o.uaf then "U"
  else if o.freed + o.returned ≥ 2 then "D"
  else if o.freed = 1 then "F"
  else if o.returned = 1 then "R"
  else "L"

def statusVec (s : State) : String :=
  if s.ops.isEmpty then "-" else String.join (s.ops.map statusOf)

def line (sim : Sim) (out : String) : Sim × String :=
  if sim.dead then (sim, s!"reject | {statusVec sim.st}") else (sim, s!"{out} | {statusVec sim.st}")

def parseKind : String → Option HKind
  | "rd" => some .rd
  | "acc" => some .acc
  | "zc" => some .zc
  | "blk" => some .blk
  | _ => none

def opOf (sim : Sim) (id : Nat) : Option Op := sim.st.ops[id]?

/-- does executing `pdrop` now make the real code touch released storage (finding F13)? The harness must
not run such a line in-process. -/
def pdropUnsafe (sim : Sim) : Bool :=
  let sim' := evs sim (.dropBegin :: List.replicate (dropProg Cfg.gen sim.st.drv).length .dropStep)
  sim'.st.ops.any (·.uaf)

/-- guards shared with the interpreter: a line that addresses a dropped proactor / a key the caller no
longer holds / a missing token or gate is a no-op with a fixed answer -/
def withKey (sim : Sim) (id : String) (needAlive : Bool) (f : Nat → Op → Sim × String) : Sim × String :=
  match id.toNat? with
  | some id =>
    match opOf sim id with
    | some o =>
      if needAlive ∧ !sim.st.alive then line sim "noproactor"
      else if o.user = 0 then line sim "nokey"
      else f id o
    | none => (sim, "bad-op")
  | none => (sim, "bad-op")

/-- A cancel that reaches io_uring's `Driver::cancel` with a full submission queue runs one `push_raw` round inside
the call: submit, the kernel reacts, the completion queue is drained, then the AsyncCancel SQE is queued. The kernel's
reaction is computed on a scratch copy and handed to the event as its `posts`; afterwards — same race as for an
overflowing `push` — both sides poll to quiescence. -/
def cancelLine (sim : Sim) (reaches : Bool) (mk : List (Nat × Bool × Res) → Event) : Sim :=
  let overflow := decide (sim.st.drv = .iour) && reaches && !(decide (sim.st.sqLen < sim.st.cap)) && Cfg.gen.cancelPushRaw
  if overflow then
    let tmp := doSubmit { sim with log := [] }
    let sim := ev { sim with avail := tmp.avail } (mk tmp.log)
    settle sim
  else ev sim (mk [])

def exec (sim : Sim) (w : List String) : Sim × String :=
  match w with
  | ["push", k, fd] =>
    match parseKind k, fd.toNat? with
    | some hk, some fd =>
      if !sim.st.alive then line sim "noproactor" else
      let sim := { sim with hk := sim.hk ++ [hk] }
      match hk, sim.st.drv with
      | .blk, _ => line (ev sim .pushBlocking) "pending"
      | _, .iour =>
        -- CQEs caused by the submit inside the overflow loop (cancellations, multishot, notifications) are posted
        -- by task work a moment later; whether the drain of the same call sees them is a race, so the harness
        -- polls to quiescence after a push that overflowed, and so does the model
        let full := !(decide (sim.st.sqLen < sim.st.cap))
        let sim := withRoom sim (.pushSq hk.kind fd hk.dir)
        line (if full then settle sim else sim) "pending"
      | .zc, .poll => line (ev sim (.pushReady hk.kind fd hk.dir (okRes hk))) s!"ready:{showRes (okRes hk)}"
      | _, .poll =>
        if 0 < getAvail sim fd then
          line (setAvail (ev sim (.pushReady hk.kind fd hk.dir (okRes hk))) fd (getAvail sim fd - 1))
            s!"ready:{showRes (okRes hk)}"
        else
          line (ev sim (.pushWait hk.kind fd hk.dir)) "pending"
    | _, _ => (sim, "bad-op")
  | ["ready", fd, k] =>
    match fd.toNat?, k.toNat? with
    | some fd, some k =>
      let sim := setAvail sim fd (getAvail sim fd + k)
      let sim := if sim.st.drv = .iour ∧ sim.st.ring then kernelData sim else sim
      line sim "ok"
    | _, _ => (sim, "bad-op")
  | ["poll"] => if !sim.st.alive then line sim "noproactor" else line (settle sim) "ok"
  | ["flush"] =>
    if !sim.st.alive then line sim "noproactor" else
    match sim.st.drv with
    | .iour =>
      let full := sim.st.needNotifier && !(decide (sim.st.sqLen < sim.st.cap))
      let sim := iourFlush sim
      line (if full then settle sim else sim) "ok"
    | .poll => line sim "ok"
  | ["pop", id] =>
    withKey sim id true fun id o =>
      let out := match o.result with
        | some r => if o.rc = 1 then showRes r else "panic"
        | none => "pending"
      line (ev sim (.userPop id)) out
  | ["popm", id] =>
    withKey sim id true fun id o =>
      let out := match o.multi.head? with
        | some r => showRes r
        | none => "none"
      line (ev sim (.popMulti id)) out
  | ["cancel", id] =>
    withKey sim id true fun id o =>
      let out := match o.result with
        | some r => if !o.cancelled ∧ o.rc = 1 then s!"some:{showRes r}" else "none"
        | none => "none"
      let reaches := !o.cancelled && !(decide (o.rc = 1) && o.result.isSome)
      line (cancelLine sim reaches (.userCancel id)) out
  | ["ccancel", id] => withKey sim id true fun id o => line (cancelLine sim (!o.cancelled) (.cloneCancel id)) "none"
  | ["drop", id] => withKey sim id false fun id _ => line (ev sim (.userDrop id)) "ok"
  | ["token", id] => withKey sim id true fun id _ => line (ev sim (.tokenRegister id)) "ok"
  | ["tcancel", id] =>
    match id.toNat? with
    | some id =>
      match opOf sim id with
      | some o =>
        if !sim.st.alive then line sim "noproactor"
        else if o.weak = 0 then line sim "notoken"
        else line (cancelLine sim (cancelTokRet o) (.tokenCancel id)) (toString (cancelTokRet o))
      | none => (sim, "bad-op")
    | none => (sim, "bad-op")
  | ["gate", id] =>
    match id.toNat? with
    | some id =>
      match opOf sim id with
      | some o =>
        if !o.poolRun then line sim "nogate" else
        let sim := ev sim (.poolDone id (okRes .blk))
        line (if sim.st.alive then settle sim else sim) "ok"
      | none => (sim, "bad-op")
    | none => (sim, "bad-op")
  | ["pdrop"] =>
    if !sim.st.alive then line sim "noproactor"
    else if pdropUnsafe sim then ({ sim with dead := true }, s!"unsafe-skip | {statusVec sim.st}")
    else line (evs sim (.dropBegin :: List.replicate (dropProg Cfg.gen sim.st.drv).length .dropStep)) "ok"
  | ["end"] => line sim "ok"
  | _ => (sim, "bad-op")

/-! ### runtime level: `compio_runtime::CancelToken` + `with_cancel` (lines `rt <drv> <cap>` / `tok <steps> <neighbour>`)

The wrapped future runs its steps in order; every driver call the runtime makes on its behalf is an event of the LTS, and
the token's two operations are the event lists of `Token.register` / `Token.cancel` (the ones the C05 token theorems are
about). Rings are large here: no cancel overflows the submission queue, so the `posts` of the cancel events are empty. -/

structure RtRun where
  sim : Sim
  tok : Token
  outs : List String
  slot : Nat
  /-- `Submit::poll` finds the token in the waker's `Ext` (decided from the combinator stack and the extracted table) -/
  sees : Bool := true

/-- `CancelToken::cancel()` -/
def rtFire (r : RtRun) : RtRun :=
  let (t', es) := r.tok.cancel (fun _ => [])
  { r with sim := evs r.sim es, tok := t' }

/-- one receive step of the wrapped future: `Submit::poll` pushes, then registers the key with the token carried by the
waker (`cx.get_cancel()`); `r`: the controller fires an unfired token while the op is in flight; `k`: an unfired token
stays so and the 15 ms timeout drops the future (`Submit::drop` → `Proactor::cancel`); `d`: data is waiting -/
def rtOp (r : RtRun) (kind : String) : RtRun :=
  let slot := r.slot
  let sim0 := if kind = "d" then setAvail r.sim slot 1 else r.sim
  let id := sim0.st.ops.length
  let (sim1, out) := exec sim0 ["push", "rd", toString slot]
  if out.startsWith "ready" then { r with sim := sim1, outs := r.outs ++ ["ok:4"], slot := slot + 1 }
  else
    -- `WithCancel::poll` hands the token down through the waker (shape checked by the extractor, `Gen.WithCancel`), so
    -- `Submit::poll` sees it and registers the key
    let (tok1, es) := if Gen.withCancelAlwaysWrapsWaker && r.sees then r.tok.register id [] else (r.tok, [])
    let r1 : RtRun := { r with sim := evs sim1 es, tok := tok1, slot := slot + 1 }
    let r2 := if kind = "r" ∧ !r.tok.fired then rtFire r1 else r1
    if kind = "k" ∧ !r.tok.fired then
      { r2 with sim := settle (ev r2.sim (.userCancel id [])), outs := r2.outs ++ ["t"] }
    else
      let sim3 := settle r2.sim
      let res := match opOf sim3 id with
        | some o =>
          match o.result with
          | some x => if x = ECANCELED then "c" else showRes x
          | none => "hang"
        | none => "?"
      { r2 with sim := ev sim3 (.userPop id), outs := r2.outs ++ [res] }

def rtStep (r : RtRun) (st : String) : RtRun :=
  if st = "r" ∨ st = "k" ∨ st = "d" then rtOp r st
  else if st = "F" ∨ st = "X" then rtFire r
  else r

def rtCase (sim : Sim) (steps : List String) (neighbour : Bool) (nest : String := "c") : Sim × String :=
  -- the neighbour's receive (op 0, own descriptor) is submitted first and registered with nothing
  let sim := if neighbour then (exec sim ["push", "rd", "0"]).1 else sim
  let r := steps.foldl rtStep ⟨sim, Token.new, [], 1, ExtStack.tokenVisible (ExtStack.ofNest nest)⟩
  let nres := if neighbour then
      match opOf r.sim 0 with
      | some o => if o.cancelled then "c" else "t"
      | none => "?"
    else "-"
  -- its timeout drops it
  let sim' := if neighbour then settle (ev r.sim (.userCancel 0 [])) else r.sim
  (sim', (if sim'.dead then "reject" else ",".intercalate r.outs ++ " n:" ++ nres) ++ " | -")

/-- driver step: `cfg <iour|poll> <cap>` starts a case -/
def stepLine (sim : Sim) (ln : String) : Sim × String :=
  if ln.startsWith "#case" then (Sim.init .iour 1024, ln.trimAscii.toString) else
  match words ln with
  | ["rt", d, cap] =>
    match cap.toNat? with
    | some cap => (Sim.init (if d = "poll" then Drv.poll else Drv.iour) cap, "ok | -")
    | none => (sim, "bad-op")
  | ["tok", steps, nb] => rtCase sim (steps.splitOn ",") (nb == "1")
  | ["tok", steps, nb, nest] => rtCase sim (steps.splitOn ",") (nb == "1") nest
  | ["cfg", d, cap] =>
    match cap.toNat? with
    | some cap =>
      let d := if d = "poll" then Drv.poll else Drv.iour
      (Sim.init d cap, "ok | -")
    | none => (sim, "bad-op")
  | w => exec sim w

end Compio.KeyLife.Script
