/-
Discrete-event simulation of a compio runtime running timer tasks, built from the model functions
of Model/Timer.lean (`Sleep.new/poll/drop`, `Timeout.poll`, `Interval.tickDeadline`, `minTimeout`,
`wake`). Used by the C09 driver to predict the verdict tokens of the runtime-level scenarios of the
harness (`rt …` lines): which sleeps fire, `ok`/`elapsed` of timeouts, the tick indices of
intervals, and the residue left in the wheel when every task has finished.

The loop mirrors `Runtime::block_on`: poll the woken tasks, take `min_timeout`, let the driver sleep
exactly that long (idealised: real time only adds a non-negative lateness), `wake`, repeat.
Times are milliseconds; a task's waker is identified by the task index.
-/
import Compio.Model.Common
import Compio.Model.Timer

namespace Compio.Timer.Sim
open Compio Compio.Timer

inductive Inner where
  | never
  | ready
  | sleep (a : Nat)
deriving Repr

inductive Spec where
  | sleep (d : Nat)
  | dropped (d : Nat) (polled : Bool)
  | timeout (inner : Inner) (limit : Nat)
  | interval (start period n work : Nat)
  | noise                  -- a task woken repeatedly from another thread; it owns no timer
  | busyIo                 -- a task completing cheap I/O (`z`) or yielding (`y`) until the others are done; it owns no timer
  /-- timers sharing one deadline: create A(d), B(d), poll B, drop A, create C(d), drop C at once
  (`keep = false`) or when B is done; the task waits for B -/
  | shared (d : Nat) (keep : Bool)
  /-- interval whose `tick()` futures are, per character of the pattern, `d` awaited to completion,
  `p` polled once and dropped, `t` wrapped in a 2 ms `timeout` -/
  | intervalCancel (start period : Nat) (pattern : List Char)
deriving Repr

/-- where an interval task stands -/
inductive Phase where
  | tick (value : Nat)     -- awaiting the sleep of `tick()`, which will return `value`
  | work                   -- awaiting the sleep between two ticks
deriving Repr

/-- a suspended `tick()` future of an `intervalCancel` task: the coroutine position, its sleep, and
the sleep of the surrounding `timeout` if there is one -/
structure TickWait where
  fut : TickFut
  slp : Sleep
  limit : Option Sleep
deriving Repr

inductive Task where
  | init (s : Spec)
  | inCancel (iv : Interval) (pat : List Char) (count : Nat) (cur : Option TickWait)
  | sleeping (slp : Sleep)
  | sharedWait (b : Sleep) (c : Option Sleep)
  | inTimeout (innerNever : Bool) (inner : Option Sleep) (slp : Sleep)
  | inInterval (iv : Interval) (slp : Sleep) (ph : Phase) (ticks : List Nat) (left work : Nat)
  | done (token : String)
deriving Repr

def Task.isDone : Task → Bool
  | .done _ => true
  | _ => false

/-- The verdict token of an interval task: the number of ticks delivered. (Which multiples of the
period they are depends on real-time jitter in a real run; the harness judges every tick instant
with its monitors, and ties `Interval.tickDeadline` to the code with the `ivx` lines, whose margins
are seconds.) -/
def tickToken (_start _period : Nat) (ticks : List Nat) : String := s!"ticks#{ticks.length}"

/-- One transition of task `id` at time `now`. Returns the new wheel, the new task state and whether
the task can make further progress right now (`false` = it returned `Poll::Pending` or finished). -/
def trans (w : Wheel) (now id : Nat) : Task → Wheel × Task × Bool
  | .done t => (w, .done t, false)
  | .init .noise => (w, .done "noise", false)
  | .init .busyIo => (w, .done "busy", false)
  | .init (.intervalCancel start period pat) =>
    match intervalAt start period with
    | none => (w, .done "panic", false)
    | some iv => (w, .inCancel iv pat 0 none, true)
  | .inCancel iv pat count none =>
    match pat with
    | [] => (w, .done s!"ticks#{count}", false)
    | c :: rest =>
      -- `timeout(2 ms, iv.tick())` creates its own sleep first; the tick future starts at the first poll
      let (w0, limit) : Wheel × Option (Option Sleep) :=
        if c = 't' then
          match Sleep.new w now (now + 2) with
          | (w', some sl) => (w', some (some sl))
          | (w', none) => (w', none)
        else (w, some none)
      match limit with
      | none => (w0, .done "panic", false)
      | some limit =>
        match iv.tickBegin now with
        | none => (w0, .done "panic", false)
        | some (iv1, fut, d) =>
          match Sleep.new w0 now d with
          | (w1, none) => (w1, .done "panic", false)
          | (w1, some s) =>
            if c = 'p' then
              -- polled once, then dropped: delivered if already due, cancelled otherwise
              match Sleep.poll w1 s id with
              | (w2, true) => (Sleep.drop w2 s, .inCancel (iv1.tickEnd fut).1 rest count none, true)
              | (w2, false) => (Sleep.drop w2 s, .inCancel iv1 rest count none, true)
            else (w1, .inCancel iv1 (c :: rest) count (some ⟨fut, s, limit⟩), true)
  | .inCancel iv pat count (some cur) =>
    match cur.limit with
    | none =>
      -- plain `tick().await`
      match Sleep.poll w cur.slp id with
      | (w', false) => (w', .inCancel iv pat count (some cur), false)
      | (w', true) => (Sleep.drop w' cur.slp, .inCancel (iv.tickEnd cur.fut).1 (pat.drop 1) (count + 1) none, true)
    | some sl =>
      let (w1, innerReady) := Sleep.poll w cur.slp id
      match Timeout.poll w1 sl innerReady id with
      | (w2, .pending) => (w2, .inCancel iv pat count (some cur), false)
      | (w2, .ok) =>
        (Sleep.drop (Sleep.drop w2 cur.slp) sl, .inCancel (iv.tickEnd cur.fut).1 (pat.drop 1) count none, true)
      | (w2, .elapsed) =>
        -- the suspended tick future is dropped: the interval keeps the state `tickBegin` left
        (Sleep.drop (Sleep.drop w2 cur.slp) sl, .inCancel iv (pat.drop 1) count none, true)
  | .init (.sleep d) =>
    match Sleep.new w now d with
    | (w', some s) => (w', .sleeping s, true)
    | (w', none) => (w', .done "panic", false)
  | .init (.shared d keep) =>
    match Sleep.new w now d with
    | (w1, some a) =>
      match Sleep.new w1 now d with
      | (w2, some b) =>
        let w3 := (Sleep.poll w2 b id).1
        let w4 := Sleep.drop w3 a
        match Sleep.new w4 now d with
        | (w5, some c) =>
          if keep then (w5, .sharedWait b (some c), true)
          else (Sleep.drop w5 c, .sharedWait b none, true)
        | (w5, none) => (w5, .done "panic", false)
      | (w2, none) => (w2, .done "panic", false)
    | (w1, none) => (w1, .done "panic", false)
  | .sharedWait b c =>
    match Sleep.poll w b id with
    | (w', true) =>
      let w1 := Sleep.drop w' b
      let w2 := match c with
        | some c => Sleep.drop w1 c
        | none => w1
      (w2, .done "fired", false)
    | (w', false) => (w', .sharedWait b c, false)
  | .init (.dropped d polled) =>
    match Sleep.new w now d with
    | (w', some s) =>
      let w'' := if polled then (Sleep.poll w' s id).1 else w'
      (Sleep.drop w'' s, .done "dropped", false)
    | (w', none) => (w', .done "panic", false)
  | .init (.timeout inner limit) =>
    -- the harness builds the inner future first, then `timeout_at(limit, inner)`
    match inner with
    | .sleep a =>
      match Sleep.new w now a with
      | (w1, some si) =>
        match Sleep.new w1 now limit with
        | (w2, some s) => (w2, .inTimeout false (some si) s, true)
        | (w2, none) => (w2, .done "panic", false)
      | (w1, none) => (w1, .done "panic", false)
    | .never =>
      match Sleep.new w now limit with
      | (w2, some s) => (w2, .inTimeout true none s, true)
      | (w2, none) => (w2, .done "panic", false)
    | .ready =>
      match Sleep.new w now limit with
      | (w2, some s) => (w2, .inTimeout false none s, true)
      | (w2, none) => (w2, .done "panic", false)
  | .init (.interval start period n work) =>
    match intervalAt start period with
    | none => (w, .done "panic", false)
    | some iv =>
      if n = 0 then (w, .done (tickToken start period []), false)
      else
        match iv.tickDeadline now with
        | .panic => (w, .done "panic", false)
        | .deadline d =>
          match Sleep.new w now d with
          | (w', some s) => (w', .inInterval iv s (.tick d) [] n work, true)
          | (w', none) => (w', .done "panic", false)
  | .sleeping s =>
    match Sleep.poll w s id with
    | (w', true) => (Sleep.drop w' s, .done "fired", false)
    | (w', false) => (w', .sleeping s, false)
  | .inTimeout never inner s =>
    -- poll the inner future first
    let (w1, innerReady) :=
      match inner with
      | some si => Sleep.poll w si id
      | none => (w, !never)
    match Timeout.poll w1 s innerReady id with
    | (w2, .pending) => (w2, .inTimeout never inner s, false)
    | (w2, r) =>
      -- the whole `Timeout` is dropped: inner future first (field order), then the sleep
      let w3 := match inner with
        | some si => Sleep.drop w2 si
        | none => w2
      (Sleep.drop w3 s, .done (if r = .ok then "ok" else "elapsed"), false)
  | .inInterval iv s ph ticks left work =>
    match Sleep.poll w s id with
    | (w', false) => (w', .inInterval iv s ph ticks left work, false)
    | (w', true) =>
      let w1 := Sleep.drop w' s
      match ph with
      | .tick v =>
        let iv' := iv.ticked
        let ticks' := ticks ++ [v]
        if left ≤ 1 then (w1, .done (tickToken iv.start iv.period ticks'), false)
        else if work = 0 then
          match iv'.tickDeadline now with
          | .panic => (w1, .done "panic", false)
          | .deadline d =>
            match Sleep.new w1 now d with
            | (w2, some s2) => (w2, .inInterval iv' s2 (.tick d) ticks' (left - 1) work, true)
            | (w2, none) => (w2, .done "panic", false)
        else
          match Sleep.new w1 now (v + work) with
          | (w2, some s2) => (w2, .inInterval iv' s2 .work ticks' (left - 1) work, true)
          | (w2, none) => (w2, .done "panic", false)
      | .work =>
        match iv.tickDeadline now with
        | .panic => (w1, .done "panic", false)
        | .deadline d =>
          match Sleep.new w1 now d with
          | (w2, some s2) => (w2, .inInterval iv s2 (.tick d) ticks left work, true)
          | (w2, none) => (w2, .done "panic", false)

/-- poll task `id` until it is pending or finished -/
def pollTask (w : Wheel) (now id : Nat) : Nat → Task → Wheel × Task
  | 0, t => (w, t)
  | fuel + 1, t =>
    match trans w now id t with
    | (w', t', true) => pollTask w' now id fuel t'
    | (w', t', false) => (w', t')

/-- poll the tasks whose index is in `wokenIds` (all of them if `all`), in spawn order -/
def pollRound (w : Wheel) (now : Nat) (all : Bool) (wokenIds : List Nat) :
    Nat → List Task → Wheel × List Task
  | _, [] => (w, [])
  | id, t :: rest =>
    let (w', t') := if all || wokenIds.contains id then pollTask w now id 64 t else (w, t)
    let (w'', rest') := pollRound w' now all wokenIds (id + 1) rest
    (w'', t' :: rest')

structure Result where
  tasks : List Task
  residue : Nat
  stuck : Bool

/-- the runtime loop -/
def loop (w : Wheel) (now : Nat) (all : Bool) (wokenIds : List Nat) (tasks : List Task) :
    Nat → Result
  | 0 => ⟨tasks, w.entries.length, true⟩
  | fuel + 1 =>
    let (w1, tasks1) := pollRound w now all wokenIds 0 tasks
    if tasks1.all Task.isDone then ⟨tasks1, w1.entries.length, false⟩
    else
      match minTimeout w1 now with
      | none => ⟨tasks1, w1.entries.length, true⟩
      | some t =>
        let now' := now + t
        -- `poll_with`; the verdict tokens do not depend on how the driver poll returned
        match pollWith w1 now' .timedOut with
        | none => ⟨tasks1, w1.entries.length, true⟩
        | some (w2, expired) => loop w2 now' false (woken expired) tasks1 fuel

/-- scenario start (ms); offsets in the lines are relative to it and may be negative -/
def t0 : Nat := 100000

def parseOff (s : String) : Option Nat :=
  if s.startsWith "-" then ((s.drop 1).toString.toNat?).bind fun n => if n ≤ t0 then some (t0 - n) else none
  else (s.toNat?).map (t0 + ·)

def parseSpec (s : String) : Option Spec :=
  match s.splitOn "," with
  | ["s", d] => (parseOff d).map .sleep
  | ["d", d, p] => (parseOff d).map fun d => .dropped d (p == "1")
  | ["t", "n", l] => (parseOff l).map (.timeout .never)
  | ["t", "r", l] => (parseOff l).map (.timeout .ready)
  | ["t", a, l] =>
    match parseOff a, parseOff l with
    | some a, some l => some (.timeout (.sleep a) l)
    | _, _ => none
  | ["n", _count, _every] => some .noise
  | ["z"] => some .busyIo
  | ["y"] => some .busyIo
  | ["e", d, k] => (parseOff d).map fun d => .shared d (k == "1")
  | ["ic", st, p, pat] =>
    match parseOff st, p.toNat? with
    | some st, some p => some (.intervalCancel st p pat.toList)
    | _, _ => none
  | ["i", st, p, n, wk] =>
    match parseOff st, p.toNat?, n.toNat?, wk.toNat? with
    | some st, some p, some n, some wk => some (.interval st p n wk)
    | _, _, _, _ => none
  | _ => none

def allSome {α} : List (Option α) → Option (List α)
  | [] => some []
  | none :: _ => none
  | some a :: r => (allSome r).map (a :: ·)

def tokenOf : Task → String
  | .done t => t
  | _ => "unfinished"

def runLine (tasks : String) : String :=
  match allSome ((tasks.splitOn ";").map parseSpec) with
  | none => "bad-op"
  | some specs =>
    let r := loop Wheel.new t0 true [] (specs.map Task.init) 4096
    let toks := " ".intercalate (r.tasks.map tokenOf)
    s!"{toks} residue={r.residue}{if r.stuck then " stuck" else ""}"

end Compio.Timer.Sim
