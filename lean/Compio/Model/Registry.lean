/-
Model of `compio-actor/src/cluster/registry.rs` (C19, names half).

`Registry` = `Mutex<HashMap<Name, Option<ErasedMailbox>>>`; every operation runs under the mutex, so the
map is a sequential object. A mailbox is represented by the id of the actor it belongs to.
`Registration` is an owned token (moved into the dispatched closure, released by `Drop`): the model keeps
the set of live tokens as ghost state, `RSt.step` is the transition system over
reserve / activate / drop that Rust's ownership discipline allows (a token is activated or dropped only
while it is live, and dropped once).

Core Lean only (the driver `c19d` links this file).
-/
namespace Compio.Registry

abbrev Name := String

/-- `HashMap<Name, Option<ErasedMailbox>>` as an association list (keys kept distinct by `reserve`) -/
abbrev Map := List (Name × Option Nat)

def Map.has (m : Map) (n : Name) : Bool := m.any (·.1 == n)

/-- `Registry::reserve`: `none` = `Err(name)` (name taken), else the map with the entry `name ↦ None` -/
def reserve (m : Map) (n : Name) : Option Map :=
  if Map.has m n then none else some (m ++ [(n, none)])

/-- `Registration::activate`: `none` = the `expect("actor registration disappeared before startup")` panic -/
def activate (m : Map) (n : Name) (a : Nat) : Option Map :=
  if Map.has m n then some (m.map fun e => if e.1 == n then (e.1, some a) else e) else none

/-- `Drop for Registration`: `actors.remove(&self.name)` -/
def release (m : Map) (n : Name) : Map := m.filter (fun e => !(e.1 == n))

/-- `Registry::get`: `actors.get(name).and_then(Clone::clone)` (the type downcast is the caller's) -/
def get (m : Map) (n : Name) : Option Nat := (m.find? (·.1 == n)).bind (·.2)

/-! ### the token discipline -/

/-- a live `Registration`: owner (actor id), name, whether `activate` ran -/
structure Token where
  owner : Nat
  name : Name
  active : Bool
  deriving DecidableEq, Repr

structure RSt where
  map : Map := []
  live : List Token := []
  /-- an `activate` hit the `expect` -/
  panicked : Bool := false
  deriving Repr

inductive REv where
  | reserve (a : Nat) (n : Name)     -- `Cluster::start` of a named actor `a`
  | activate (a : Nat)               -- `pre_start` of `a` succeeded
  | drop (a : Nat)                   -- failed start, exit, or the closure/future being dropped
  deriving DecidableEq, Repr

def RSt.tokenOf (s : RSt) (a : Nat) : Option Token := s.live.find? (·.owner == a)

/-- `none` = not allowed by ownership (no such live token / the actor already holds one) -/
def RSt.step (s : RSt) : REv → Option RSt
  | .reserve a n =>
    match s.tokenOf a with
    | some _ => none
    | none =>
      match reserve s.map n with
      | none => some s                                  -- `SpawnError::NameTaken`: nothing changes
      | some m => some { s with map := m, live := s.live ++ [⟨a, n, false⟩] }
  | .activate a =>
    match s.tokenOf a with
    | none => none
    | some t =>
      match activate s.map t.name a with
      | none => some { s with panicked := true }
      | some m => some { s with map := m,
                                live := s.live.map fun u => if u.owner == a then { u with active := true } else u }
  | .drop a =>
    match s.tokenOf a with
    | none => none
    | some t => some { s with map := release s.map t.name, live := s.live.filter (fun u => !(u.owner == a)) }

def RSt.run (s : RSt) : List REv → Option RSt
  | [] => some s
  | e :: es => match s.step e with
    | some s' => s'.run es
    | none => none

end Compio.Registry
