/-
C11 — the read/write helper algorithms of compio-io over scripted inner streams.

An inner stream is a *script*: a list of `Outcome`s, consumed one per call.
  `ok n`  : transfer up to `n` bytes, clamped to what the caller offers (and, for a reader, to what
            is left of the stream)
  `intr`  : `ErrorKind::Interrupted`
  `err k` : another error (kind number `k`)
  `eof`   : `Ok(0)`
An exhausted script answers `Ok(0)`.

Modelled branch by branch: `loop_read_exact!`, `loop_read_to_end!`, `loop_read_vectored!`,
`loop_write_all!`, `loop_write_vectored!` (read/ext.rs, write/ext.rs), `Take` (util/take.rs),
`BufReader` (read/buf.rs), `BufWriter` (write/buf.rs), `Buffer::flush_to` (buffer.rs),
`copy_with_size` (util/copy.rs), `Cursor` (read/mod.rs, write/mod.rs). Split halves
(util/split.rs) forward every call to the shared stream behind an uncontended `BiLock`; they are
the identity on this level.
-/
import Compio.Model.MemIo

namespace Compio.Io

inductive Outcome where
  | ok (n : Nat)
  | intr
  | err (k : Nat)
  | eof
  deriving Repr, DecidableEq

/-! ## readers -/

/-- one call of the scripted reader with `offered` bytes of room -/
def scriptRead (stream : Bytes) (sc : List Outcome) (offered : Nat) : Res Bytes × Bytes × List Outcome :=
  match sc with
  | [] => (.ok [], stream, [])
  | .eof :: r => (.ok [], stream, r)
  | .intr :: r => (.err .interrupted, stream, r)
  | .err k :: r => (.err (.other k), stream, r)
  | .ok n :: r => (.ok (stream.take (min n offered)), stream.drop (min n offered), r)

inductive Rd where
  /-- scripted stream: the bytes still to deliver and the script -/
  | script (stream : Bytes) (sc : List Outcome)
  /-- `&[u8]` -/
  | mem (data : Bytes)
  /-- `Cursor<Vec<u8>>` / `Cursor<[u8; N]>` (position is a `u64`) -/
  | cursor (data : Bytes) (pos : Nat)
  /-- `Take<R>` -/
  | take (inner : Rd) (limit : Nat)
  /-- `BufReader<R>` -/
  | buf (inner : Rd) (b : Buffer)
  deriving Repr, DecidableEq

/-- `fill_buf`, given the outcome `rr` of `reader.read(b.slice(len..))` (only used when `need_fill`).
On an error the buffer is restored unchanged (`Buffer::with`). -/
def bufFill (b1 : Buffer) (rr : Res Bytes × Rd) (inner : Rd) : Res Unit × Rd × Buffer :=
  if b1.needFill then
    match rr with
    | (.ok bs, i') => (.ok (), i', { b1 with data := b1.data ++ bs })
    | (.err e, i') => (.err e, i', b1)
    | (.panic, i') => (.panic, i', b1)
    | (.ub, i') => (.ub, i', b1)
    | (.fuel, i') => (.fuel, i', b1)
  else (.ok (), inner, b1)

/-- `slice.read(buf)` on the lent view followed by `consume(n)` -/
def bufServe (i : Rd) (b : Buffer) (offered : Nat) : Res Bytes × Rd :=
  match b.advance (b.pending.take offered).length with
  | some b' => (.ok (b.pending.take offered), .buf i b')
  | none => (.panic, .buf i b)

/-- `AsyncRead::read` with `offered` bytes of room: the bytes to put at the start of the view -/
def Rd.read : Rd → Nat → Res Bytes × Rd
  | .script s sc, off => ((scriptRead s sc off).1, .script (scriptRead s sc off).2.1 (scriptRead s sc off).2.2)
  | .mem d, off => (.ok (d.take off), .mem (d.drop off))
  | .cursor d pos, off => (.ok (readAt d pos off), .cursor d (pos + (readAt d pos off).length))
  | .take inner lim, off =>
    if lim = 0 then (.ok [], .take inner lim)
    else
      match inner.read (min lim off) with
      | (.ok bs, i') =>
        -- `assert!(n as u64 <= self.limit)`
        if bs.length ≤ lim then (.ok bs, .take i' (lim - bs.length)) else (.panic, .take i' lim)
      | (.err e, i') => (.err e, .take i' lim)
      | (.panic, i') => (.panic, .take i' lim)
      | (.ub, i') => (.ub, .take i' lim)
      | (.fuel, i') => (.fuel, .take i' lim)
  | .buf inner b, off =>
    match bufFill b.prep (inner.read (b.prep.cap - b.prep.data.length)) inner with
    | (.ok (), i', b2) => bufServe i' b2 off
    | (.err e, i', b2) => (.err e, .buf i' b2)
    | (.panic, i', b2) => (.panic, .buf i' b2)
    | (.ub, i', b2) => (.ub, .buf i' b2)
    | (.fuel, i', b2) => (.fuel, .buf i' b2)

/-- `BufReader::fill_buf` -/
def fillBuf (inner : Rd) (b : Buffer) : Res Unit × Rd × Buffer :=
  bufFill b.prep (inner.read (b.prep.cap - b.prep.data.length)) inner

/-- `AsyncBufRead::fill_buf`: the lent bytes (`none` = the reader has no such method) -/
def Rd.fillBufOp : Rd → Option (Res Bytes × Rd)
  | .buf inner b =>
    match fillBuf inner b with
    | (.ok (), i', b2) => some (.ok b2.pending, .buf i' b2)
    | (.err e, i', b2) => some (.err e, .buf i' b2)
    | (.panic, i', b2) => some (.panic, .buf i' b2)
    | (.ub, i', b2) => some (.ub, .buf i' b2)
    | (.fuel, i', b2) => some (.fuel, .buf i' b2)
  | .take inner lim =>
    if lim = 0 then some (.ok [], .take inner lim)
    else
      match inner.fillBufOp with
      | some (.ok bs, i') => some (.ok (bs.take (min lim bs.length)), .take i' lim)
      | some (r, i') => some (r, .take i' lim)
      | none => none
  | _ => none

/-- `AsyncBufRead::consume(amount)`; `none` = unsupported, `some none` = panic -/
def Rd.consumeOp : Rd → Nat → Option (Option Rd)
  | .buf inner b, amount =>
    match b.advance amount with
    | some b' => some (some (.buf inner b'))
    | none => some none
  | .take inner lim, amount =>
    match inner.consumeOp (min lim amount) with
    | some (some i') => some (some (.take i' (lim - min lim amount)))
    | some none => some none
    | none => none
  | _, _ => none

/-- `loop_read_vectored!` (the default `read_vectored`): walk to the first view with room, one `read` -/
def defaultReadVectored (r : Rd) (vs : VS) : Res Nat × Rd × VS :=
  -- `owned_iter()` fails on a buffer without members; `buf_capacity()` of each view otherwise
  match firstRoom vs.viewCaps 0 with
  | none => (.ok 0, r, vs)
  | some (index, room) =>
    match r.read room with
    | (.ok bs, r') =>
      match vs.fillView index bs with
      | .ok vs' => (.ok bs.length, r', vs')
      | .err e => (.err e, r', vs)
      | .panic => (.panic, r', vs)
      | .ub => (.ub, r', vs)
      | .fuel => (.fuel, r', vs)
    | (.err e, r') => (.err e, r', vs)
    | (.panic, r') => (.panic, r', vs)
    | (.ub, r') => (.ub, r', vs)
    | (.fuel, r') => (.fuel, r', vs)

/-- `AsyncRead::read_vectored` -/
def Rd.readVectored : Rd → VS → Res Nat × Rd × VS
  | .mem d, vs =>
    ((memReadVectored d vs).1, .mem (d.drop (min d.length (sumNat vs.viewCaps))), (memReadVectored d vs).2)
  | .cursor d pos, vs =>
    match readVectoredAt d pos vs with
    | (.ok n, vs') => (.ok n, .cursor d (pos + n), vs')
    | (r, vs') => (r, .cursor d pos, vs')
  | .buf inner b, vs =>
    match fillBuf inner b with
    | (.ok (), i', b2) =>
      match memReadVectored b2.pending vs with
      | (.ok n, vs') =>
        match b2.advance n with
        | some b3 => (.ok n, .buf i' b3, vs')
        | none => (.panic, .buf i' b2, vs')
      | (r, vs') => (r, .buf i' b2, vs')
    | (.err e, i', b2) => (.err e, .buf i' b2, vs)
    | (.panic, i', b2) => (.panic, .buf i' b2, vs)
    | (.ub, i', b2) => (.ub, .buf i' b2, vs)
    | (.fuel, i', b2) => (.fuel, .buf i' b2, vs)
  | r, vs => defaultReadVectored r vs

/-- `loop_read_exact!` with `self.read(buf.slice(read..))` -/
def readExactLoop : Nat → Rd → VBuf → Nat → Nat → Res Unit × Rd × VBuf
  | 0, r, b, _, _ => (.fuel, r, b)
  | fuel + 1, r, b, len, read =>
    if read < len then
      -- `buf.slice(read..)`: `assert!(begin <= buf_len())`
      if b.data.length < read then (.panic, r, b)
      else
        match r.read (b.cap - read) with
        | (.ok bs, r') =>
          if bs.length = 0 then (.err .unexpectedEof, r', b)
          else readExactLoop fuel r' (b.place read bs) len (read + bs.length)
        | (.err .interrupted, r') => readExactLoop fuel r' b len read
        | (.err e, r') => (.err e, r', b)
        | (.panic, r') => (.panic, r', b)
        | (.ub, r') => (.ub, r', b)
        | (.fuel, r') => (.fuel, r', b)
    else (.ok (), r, b)

/-- `AsyncReadExt::read_exact` -/
def readExact (fuel : Nat) (r : Rd) (b : VBuf) : Res Unit × Rd × VBuf :=
  readExactLoop fuel r b b.cap 0

/-- `loop_read_to_end!` with `self.read(buf.slice(start + total..))` -/
def readToEndLoop : Nat → Rd → VBuf → Nat → Nat → Res Nat × Rd × VBuf
  | 0, r, b, _, _ => (.fuel, r, b)
  | fuel + 1, r, b, start, total =>
    let b1 := if b.data.length = b.cap then b.reserve 32 else b
    if b1.data.length < start + total then (.panic, r, b1)
    else
      match r.read (b1.cap - (start + total)) with
      | (.ok bs, r') =>
        if bs.length = 0 then (.ok total, r', b1)
        else readToEndLoop fuel r' (b1.place (start + total) bs) start (total + bs.length)
      | (.err .interrupted, r') => readToEndLoop fuel r' b1 start total
      | (.err e, r') => (.err e, r', b1)
      | (.panic, r') => (.panic, r', b1)
      | (.ub, r') => (.ub, r', b1)
      | (.fuel, r') => (.fuel, r', b1)

/-- `AsyncReadExt::read_to_end` (repaired: appends after the existing content) -/
def readToEnd (fuel : Nat) (r : Rd) (b : VBuf) : Res Nat × Rd × VBuf :=
  readToEndLoop fuel r b b.data.length 0

/-- `AsyncReadExt::append`: one `read` into `buf.uninit()` -/
def append (r : Rd) (b : VBuf) : Res Nat × Rd × VBuf :=
  match r.read (b.cap - b.data.length) with
  | (.ok bs, r') => (.ok bs.length, r', b.place b.data.length bs)
  | (.err e, r') => (.err e, r', b)
  | (.panic, r') => (.panic, r', b)
  | (.ub, r') => (.ub, r', b)
  | (.fuel, r') => (.fuel, r', b)

/-- one plain `read(buf)`: at the beginning of the buffer -/
def readOnce (r : Rd) (b : VBuf) : Res Nat × Rd × VBuf :=
  match r.read b.cap with
  | (.ok bs, r') => (.ok bs.length, r', b.place 0 bs)
  | (.err e, r') => (.err e, r', b)
  | (.panic, r') => (.panic, r', b)
  | (.ub, r') => (.ub, r', b)
  | (.fuel, r') => (.fuel, r', b)

/-- `loop_read_exact!` with `self.read_vectored(buf.slice_mut(read))` -/
def readVectoredExactLoop : Nat → Rd → List MBuf → Nat → Nat → Res Unit × Rd × List MBuf
  | 0, r, bufs, _, _ => (.fuel, r, bufs)
  | fuel + 1, r, bufs, len, read =>
    if read < len then
      match r.readVectored (VS.sliceMut bufs read) with
      | (.ok n, r', vs) =>
        if n = 0 then (.err .unexpectedEof, r', vs.bufs)
        else readVectoredExactLoop fuel r' vs.bufs len (read + n)
      | (.err .interrupted, r', vs) => readVectoredExactLoop fuel r' vs.bufs len read
      | (.err e, r', vs) => (.err e, r', vs.bufs)
      | (.panic, r', vs) => (.panic, r', vs.bufs)
      | (.ub, r', vs) => (.ub, r', vs.bufs)
      | (.fuel, r', vs) => (.fuel, r', vs.bufs)
    else (.ok (), r, bufs)

/-- `AsyncReadExt::read_vectored_exact` (`len = total_capacity()`) -/
def readVectoredExact (fuel : Nat) (r : Rd) (bufs : List MBuf) : Res Unit × Rd × List MBuf :=
  readVectoredExactLoop fuel r bufs (sumNat (viewCaps bufs 0)) 0

/-! ## writers -/

/-- one call of the scripted writer offered `data` -/
def scriptWrite (got : Bytes) (sc : List Outcome) (data : Bytes) : Res Nat × Bytes × List Outcome :=
  match sc with
  | [] => (.ok 0, got, [])
  | .eof :: r => (.ok 0, got, r)
  | .intr :: r => (.err .interrupted, got, r)
  | .err k :: r => (.err (.other k), got, r)
  | .ok n :: r => (.ok (min n data.length), got ++ data.take (min n data.length), r)

/-- a writer without buffering layer -/
inductive BaseWr where
  /-- scripted: bytes received so far, script, number of `flush` / `shutdown` calls seen -/
  | script (got : Bytes) (sc : List Outcome) (flushes shutdowns : Nat)
  /-- `Vec<u8>` -/
  | vec (v : Bytes)
  /-- `&mut [u8]` -/
  | sliceMut (s : SliceMut)
  /-- `Cursor<Vec<u8>>` -/
  | cursorVec (v : Bytes) (pos : Nat)
  /-- `Cursor<[u8; N]>` / `Cursor<&mut [u8]>` -/
  | cursorArr (a : Bytes) (pos : Nat)
  deriving Repr, DecidableEq

/-- `Cursor::set_position(pos + n as u64)`: overflow check of the `u64` addition -/
def posAdd (pos n : Nat) : Option Nat := if pos + n < usizeLimit then some (pos + n) else none

def BaseWr.write : BaseWr → Bytes → Res Nat × BaseWr
  | .script got sc f s, data =>
    ((scriptWrite got sc data).1, .script (scriptWrite got sc data).2.1 (scriptWrite got sc data).2.2 f s)
  | .vec v, data => (.ok data.length, .vec (v ++ data))
  | .sliceMut s, data => (.ok (s.write data).1, .sliceMut (s.write data).2)
  | .cursorVec v pos, data =>
    match vecWriteAt v pos data with
    | .ok (n, v') =>
      match posAdd pos n with
      | some p => (.ok n, .cursorVec v' p)
      | none => (.panic, .cursorVec v' pos)
    | .err e => (.err e, .cursorVec v pos)
    | .panic => (.panic, .cursorVec v pos)
    | .ub => (.ub, .cursorVec v pos)
    | .fuel => (.fuel, .cursorVec v pos)
  | .cursorArr a pos, data =>
    match posAdd pos (sliceWriteAt a pos data).1 with
    | some p => (.ok (sliceWriteAt a pos data).1, .cursorArr (sliceWriteAt a pos data).2 p)
    | none => (.panic, .cursorArr (sliceWriteAt a pos data).2 pos)

/-- `IoVectoredBuf::slice(begin)`: the remaining initialised views, counting initialised lengths -/
def vslice : List Bytes → Nat → List Bytes
  | [], _ => []
  | b :: rest, off => if b.length > off then b.drop off :: rest else vslice rest (off - b.length)

/-- `loop_write_vectored!`: the first non-empty view -/
def firstNonEmpty : List Bytes → Option Bytes
  | [] => none
  | b :: rest => if b.length > 0 then some b else firstNonEmpty rest

/-- `AsyncWrite::write_vectored` on the views `bufs` -/
def BaseWr.writeVectored : BaseWr → List Bytes → Res Nat × BaseWr
  | .vec v, bufs =>
    match vecWriteVectored v bufs with
    | .ok (n, v') => (.ok n, .vec v')
    | .err e => (.err e, .vec v)
    | .panic => (.panic, .vec v)
    | .ub => (.ub, .vec v)
    | .fuel => (.fuel, .vec v)
  | .sliceMut s, bufs => (.ok (s.writeVectored bufs).1, .sliceMut (s.writeVectored bufs).2)
  | .cursorVec v pos, bufs =>
    match vecWriteVectoredAt v pos bufs with
    | .ok (n, v') =>
      match posAdd pos n with
      | some p => (.ok n, .cursorVec v' p)
      | none => (.panic, .cursorVec v' pos)
    | .err e => (.err e, .cursorVec v pos)
    | .panic => (.panic, .cursorVec v pos)
    | .ub => (.ub, .cursorVec v pos)
    | .fuel => (.fuel, .cursorVec v pos)
  | .cursorArr a pos, bufs =>
    match posAdd pos (sliceWriteVectoredAt a pos bufs).1 with
    | some p => (.ok (sliceWriteVectoredAt a pos bufs).1, .cursorArr (sliceWriteVectoredAt a pos bufs).2 p)
    | none => (.panic, .cursorArr (sliceWriteVectoredAt a pos bufs).2 pos)
  | w, bufs =>
    match firstNonEmpty bufs with
    | none => (.ok 0, w)
    | some b => w.write b

def BaseWr.flush : BaseWr → BaseWr
  | .script got sc f s => .script got sc (f + 1) s
  | w => w

def BaseWr.shutdown : BaseWr → BaseWr
  | .script got sc f s => .script got sc f (s + 1)
  | w => w

/-- the loop of `Buffer::flush_to` (entered with a non-empty view). Every successful iteration
advances by at least one byte, so `pending.length` iterations always suffice. -/
def flushLoop : Nat → BaseWr → Buffer → Nat → Res Nat × BaseWr × Buffer
  | 0, w, b, _ => (.fuel, w, b)
  | fuel + 1, w, b, total =>
    match w.write b.pending with
    | (.ok n, w') =>
      if n = 0 then (.err .writeZero, w', b)
      else
        match b.advance n with
        | none => (.panic, w', b)
        | some b' =>
          if b'.allDone then (.ok (total + n), w', b'.reset) else flushLoop fuel w' b' (total + n)
    | (.err e, w') => (.err e, w', b)
    | (.panic, w') => (.panic, w', b)
    | (.ub, w') => (.ub, w', b)
    | (.fuel, w') => (.fuel, w', b)

/-- `Buffer::flush_to(writer)` -/
def flushTo (w : BaseWr) (b : Buffer) : Res Nat × BaseWr × Buffer :=
  if b.allDone then (.ok 0, w, b) else flushLoop b.pending.length w b 0

/-- `BufWriter::flush_if_needed` -/
def flushIfNeeded (w : BaseWr) (b : Buffer) : Res Unit × BaseWr × Buffer :=
  if b.needFlush then
    match flushTo w b with
    | (.ok _, w', b') => (.ok (), w', b')
    | (.err e, w', b') => (.err e, w', b')
    | (.panic, w', b') => (.panic, w', b')
    | (.ub, w', b') => (.ub, w', b')
    | (.fuel, w', b') => (.fuel, w', b')
  else (.ok (), w, b)

/-- the closure of `BufWriter::write_vectored`: push member after member until the buffer is full -/
def pushAll : Buffer → Nat → List Bytes → Nat × Buffer
  | b, written, [] => (written, b)
  | b, written, s :: rest =>
    let r := b.push s
    if r.2.data.length = r.2.cap then (written + r.1, r.2) else pushAll r.2 (written + r.1) rest

/-- a writer: plain, or wrapped in a `BufWriter` -/
inductive Wr where
  | base (w : BaseWr)
  | buf (w : BaseWr) (b : Buffer)
  deriving Repr, DecidableEq

/-- `BufWriter::write`: flush if needed, copy into the buffer, flush if needed -/
def bufWrite (w : BaseWr) (b : Buffer) (data : Bytes) : Res Nat × BaseWr × Buffer :=
  match flushIfNeeded w b with
  | (.ok (), w1, b1) =>
    match flushIfNeeded w1 (b1.push data).2 with
    | (.ok (), w2, b2) => (.ok (b1.push data).1, w2, b2)
    | (.err e, w2, b2) => (.err e, w2, b2)
    | (.panic, w2, b2) => (.panic, w2, b2)
    | (.ub, w2, b2) => (.ub, w2, b2)
    | (.fuel, w2, b2) => (.fuel, w2, b2)
  | (.err e, w1, b1) => (.err e, w1, b1)
  | (.panic, w1, b1) => (.panic, w1, b1)
  | (.ub, w1, b1) => (.ub, w1, b1)
  | (.fuel, w1, b1) => (.fuel, w1, b1)

/-- `BufWriter::write_vectored` -/
def bufWriteVectored (w : BaseWr) (b : Buffer) (bufs : List Bytes) : Res Nat × BaseWr × Buffer :=
  match flushIfNeeded w b with
  | (.ok (), w1, b1) =>
    match flushIfNeeded w1 (pushAll b1 0 bufs).2 with
    | (.ok (), w2, b2) => (.ok (pushAll b1 0 bufs).1, w2, b2)
    | (.err e, w2, b2) => (.err e, w2, b2)
    | (.panic, w2, b2) => (.panic, w2, b2)
    | (.ub, w2, b2) => (.ub, w2, b2)
    | (.fuel, w2, b2) => (.fuel, w2, b2)
  | (.err e, w1, b1) => (.err e, w1, b1)
  | (.panic, w1, b1) => (.panic, w1, b1)
  | (.ub, w1, b1) => (.ub, w1, b1)
  | (.fuel, w1, b1) => (.fuel, w1, b1)

def Wr.write : Wr → Bytes → Res Nat × Wr
  | .base w, data => ((w.write data).1, .base (w.write data).2)
  | .buf w b, data => ((bufWrite w b data).1, .buf (bufWrite w b data).2.1 (bufWrite w b data).2.2)

def Wr.writeVectored : Wr → List Bytes → Res Nat × Wr
  | .base w, bufs => ((w.writeVectored bufs).1, .base (w.writeVectored bufs).2)
  | .buf w b, bufs =>
    ((bufWriteVectored w b bufs).1, .buf (bufWriteVectored w b bufs).2.1 (bufWriteVectored w b bufs).2.2)

/-- `flush`: the scripted stream counts the call; `BufWriter::flush` only empties its buffer into
the inner writer (it does not call the inner `flush`) -/
def Wr.flush : Wr → Res Unit × Wr
  | .base w => (.ok (), .base w.flush)
  | .buf w b =>
    match flushTo w b with
    | (.ok _, w', b') => (.ok (), .buf w' b')
    | (.err e, w', b') => (.err e, .buf w' b')
    | (.panic, w', b') => (.panic, .buf w' b')
    | (.ub, w', b') => (.ub, .buf w' b')
    | (.fuel, w', b') => (.fuel, .buf w' b')

/-- `shutdown`: `BufWriter` flushes, then shuts the inner writer down -/
def Wr.shutdown : Wr → Res Unit × Wr
  | .base w => (.ok (), .base w.shutdown)
  | .buf w b =>
    match flushTo w b with
    | (.ok _, w', b') => (.ok (), .buf w'.shutdown b')
    | (.err e, w', b') => (.err e, .buf w' b')
    | (.panic, w', b') => (.panic, .buf w' b')
    | (.ub, w', b') => (.ub, .buf w' b')
    | (.fuel, w', b') => (.fuel, .buf w' b')

/-- `loop_write_all!` with `self.write(buf.slice(needle..))` -/
def writeAllLoop : Nat → Wr → Bytes → Nat → Res Unit × Wr
  | 0, w, _, _ => (.fuel, w)
  | fuel + 1, w, data, needle =>
    if needle < data.length then
      match w.write (data.drop needle) with
      | (.ok n, w') =>
        if n = 0 then (.err .writeZero, w') else writeAllLoop fuel w' data (needle + n)
      | (.err .interrupted, w') => writeAllLoop fuel w' data needle
      | (.err e, w') => (.err e, w')
      | (.panic, w') => (.panic, w')
      | (.ub, w') => (.ub, w')
      | (.fuel, w') => (.fuel, w')
    else (.ok (), w)

/-- `AsyncWriteExt::write_all` -/
def writeAll (fuel : Nat) (w : Wr) (data : Bytes) : Res Unit × Wr := writeAllLoop fuel w data 0

/-- `loop_write_all!` with `self.write_vectored(buf.slice(needle))` -/
def writeVectoredAllLoop : Nat → Wr → List Bytes → Nat → Nat → Res Unit × Wr
  | 0, w, _, _, _ => (.fuel, w)
  | fuel + 1, w, bufs, len, needle =>
    if needle < len then
      match w.writeVectored (vslice bufs needle) with
      | (.ok n, w') =>
        if n = 0 then (.err .writeZero, w') else writeVectoredAllLoop fuel w' bufs len (needle + n)
      | (.err .interrupted, w') => writeVectoredAllLoop fuel w' bufs len needle
      | (.err e, w') => (.err e, w')
      | (.panic, w') => (.panic, w')
      | (.ub, w') => (.ub, w')
      | (.fuel, w') => (.fuel, w')
    else (.ok (), w)

/-- `AsyncWriteExt::write_vectored_all` (`len = total_len()`) -/
def writeVectoredAll (fuel : Nat) (w : Wr) (bufs : List Bytes) : Res Unit × Wr :=
  writeVectoredAllLoop fuel w bufs (sumNat (bufs.map List.length)) 0

/-! ## copy -/

/-- the loop of `copy_with_size`: read into the (cleared) copy buffer of capacity `size`,
`write_all` it, `clear()` -/
def copyLoop : Nat → Rd → Wr → Nat → Nat → Res Nat × Rd × Wr
  | 0, r, w, _, _ => (.fuel, r, w)
  | fuel + 1, r, w, size, total =>
    match r.read size with
    | (.ok bs, r') =>
      if bs.length = 0 then
        -- `break`, then `writer.flush()`, `writer.shutdown()`
        match w.flush with
        | (.ok (), w1) =>
          match w1.shutdown with
          | (.ok (), w2) => (.ok total, r', w2)
          | (.err e, w2) => (.err e, r', w2)
          | (.panic, w2) => (.panic, r', w2)
          | (.ub, w2) => (.ub, r', w2)
          | (.fuel, w2) => (.fuel, r', w2)
        | (.err e, w1) => (.err e, r', w1)
        | (.panic, w1) => (.panic, r', w1)
        | (.ub, w1) => (.ub, r', w1)
        | (.fuel, w1) => (.fuel, r', w1)
      else
        match writeAll (fuel + 1) w bs with
        | (.ok (), w') => copyLoop fuel r' w' size (total + bs.length)
        | (.err e, w') => (.err e, r', w')
        | (.panic, w') => (.panic, r', w')
        | (.ub, w') => (.ub, r', w')
        | (.fuel, w') => (.fuel, r', w')
    | (.err .interrupted, r') => copyLoop fuel r' w size total
    | (.err e, r') => (.err e, r', w)
    | (.panic, r') => (.panic, r', w)
    | (.ub, r') => (.ub, r', w)
    | (.fuel, r') => (.fuel, r', w)

/-- `copy_with_size(reader, writer, size)` -/
def copy (fuel : Nat) (r : Rd) (w : Wr) (size : Nat) : Res Nat × Rd × Wr := copyLoop fuel r w size 0

/-! ## positional helpers over the in-memory `AsyncReadAt` / `AsyncWriteAt` implementations

`u64` position arithmetic (`pos + read as u64`) is not modelled as overflowing: a position from which
bytes were delivered lies below the source length, so the sum never exceeds it. -/

/-- `loop_read_exact!` with `self.read_at(buf.slice(read..), pos + read)` on `[u8]` / `Vec<u8>` -/
def readExactAtLoop : Nat → Bytes → VBuf → Nat → Nat → Nat → Res Unit × VBuf
  | 0, _, b, _, _, _ => (.fuel, b)
  | fuel + 1, src, b, pos, len, read =>
    if read < len then
      if b.data.length < read then (.panic, b)
      else if (readAt src (pos + read) (b.cap - read)).length = 0 then (.err .unexpectedEof, b)
      else
        readExactAtLoop fuel src (b.place read (readAt src (pos + read) (b.cap - read))) pos len
          (read + (readAt src (pos + read) (b.cap - read)).length)
    else (.ok (), b)

/-- `AsyncReadAtExt::read_exact_at` -/
def readExactAt (src : Bytes) (b : VBuf) (pos : Nat) : Res Unit × VBuf :=
  readExactAtLoop (b.cap + 1) src b pos b.cap 0

/-- `loop_read_to_end!` with `self.read_at(buffer.slice(start + total..), pos + total)` -/
def readToEndAtLoop : Nat → Bytes → VBuf → Nat → Nat → Nat → Res Nat × VBuf
  | 0, _, b, _, _, _ => (.fuel, b)
  | fuel + 1, src, b, pos, start, total =>
    let b1 := if b.data.length = b.cap then b.reserve 32 else b
    if b1.data.length < start + total then (.panic, b1)
    else if (readAt src (pos + total) (b1.cap - (start + total))).length = 0 then (.ok total, b1)
    else
      readToEndAtLoop fuel src (b1.place (start + total) (readAt src (pos + total) (b1.cap - (start + total))))
        pos start (total + (readAt src (pos + total) (b1.cap - (start + total))).length)

/-- `AsyncReadAtExt::read_to_end_at` (repaired: appends) -/
def readToEndAt (src : Bytes) (b : VBuf) (pos : Nat) : Res Nat × VBuf :=
  readToEndAtLoop (src.length + 2) src b pos b.data.length 0

/-- `loop_read_exact!` with `self.read_vectored_at(buf.slice_mut(read), pos + read)` -/
def readVectoredExactAtLoop : Nat → Bytes → List MBuf → Nat → Nat → Nat → Res Unit × List MBuf
  | 0, _, bufs, _, _, _ => (.fuel, bufs)
  | fuel + 1, src, bufs, pos, len, read =>
    if read < len then
      match readVectoredAt src (pos + read) (VS.sliceMut bufs read) with
      | (.ok n, vs) =>
        if n = 0 then (.err .unexpectedEof, vs.bufs)
        else readVectoredExactAtLoop fuel src vs.bufs pos len (read + n)
      | (.err e, vs) => (.err e, vs.bufs)
      | (.panic, vs) => (.panic, vs.bufs)
      | (.ub, vs) => (.ub, vs.bufs)
      | (.fuel, vs) => (.fuel, vs.bufs)
    else (.ok (), bufs)

/-- `AsyncReadAtExt::read_vectored_exact_at` -/
def readVectoredExactAt (src : Bytes) (bufs : List MBuf) (pos : Nat) : Res Unit × List MBuf :=
  readVectoredExactAtLoop (sumNat (viewCaps bufs 0) + 1) src bufs pos (sumNat (viewCaps bufs 0)) 0

/-- an in-memory positional destination: `Vec<u8>` (grows) or `[u8]` (fixed) -/
inductive AtDst where
  | vec (v : Bytes)
  | arr (a : Bytes)
  deriving Repr, DecidableEq

def AtDst.bytes : AtDst → Bytes
  | .vec v => v
  | .arr a => a

def AtDst.writeAt : AtDst → Nat → Bytes → Res Nat × AtDst
  | .vec v, pos, bs =>
    match vecWriteAt v pos bs with
    | .ok (n, v') => (.ok n, .vec v')
    | .err e => (.err e, .vec v)
    | .panic => (.panic, .vec v)
    | .ub => (.ub, .vec v)
    | .fuel => (.fuel, .vec v)
  | .arr a, pos, bs => (.ok (sliceWriteAt a pos bs).1, .arr (sliceWriteAt a pos bs).2)

def AtDst.writeVectoredAt : AtDst → Nat → List Bytes → Res Nat × AtDst
  | .vec v, pos, bufs =>
    match vecWriteVectoredAt v pos bufs with
    | .ok (n, v') => (.ok n, .vec v')
    | .err e => (.err e, .vec v)
    | .panic => (.panic, .vec v)
    | .ub => (.ub, .vec v)
    | .fuel => (.fuel, .vec v)
  | .arr a, pos, bufs => (.ok (sliceWriteVectoredAt a pos bufs).1, .arr (sliceWriteVectoredAt a pos bufs).2)

/-- `loop_write_all!` with `self.write_at(buf.slice(needle..), pos + needle)` -/
def writeAllAtLoop : Nat → AtDst → Nat → Bytes → Nat → Res Unit × AtDst
  | 0, d, _, _, _ => (.fuel, d)
  | fuel + 1, d, pos, data, needle =>
    if needle < data.length then
      match d.writeAt (pos + needle) (data.drop needle) with
      | (.ok n, d') =>
        if n = 0 then (.err .writeZero, d') else writeAllAtLoop fuel d' pos data (needle + n)
      | (.err e, d') => (.err e, d')
      | (.panic, d') => (.panic, d')
      | (.ub, d') => (.ub, d')
      | (.fuel, d') => (.fuel, d')
    else (.ok (), d)

/-- `AsyncWriteAtExt::write_all_at` -/
def writeAllAt (d : AtDst) (pos : Nat) (data : Bytes) : Res Unit × AtDst :=
  writeAllAtLoop (data.length + 1) d pos data 0

/-- `loop_write_all!` with `self.write_vectored_at(buf.slice(needle), pos + needle)` -/
def writeVectoredAllAtLoop : Nat → AtDst → Nat → List Bytes → Nat → Nat → Res Unit × AtDst
  | 0, d, _, _, _, _ => (.fuel, d)
  | fuel + 1, d, pos, bufs, len, needle =>
    if needle < len then
      match d.writeVectoredAt (pos + needle) (vslice bufs needle) with
      | (.ok n, d') =>
        if n = 0 then (.err .writeZero, d') else writeVectoredAllAtLoop fuel d' pos bufs len (needle + n)
      | (.err e, d') => (.err e, d')
      | (.panic, d') => (.panic, d')
      | (.ub, d') => (.ub, d')
      | (.fuel, d') => (.fuel, d')
    else (.ok (), d)

/-- `AsyncWriteAtExt::write_vectored_all_at` -/
def writeVectoredAllAt (d : AtDst) (pos : Nat) (bufs : List Bytes) : Res Unit × AtDst :=
  writeVectoredAllAtLoop (sumNat (bufs.map List.length) + 1) d pos bufs (sumNat (bufs.map List.length)) 0


/-! ## read_to_string / read_to_string_at (read/ext.rs `after_read_to_string`) -/

def inRange (b lo hi : UInt8) : Bool := lo ≤ b && b ≤ hi

/-- well-formed UTF-8 (`String::from_utf8` succeeds): Unicode table 3-7 — no overlong forms, no
surrogates, nothing above U+10FFFF, no truncated character -/
def validUtf8 : Bytes → Bool
  | [] => true
  | b0 :: rest =>
    if b0 < 0x80 then validUtf8 rest
    else if inRange b0 0xC2 0xDF then
      match rest with
      | b1 :: r => inRange b1 0x80 0xBF && validUtf8 r
      | _ => false
    else if inRange b0 0xE0 0xEF then
      match rest with
      | b1 :: b2 :: r =>
        (if b0 = 0xE0 then inRange b1 0xA0 0xBF
          else if b0 = 0xED then inRange b1 0x80 0x9F
          else inRange b1 0x80 0xBF) && inRange b2 0x80 0xBF && validUtf8 r
      | _ => false
    else if inRange b0 0xF0 0xF4 then
      match rest with
      | b1 :: b2 :: b3 :: r =>
        (if b0 = 0xF0 then inRange b1 0x90 0xBF
          else if b0 = 0xF4 then inRange b1 0x80 0x8F
          else inRange b1 0x80 0xBF) && inRange b2 0x80 0xBF && inRange b3 0x80 0xBF && validUtf8 r
      | _ => false
    else false

/-- outcome of `read_to_string`: `invalidData` = `ErrorKind::InvalidData` (the bytes are not UTF-8) -/
inductive StrRes where
  | ok (n : Nat)
  | invalidData
  | err (e : IoErr)
  | panic
  | ub
  | fuel
  deriving Repr, DecidableEq

/-- `after_read_to_string(res, buf)`: after an I/O error the bytes read so far are kept when they are
UTF-8 and the buffer is *cleared* otherwise; after `Ok`, invalid bytes give `InvalidData` and a fresh
empty `String` -/
def afterReadToString (res : Res Nat) (b : VBuf) : StrRes × VBuf :=
  match res with
  | .ok n => if validUtf8 b.data then (.ok n, b) else (.invalidData, ⟨[], 0⟩)
  | .err e => if validUtf8 b.data then (.err e, b) else (.err e, { b with data := [] })
  | .panic => (.panic, b)
  | .ub => (.ub, b)
  | .fuel => (.fuel, b)

/-- `AsyncReadExt::read_to_string`: `read_to_end` on the bytes of the `String`, then one validation -/
def readToString (fuel : Nat) (r : Rd) (b : VBuf) : StrRes × Rd × VBuf :=
  ((afterReadToString (readToEnd fuel r b).1 (readToEnd fuel r b).2.2).1, (readToEnd fuel r b).2.1,
    (afterReadToString (readToEnd fuel r b).1 (readToEnd fuel r b).2.2).2)

/-- `AsyncReadAtExt::read_to_string_at` -/
def readToStringAt (src : Bytes) (b : VBuf) (pos : Nat) : StrRes × VBuf :=
  afterReadToString (readToEndAt src b pos).1 (readToEndAt src b pos).2

end Compio.Io
