/-
Model of compio-io/src/ancillary/{mod.rs,sys.rs} on Linux x86-64:
`cmsghdr { cmsg_len : usize (8 bytes LE), cmsg_level : i32, cmsg_type : i32 }` = 16 bytes,
`CMSG_ALIGN(n) = (n + 7) & !7`, `CMSG_SPACE(n) = ALIGN(n) + 16`, `CMSG_LEN(n) = 16 + n`,
`CMSG_FIRSTHDR`, `CMSG_NXTHDR` as defined by the `libc` crate, the builder (`AncillaryBuilder::push`),
the iterator (`AncillaryIter`) and `CMsgRef::decode_data`.
Levels and types are kept as their 4 raw bytes (two's complement is the harness' business).
-/
import Compio.Model.Frame

namespace Compio.Cmsg
open Compio.Frame (leBytes leVal)

def hdr : Nat := 16
def align (n : Nat) : Nat := (n + 7) / 8 * 8
def space (n : Nat) : Nat := align n + hdr
def cmsgLen (n : Nat) : Nat := hdr + n

/-- bytes `off .. off+n` of `buf` (reads beyond the end see nothing: shorter result) -/
def sub (buf : Bytes) (off n : Nat) : Bytes := (buf.drop off).take n

/-- replace bytes at `off` by `bs` (inside the buffer) -/
def patch (buf : Bytes) (off : Nat) (bs : Bytes) : Bytes :=
  buf.take off ++ bs ++ buf.drop (off + bs.length)

structure Header where
  len : Nat          -- cmsg_len
  level : Bytes      -- 4 bytes
  ty : Bytes         -- 4 bytes
  deriving Repr, DecidableEq

def readHeader (buf : Bytes) (off : Nat) : Header :=
  ⟨leVal (sub buf off 8), sub buf (off + 8) 4, sub buf (off + 12) 4⟩

/-- `CMSG_NXTHDR` relative to the buffer start; `len` = `msg_controllen` -/
def nxthdr (buf : Bytes) (len off : Nat) : Option Nat :=
  let h := readHeader buf off
  if h.len < hdr then none
  else
    let next := off + align h.len
    if next + hdr > len then none else some next

/-- `CMsgIter::new`: panics when `len < CMSG_SPACE(0)`; `CMSG_FIRSTHDR` -/
def firsthdr (len : Nat) : Option Nat := if len ≥ hdr then some 0 else none

/-- `AncillaryIter`: headers of all messages, in order. `fuel` bounds the walk; `iterFuel`
suffices for every buffer (theorem `iter_terminates`). -/
def iterFrom (buf : Bytes) : Nat → Option Nat → List (Nat × Header)
  | 0, _ => []
  | _, none => []
  | fuel + 1, some off => (off, readHeader buf off) :: iterFrom buf fuel (nxthdr buf buf.length off)

def iterFuel (buf : Bytes) : Nat := buf.length / hdr + 1

inductive IterResult where
  | panic
  | msgs (l : List (Nat × Header))
  deriving Repr

def iter (buf : Bytes) : IterResult :=
  if buf.length < space 0 then .panic else .msgs (iterFrom buf (iterFuel buf) (firsthdr buf.length))

/-- result of `AncillaryRef::data::<[u8; n]>()` -/
inductive Decoded where
  | ok (bs : Bytes)
  | small
  deriving Repr, DecidableEq

/-- `CMsgRef::decode_data` after the repair of finding F7b: the decoder sees `cmsg_len - CMSG_LEN(0)` bytes -/
def decodeData (buf : Bytes) (off : Nat) (n : Nat) : Decoded :=
  let h := readHeader buf off
  if h.len - cmsgLen 0 < n then .small else .ok (sub buf (off + hdr) n)

/-- the pinned tree (finding F7b): the decoder was given `cmsg_len` bytes starting at the data;
`mem` is the memory that follows the buffer -/
def decodeDataUnfixed (buf mem : Bytes) (off : Nat) (n : Nat) : Decoded :=
  let h := readHeader buf off
  if h.len < n then .small else .ok (sub (buf ++ mem) (off + hdr) n)

/-! ### builder -/

structure Builder where
  cap : Nat
  bytes : Bytes        -- the whole zero-filled capacity, `bytes.length = cap`
  len : Nat            -- `buf_len` (how much of it is reported initialised)
  offset : Option Nat
  deriving Repr

inductive PushResult where
  | ok
  | small
  deriving Repr, DecidableEq

inductive NewResult where
  | panic
  | ok (b : Builder)

def Builder.new (cap : Nat) : NewResult :=
  if cap < space 0 then .panic
  else .ok ⟨cap, List.replicate cap 0, 0, firsthdr cap⟩

/-- `AncillaryBuilder::push(level, ty, value)` with `T::SIZE = data.length` -/
def Builder.push (b : Builder) (level ty data : Bytes) : Builder × PushResult :=
  match b.offset with
  | none => (b, .small)
  | some off =>
    if off + space data.length ≤ b.cap then
      let bytes := patch b.bytes off (leBytes 8 (cmsgLen data.length) ++ level ++ ty ++ data)
      ({ b with bytes := bytes, len := b.len + space data.length,
                offset := nxthdr bytes b.cap off }, .ok)
    else (b, .small)

def Builder.pushAll (b : Builder) : List (Bytes × Bytes × Bytes) → Builder × List PushResult
  | [] => (b, [])
  | (l, t, d) :: rest =>
    let (b', r) := b.push l t d
    let (b'', rs) := b'.pushAll rest
    (b'', r :: rs)

/-- the initialised part handed to `sendmsg` / iterated afterwards -/
def Builder.finish (b : Builder) : Bytes := b.bytes.take b.len

/-! ### builder with payload encoders that may fail (`AncillaryData::encode` returning `Err`) -/

inductive PushOutcome where
  | ok
  | small
  | refused
  deriving Repr, DecidableEq

/-- `AncillaryBuilder::push(level, ty, value)` for a payload type whose `AncillaryData::encode` may
fail (`refuse`). Order of the code: `is_space_enough` first (`BufferTooSmall`); then level, type and
`cmsg_len` are written into the slot and the encoder runs; its `Err` leaves through `?` *before*
`buffer.advance(..)` and `inner.next(..)`, so neither the length nor the cursor moves.
The 16 header bytes a refused push has written lie beyond `buf_len`, are not part of the finished
buffer and are overwritten completely by the next accepted push (same offset, full header); the
model keeps them zero. -/
def Builder.pushR (b : Builder) (refuse : Bool) (level ty data : Bytes) : Builder × PushOutcome :=
  match b.offset with
  | none => (b, .small)
  | some off =>
    if off + space data.length ≤ b.cap then
      if refuse then (b, .refused) else ((b.push level ty data).1, .ok)
    else (b, .small)

def Builder.pushAllR (b : Builder) : List (Bool × Bytes × Bytes × Bytes) → Builder × List PushOutcome
  | [] => (b, [])
  | (rf, l, t, d) :: rest =>
    let (b', r) := b.pushR rf l t d
    let (b'', rs) := b'.pushAllR rest
    (b'', r :: rs)

end Compio.Cmsg
