/-
Model of the cross-thread wake-up protocol of compio (property C03).

Actors
* waker threads `w < cfg.nw`, each running one call at a time of either
  - the driver waker (`Notify::wake_by_ref`, sys/driver/iour/notify.rs and sys/driver/poll/mod.rs): this is the
    waker of the main future (`Runtime::waker`), or
  - a task waker on a foreign thread = `Remote::schedule` (compio-executor/src/task/remote.rs);
* the runtime thread, running `Runtime::block_on_at` (compio-runtime/src/lib.rs) or compio-compat's `drive`
  loop (external event loop), i.e. poll main future, `Executor::tick` (`drain_sync` + run at most `max_interval`
  hot tasks with the prefetching iterator), then `Driver::poll` / `flush → wait on fd → clear → poll_with(0)`;
  same-thread wakes (`Local::schedule`, task/local.rs) happen inside polls;
* the kernel, deterministic and immediate: an eventfd counter, the io_uring multishot PollAdd on it
  (`NEED_PUSH_NOTIFIER`/queued in the SQ/armed), the NOTIFY completion, the eventfd registered with the ring by
  compio-compat (`xfd`), and for the polling driver the `polling` crate's `notified` flag + its eventfd.

Every atomic access is one `step`; an interleaving is a `List Event`. Steps that touch only thread-private data
are merged into the neighbouring atomic step. All accesses to the awake flag and to the task word go through
the definitions REGENERATED from the sources (Compio.Gen.AwakeFlag, Compio.Gen.TaskState). Atomics are
sequentially consistent here; see Props/C03.lean for the ordering table.

Two switches keep earlier/defective orders available for the counter-examples:
* `flushArms = false`: `iour::Driver::flush` before commit b814cbc (finding F16, `flushUnfixed`);
* `rewake = false`: `Remote::schedule` as it is in the tree: after a full-queue spin the driver is NOT woken
  after the push (finding F030). `rewake = true` is the proposed one-line repair.
-/
import Compio.Gen.AwakeFlag
import Compio.Gen.TaskState

namespace Compio.Wake
open Compio.TaskWord
open Compio.Gen

inductive Drv where
  | iour | poll
  deriving DecidableEq, Repr

inductive Loop where
  | own | ext
  deriving DecidableEq, Repr

structure Cfg where
  drv : Drv
  loop : Loop
  q : Nat              -- sync_queue_size
  maxInt : Nat         -- max_interval (event_interval)
  nw : Nat             -- number of waker threads
  flushArms : Bool     -- iour flush arms the notifier (post b814cbc)
  rewake : Bool        -- Remote::schedule wakes the driver after a push that followed a spin (repair of F030)
  sqcap : Nat := 1024  -- io_uring submission queue capacity (`ProactorBuilder::capacity`)
  deriving DecidableEq, Repr

/-- state of the notifier's multishot `PollAdd` -/
inductive Arm where
  | needPush           -- `NEED_PUSH_NOTIFIER` set
  | queued             -- SQE pushed, not yet submitted
  | live               -- armed in the kernel
  deriving DecidableEq, Repr

inductive Kind where
  | main               -- the driver waker itself (waker of the main future)
  | task (t : Nat)     -- a task waker used on a foreign thread
  deriving DecidableEq, Repr

/-- program counter of a waker thread: the NEXT atomic action it performs -/
inductive WPc where
  | idle               -- not inside a call
  | sched              -- `start_scheduling` (fetch_or SCHEDULED|SCHEDULING)
  | load               -- `header.shared.load`
  | reserve            -- `pending.fetch_add(1)`
  | push               -- `sync.push(id)`
  | spin               -- queue was full and the driver already woken: `state.load().is_cancelled()`
  | dwake              -- `AwakeFlag::wake` (fetch_or NOTIFIED)
  | cas                -- polling crate: `notified.compare_exchange(false, true)`
  | write              -- `write(eventfd, 1)`
  | fin                -- `finish_scheduling`, then return
  deriving DecidableEq, Repr

structure Wk where
  pc : WPc
  kind : Kind
  notified : Bool      -- local `notified`
  pushed : Bool        -- the id is in the queue
  seq0 : Nat           -- ghost: poll sequence number of the target at the linearisation point of this call
  deriving DecidableEq, Repr

def Wk.init : Wk := ⟨.idle, .main, false, false, 0⟩

/-- where a same-thread wake returns to -/
inductive Back where
  | main
  | task (cur : Nat) (nxt : Option Nat) (k : Nat)
  deriving DecidableEq, Repr

inductive Ret where
  | tick
  | loc (t : Nat) (b : Back)
  deriving DecidableEq, Repr

/-- program counter of the runtime thread: the NEXT action -/
inductive RtPc where
  | mainStart                          -- start polling the main future
  | poll (b : Back)                    -- inside a poll: of the main future, or of task `cur` during the tick
                                       -- (`nxt` = the iterator's prefetched `curr`, `k` = remaining budget)
  | drainCheck (r : Ret)               -- `pending.load() == 0`
  | draining (r : Ret) (d : Nat)       -- `sync.pop()` loop, `d` drained so far
  | lwake (b : Back)                   -- Local::schedule: driver waker, fetch_or
  | lcas (b : Back)
  | lwrite (b : Back)
  | run (nxt : Option Nat) (k : Nat)   -- tick loop: iterator's `curr`, remaining budget
  | xarm | xsubmit | xreset            -- external loop: `flush`
  | xwait                              -- external loop waits on the fd
  | xclear                             -- adapter `clear`
  | reset | arm | submit | wait        -- `Driver::poll`
  | pclear | pswap                     -- polling crate, after epoll_wait: clear its eventfd, `notified.swap(false)`
  | setAwake1 | consume | clear | setAwake2
  deriving DecidableEq, Repr

structure State where
  cfg : Cfg
  -- driver + kernel
  flag : Nat
  efd : Nat
  arm : Arm
  cq : Bool
  xfd : Nat
  pnot : Bool
  needWait : Bool
  zero : Bool                 -- the next wait has a zero timeout
  sq : Nat                    -- io_uring: entries pushed to the submission queue and not yet submitted
  -- executor
  word : Nat → Word
  dropped : Nat → Bool        -- `Task::drop` by the executor (`shared` = null, removed from the map)
  sync : List Nat
  pending : Nat
  hot : List Nat
  -- threads
  rt : RtPc
  wk : Nat → Wk
  -- ghost
  mainSeq : Nat
  mainWoken : Bool            -- a wake of the main future returned and no poll of it started since it took effect
  pollSeq : Nat → Nat
  woken : Nat → Bool          -- the same for task t
  polls : Nat → Nat
  mainPolls : Nat
  log : List Nat              -- task polls, in order
  uflow : Bool                -- a `fetch_sub` on `pending` wrapped around

def upd {α : Type} (f : Nat → α) (i : Nat) (v : α) : Nat → α := fun j => if j = i then v else f j

@[simp] theorem upd_same {α : Type} (f : Nat → α) (i : Nat) (v : α) : upd f i v i = v := by simp [upd]
theorem upd_other {α : Type} (f : Nat → α) (i j : Nat) (v : α) (h : j ≠ i) : upd f i v j = f j := by simp [upd, h]

def init (cfg : Cfg) : State :=
  { cfg := cfg, flag := AwakeFlag.new, efd := 0, arm := .needPush, cq := false, xfd := 0, pnot := false,
    needWait := false, zero := false, sq := 0,
    word := fun _ => TaskState.new 2, dropped := fun _ => false, sync := [], pending := 0, hot := [],
    rt := .mainStart, wk := fun _ => Wk.init,
    mainSeq := 0, mainWoken := false, pollSeq := fun _ => 0, woken := fun _ => false, polls := fun _ => 0,
    mainPolls := 0, log := [], uflow := false }

/-! ### kernel

All helpers below are single record updates of the state (their right-hand sides are component functions),
so that `simp` flattens a step into one record. -/

/-- does a write to the notifier's eventfd post a completion (io_uring, multishot poll armed)? -/
def posts (s : State) : Bool :=
  match s.cfg.drv with
  | .iour => s.arm == .live
  | .poll => false

/-- `write(eventfd, 1)` (io_uring notifier) / the polling crate's `notifier.notify()`; a completion posted for
the notifier's poll makes the CQ non-empty and signals the eventfd registered with the ring -/
def kWrite (s : State) : State :=
  { s with efd := s.efd + 1, cq := s.cq || posts s, xfd := s.xfd + (if posts s then 1 else 0) }

/-- what the kernel wait looks at -/
def signal (s : State) : Bool :=
  match s.cfg.drv with
  | .iour => s.cq
  | .poll => decide (s.efd > 0)

/-- readiness of the descriptor an external loop waits on (compio-compat: the eventfd registered with the
ring for io_uring, the poller's own fd otherwise) -/
def fdReadable (s : State) : Bool :=
  match s.cfg.drv with
  | .iour => decide (s.xfd > 0)
  | .poll => decide (s.efd > 0)

/-- readiness of `Runtime::as_raw_fd()` itself -/
def ringReadable (s : State) : Bool :=
  match s.cfg.drv with
  | .iour => s.cq
  | .poll => decide (s.efd > 0)

/-! ### driver steps (runtime thread) -/

/-- does `arm_notifier` push the PollAdd (`NEED_PUSH_NOTIFIER` set)? -/
def armPushes (s : State) : Bool :=
  match s.cfg.drv with
  | .iour => s.arm == .needPush
  | .poll => false

/-- does the submission arm the notifier's poll in the kernel? -/
def submits (s : State) : Bool :=
  match s.cfg.drv with
  | .iour => s.arm == .queued
  | .poll => false

/-- `push_raw` when the submission queue is FULL: `submit_auto(0, true)` (everything queued goes to the kernel, a
notifier poll armed on an already readable eventfd completes at once), then `poll_entries` — the completion
queue is reaped in the middle of whatever the runtime thread is doing: a NOTIFY completion is consumed and the
eventfd cleared, THE AWAKE FLAG IS NOT TOUCHED — then the entry is pushed (it is alone in the queue).
One step here; in `Driver::poll` the same reaping is the two steps `consume`, `clear`. -/
def overflowPush (s : State) : State :=
  { s with arm := if submits s then .live else s.arm,
           cq := false,
           efd := if s.cq || (submits s && decide (s.efd > 0)) then 0 else s.efd,
           xfd := s.xfd + (if submits s && decide (s.efd > 0) then 1 else 0),
           sq := 1 }

/-- the submission half of `submit_auto`; a poll armed on an already readable eventfd completes at once -/
def doSubmit (s : State) : State :=
  { s with arm := if submits s then .live else s.arm,
           cq := s.cq || (submits s && decide (s.efd > 0)),
           xfd := s.xfd + (if submits s && decide (s.efd > 0) then 1 else 0),
           sq := 0 }

/-! ### executor helpers -/

/-- `TaskQueue::make_hot`: only an id that is in the map and cold moves, to the hot tail -/
def hotPush (dropped : Nat → Bool) (hot : List Nat) (t : Nat) : List Nat :=
  if dropped t || hot.contains t then hot else hot ++ [t]

def makeHot (s : State) (t : Nat) : State := { s with hot := hotPush s.dropped s.hot t }

/-- `TaskQueue::next_hot` -/
def nextHot : List Nat → Nat → Option Nat
  | [], _ => none
  | x :: rest, id => if x = id then rest.head? else nextHot rest id

/-- end of `Executor::tick` (`queue.has_hot()`), then the caller's next action -/
def afterTick (s : State) : State :=
  match s.cfg.loop with
  | .own => { s with zero := !s.hot.isEmpty, rt := .reset }
  | .ext => { s with zero := !s.hot.isEmpty, rt := .xarm }

/-- end of `drain_sync` -/
def drainDone (s : State) (r : Ret) : State :=
  match r with
  | .tick => { s with rt := .run s.hot.head? s.cfg.maxInt }
  | .loc t b => { s with hot := hotPush s.dropped s.hot t, rt := .lwake b }

/-- `pending.fetch_sub(n)` -/
def subPending (s : State) (n : Nat) : State :=
  { s with pending := s.pending - n, uflow := s.uflow || decide (s.pending < n) }

/-- `Task::drop` by the executor + `queue.remove` -/
def dropTask (s : State) (t : Nat) : State :=
  { s with word := upd s.word t (TaskState.setDropped (s.word t)), dropped := upd s.dropped t true,
           hot := s.hot.erase t }

/-! ### the runtime thread -/

/-- choices of the runtime thread that are not determined by the state -/
inductive RtEv where
  | go                 -- the poll in progress returns Pending / the wait is attempted / `more` flag set
  | loc (t : Nat)      -- the future being polled wakes task t (`Local::schedule`)
  | ready              -- the task being polled completes
  | push               -- the future being polled submits an operation (`Driver::push` → `push_raw`)
  | pushNoMore         -- the same, the queue is full and the NOTIFY completion reaped on the overflow path comes
                       -- without `IORING_CQE_F_MORE`: the kernel has terminated the multishot poll (CQ was full / error)
  | noMore             -- the NOTIFY completion comes without `IORING_CQE_F_MORE`
  | timeout            -- the kernel wait returns because of its timeout (timers) / a spurious return
  deriving DecidableEq, Repr

/-- `make_cold`, `take`, and the first action of `Task::run`: `unschedule` (a poll of t starts here) -/
def startPoll (s : State) (t : Nat) : State :=
  { s with hot := s.hot.erase t, word := upd s.word t (TaskState.unschedule (s.word t)),
           pollSeq := upd s.pollSeq t (s.pollSeq t + 1), woken := upd s.woken t false }

def startLocal (s : State) (t : Nat) (b : Back) : State :=
  -- `header.shared.load()` null: "Executor dropped", nothing happens
  if s.dropped t then s else { s with rt := .drainCheck (.loc t b) }

def rtStep (s : State) (e : RtEv) : Option State :=
  match s.rt, e with
  | .mainStart, .go =>
    some { s with rt := .poll .main, mainWoken := false, mainSeq := s.mainSeq + 1, mainPolls := s.mainPolls + 1 }
  | .poll .main, .go => some { s with rt := .drainCheck .tick }
  | .poll (.task _ nxt k), .go => some { s with rt := .run nxt k }
  | .poll (.task t nxt k), .ready =>
    some { (dropTask { s with word := upd s.word t (TaskState.finishRunning (s.word t)) } t) with rt := .run nxt k }
  | .poll b, .loc t => some (startLocal s t b)
  | .poll _, .push =>
    match s.cfg.drv with
    | .poll => some s
    | .iour => if s.sq < s.cfg.sqcap then some { s with sq := s.sq + 1 } else some (overflowPush s)
  | .poll _, .pushNoMore =>
    match s.cfg.drv with
    | .poll => none
    | .iour =>
      if s.sq < s.cfg.sqcap then none
      else if s.cq || (submits s && decide (s.efd > 0)) then some { (overflowPush s) with arm := .needPush }
      else none
  | .drainCheck r, .go =>
    if s.pending = 0 then some (drainDone s r) else some { s with rt := .draining r 0 }
  | .draining r d, .go =>
    match s.sync with
    | [] => some (drainDone (if d = 0 then s else subPending s d) r)
    | x :: rest => some { s with sync := rest, hot := hotPush s.dropped s.hot x, rt := .draining r (d + 1) }
  | .lwake b, .go =>
    if (AwakeFlag.wake s.flag).2 then some { s with flag := (AwakeFlag.wake s.flag).1, rt := .poll b }
    else match s.cfg.drv with
      | .iour => some { s with flag := (AwakeFlag.wake s.flag).1, rt := .lwrite b }
      | .poll => some { s with flag := (AwakeFlag.wake s.flag).1, rt := .lcas b }
  | .lcas b, .go =>
    if s.pnot then some { s with rt := .poll b } else some { s with pnot := true, rt := .lwrite b }
  | .lwrite b, .go => some { (kWrite s) with rt := .poll b }
  | .run nxt k, .go =>
    match k, nxt with
    | 0, _ => some (afterTick s)
    | _ + 1, none => some (afterTick s)
    | k + 1, some t =>
      if s.dropped t then some (afterTick s)
      -- cancelled: `Task::run` returns Ready without polling, the tick drops the task
      else if TaskState.isCancelled (s.word t) then
        some { (dropTask (startPoll s t) t) with rt := .run (nextHot s.hot t) k }
      else some { (startPoll s t) with polls := upd s.polls t (s.polls t + 1), log := s.log ++ [t],
                                       rt := .poll (.task t (nextHot s.hot t) k) }
  -- external loop: `flush`
  -- `arm_notifier`: if `NEED_PUSH_NOTIFIER`, `push_raw` the multishot PollAdd (overflow path when the submission
  -- queue is full) and clear the flag
  | .xarm, .go =>
    if s.cfg.flushArms && armPushes s then
      if s.sq < s.cfg.sqcap then some { s with arm := .queued, sq := s.sq + 1, rt := .xsubmit }
      else some { (overflowPush s) with arm := .queued, rt := .xsubmit }
    else some { s with rt := .xsubmit }
  | .xsubmit, .go => some { (doSubmit s) with rt := .xreset }
  | .xreset, .go =>
    some { s with flag := (AwakeFlag.reset s.flag).1, zero := s.zero || (AwakeFlag.reset s.flag).2, rt := .xwait }
  | .xwait, .go => if s.zero || fdReadable s then some { s with rt := .xclear } else none
  | .xwait, .timeout => some { s with rt := .xclear }
  | .xclear, .go => some { s with xfd := 0, rt := .reset }
  -- `Driver::poll`
  | .reset, .go =>
    some { s with flag := (AwakeFlag.reset s.flag).1, needWait := !(AwakeFlag.reset s.flag).2, rt := .arm }
  | .arm, .go =>
    if armPushes s then
      if s.sq < s.cfg.sqcap then some { s with arm := .queued, sq := s.sq + 1, rt := .submit }
      else some { (overflowPush s) with arm := .queued, rt := .submit }
    else some { s with rt := .submit }
  | .submit, .go => some { (doSubmit s) with rt := .wait }
  | .wait, .go =>
    match s.cfg.drv with
    | .iour =>
      if !s.needWait || s.cq then some { s with rt := .setAwake1 }
      -- `submit_auto` returns TimedOut, `poll` returns early WITHOUT `set_awake`
      else if s.zero || s.cfg.loop = .ext then some { s with rt := .mainStart }
      else none
    | .poll =>
      if !s.needWait || s.efd > 0 || s.zero || s.cfg.loop = .ext then some { s with rt := .pclear } else none
  | .wait, .timeout =>
    match s.cfg.drv with
    | .iour => if s.needWait && !s.cq then some { s with rt := .mainStart } else none
    | .poll => some { s with rt := .pclear }
  | .pclear, .go => some { s with efd := 0, rt := .pswap }
  | .pswap, .go => some { s with pnot := false, rt := .setAwake1 }
  | .setAwake1, .go =>
    match s.cfg.drv with
    | .iour => some { s with flag := AwakeFlag.set s.flag, rt := .consume }
    | .poll => some { s with flag := AwakeFlag.set s.flag, rt := .setAwake2 }
  | .consume, .go => if s.cq then some { s with cq := false, rt := .clear } else some { s with rt := .setAwake2 }
  | .consume, .noMore =>
    if s.cq then some { s with cq := false, arm := .needPush, rt := .clear } else none
  | .clear, .go => some { s with efd := 0, rt := .setAwake2 }
  | .setAwake2, .go => some { s with flag := AwakeFlag.set s.flag, rt := .mainStart }
  | _, _ => none

/-! ### waker threads -/

def setWk (s : State) (w : Nat) (k : Wk) : State := { s with wk := upd s.wk w k }

/-- the driver waker returned to a `wake_by_ref` of the main future's waker: the call is over -/
def mainDone (s : State) (w : Nat) (seq0 : Nat) : State :=
  { s with mainWoken := s.mainWoken || (seq0 == s.mainSeq), wk := upd s.wk w { (s.wk w) with seq0 := seq0, pc := .idle } }

def wStep (s : State) (w : Nat) : Option State :=
  match (s.wk w).pc, (s.wk w).kind with
  | .sched, .task t =>
    if TaskState.isScheduled (s.word t) || TaskState.isCompleted (s.word t) || TaskState.isCancelled (s.word t) then
      -- coalesced with an earlier wake, or the task is finished
      some (setWk { s with word := upd s.word t (TaskState.startScheduling (s.word t)) } w
              { (s.wk w) with seq0 := s.pollSeq t, pc := .fin })
    else
      some (setWk { s with word := upd s.word t (TaskState.startScheduling (s.word t)) } w
              { (s.wk w) with seq0 := s.pollSeq t, pc := .load })
  | .load, .task t =>
    if s.dropped t then some (setWk s w { (s.wk w) with pc := .fin })
    else some (setWk s w { (s.wk w) with pc := .reserve })
  | .reserve, .task _ => some (setWk { s with pending := s.pending + 1 } w { (s.wk w) with pc := .push })
  | .push, .task t =>
    if s.sync.length < s.cfg.q then
      if (s.wk w).notified && !s.cfg.rewake then
        some (setWk { s with sync := s.sync ++ [t] } w { (s.wk w) with pushed := true, pc := .fin })
      else some (setWk { s with sync := s.sync ++ [t] } w { (s.wk w) with pushed := true, pc := .dwake })
    else if !(s.wk w).notified then some (setWk s w { (s.wk w) with notified := true, pc := .dwake })
    else some (setWk s w { (s.wk w) with pc := .spin })
  | .spin, .task t =>
    if TaskState.isCancelled (s.word t) then some (setWk (subPending s 1) w { (s.wk w) with pc := .fin })
    else some (setWk s w { (s.wk w) with pc := .push })
  -- the driver waker: `if !awake.wake() { signal }`
  | .dwake, .main =>
    if (AwakeFlag.wake s.flag).2 then some (mainDone { s with flag := (AwakeFlag.wake s.flag).1 } w s.mainSeq)
    else match s.cfg.drv with
      | .iour => some (setWk { s with flag := (AwakeFlag.wake s.flag).1 } w
                        { (s.wk w) with seq0 := s.mainSeq, pc := .write })
      | .poll => some (setWk { s with flag := (AwakeFlag.wake s.flag).1 } w
                        { (s.wk w) with seq0 := s.mainSeq, pc := .cas })
  | .dwake, .task _ =>
    if (AwakeFlag.wake s.flag).2 then
      -- the driver waker returned: after the push the call finishes, before it (the queue was full) the thread
      -- goes back to the push loop
      if (s.wk w).pushed then some (setWk { s with flag := (AwakeFlag.wake s.flag).1 } w { (s.wk w) with pc := .fin })
      else some (setWk { s with flag := (AwakeFlag.wake s.flag).1 } w { (s.wk w) with pc := .push })
    else match s.cfg.drv with
      | .iour => some (setWk { s with flag := (AwakeFlag.wake s.flag).1 } w { (s.wk w) with pc := .write })
      | .poll => some (setWk { s with flag := (AwakeFlag.wake s.flag).1 } w { (s.wk w) with pc := .cas })
  | .cas, .main =>
    if s.pnot then some (mainDone s w (s.wk w).seq0)
    else some (setWk { s with pnot := true } w { (s.wk w) with pc := .write })
  | .cas, .task _ =>
    if s.pnot then
      if (s.wk w).pushed then some (setWk s w { (s.wk w) with pc := .fin })
      else some (setWk s w { (s.wk w) with pc := .push })
    else some (setWk { s with pnot := true } w { (s.wk w) with pc := .write })
  | .write, .main => some (mainDone (kWrite s) w (s.wk w).seq0)
  | .write, .task _ =>
    if (s.wk w).pushed then some (setWk (kWrite s) w { (s.wk w) with pc := .fin })
    else some (setWk (kWrite s) w { (s.wk w) with pc := .push })
  | .fin, .task t =>
    some (setWk { s with word := upd s.word t (TaskState.finishScheduling (s.word t)),
                         woken := upd s.woken t (s.woken t || ((s.wk w).seq0 == s.pollSeq t)) } w
            { (s.wk w) with pc := .idle })
  | _, _ => none

inductive Event where
  | rt (e : RtEv)
  | wStart (w : Nat) (k : Kind)     -- thread w calls `wake_by_ref` on a waker of kind k
  | w (w : Nat)                     -- thread w performs its next atomic action
  | cancel (t : Nat)                -- `set_cancelled` on task t (by its JoinHandle, any thread)
  deriving DecidableEq, Repr

def step (s : State) (ev : Event) : Option State :=
  match ev with
  | .rt e => rtStep s e
  | .wStart w k =>
    if w < s.cfg.nw && (s.wk w).pc == .idle then
      some (setWk s w { pc := match k with | .main => .dwake | .task _ => .sched,
                        kind := k, notified := false, pushed := false, seq0 := 0 })
    else none
  | .w w => if w < s.cfg.nw then wStep s w else none
  | .cancel t => some { s with word := upd s.word t (TaskState.setCancelled (s.word t)) }

/-- an interleaving -/
def run (s : State) : List Event → Option State
  | [] => some s
  | e :: es => match step s e with
    | some s' => run s' es
    | none => none

def Reachable (cfg : Cfg) (s : State) : Prop := ∃ evs, run (init cfg) evs = some s

/-! ### deterministic continuations (used by the progress theorems and by the line driver) -/

/-- the runtime thread alone, every poll returning Pending, no timeouts -/
def rtNext (s : State) : Option State := rtStep s .go

def rtRun : Nat → State → State
  | 0, s => s
  | n + 1, s => match rtNext s with
    | some s' => rtRun n s'
    | none => s

/-- run the runtime thread until it reaches pc `stop` (at most `fuel` steps) -/
def rtUntil (stop : RtPc) : Nat → State → Option State
  | 0, _ => none
  | n + 1, s => if s.rt = stop then some s else
    match rtNext s with
    | some s' => rtUntil stop n s'
    | none => none

/-- run waker thread w until its call returns; `none` if it does not return within `fuel` steps (it spins) -/
def wUntilIdle (w : Nat) : Nat → State → Option State
  | 0, _ => none
  | n + 1, s => if (s.wk w).pc = .idle then some s else
    match wStep s w with
    | some s' => wUntilIdle w n s'
    | none => none

end Compio.Wake
