/-
C14 (3) — the multishot stream adapters.

* `SM`       : compio-runtime/src/future/stream.rs `SubmitMulti` (states Idle / Submitted / Finished)
               together with the two places the driver delivers completions to
               (`push_multishot` queue for CQEs with `IORING_CQE_F_MORE`, the key's final result) —
               with explicit *arrival* events, so that every interleaving of kernel completions and
               polls is a list of events.
* `Managed`  : `SubmitMultiManaged::poll_next` (buffer taken from the pool / from the finished op).
* `Stream`   : `SubmitMultiStream::poll_next` (re-submission loop, cancel token, factory) — used by
               compio-net `recv_multi`, `recv_from_multi`, `recv_msg_multi`.
* `Inc`      : compio-net/src/incoming/unix.rs `Incoming::poll_next` over `AcceptMulti`, plus what
               dropping the stream does to accepted-but-not-yielded connections.

`Managed`, `Stream` and `Inc` are written in *await* form: the completions of a submission are a
script (list of CQEs in the order the kernel posts them) and `next` consumes the head; a submission
whose script is exhausted without a terminal CQE is pending forever.  That this is what polling `SM`
amounts to under every arrival schedule is `Props/C14.lean` `sm_*`.

Core Lean only.
-/
import Compio.Model.Common

namespace Compio.MultiStream

inductive Err where
  | busy            -- -ENOBUFS, mapped to `ResourceBusy` by `create_result`
  | cancelled       -- -ECANCELED
  | os (k : Nat)    -- any other errno
  | noBufId         -- `extra.buffer_id()` failed: no `IORING_CQE_F_BUFFER` on a non-terminal CQE
  | factory (k : Nat)  -- the factory (`buffer_pool()`, `RecvMulti::new`) failed
  deriving Repr, DecidableEq

inductive Rs where
  | ok (n : Nat)
  | err (e : Err)
  deriving Repr, DecidableEq

/-- one completion. `more` = `IORING_CQE_F_MORE`; `buf` = the buffer the kernel selected (content of
its capacity after the kernel wrote), `none` = no buffer flag.  For the polling fallback every
submission has exactly one terminal CQE and the buffer is the one popped at creation. -/
structure Cqe where
  res : Rs
  more : Bool
  buf : Option Bytes
  deriving Repr, DecidableEq

/-! ## `SubmitMulti` with arrival events -/

inductive St where
  | idle
  | submitted
  | finished
  deriving Repr, DecidableEq

structure SM where
  st : St
  queue : List Cqe        -- `op.multishots`
  term : Option Cqe       -- final result held by the key
  future : List Cqe       -- completions the kernel has not posted yet
  deriving Repr, DecidableEq

def SM.new (script : List Cqe) : SM := ⟨.idle, [], none, script⟩

/-- the kernel posts the next completion (only for a submitted op; nothing follows a terminal CQE) -/
def SM.arrive (s : SM) : SM :=
  match s.st, s.term, s.future with
  | .submitted, none, c :: rest =>
    if c.more then { s with queue := s.queue ++ [c], future := rest }
    else { s with term := some c, future := [] }
  | _, _, _ => s

inductive P (α : Type) where
  | pending
  | ready (a : α)
  deriving Repr, DecidableEq

/-- the `Submitted` arm: `poll_multishot` (pop the queue) first, then `poll_task` (final result) -/
def SM.pollSubmitted (s : SM) : P (Option Cqe) × SM :=
  match s.queue with
  | c :: q => (.ready (some c), { s with queue := q })
  | [] =>
    match s.term with
    | some c => (.ready (some c), { s with st := .finished, term := none })
    | none => (.pending, s)

/-- `SubmitMulti::poll_next` (submission is `PushEntry::Pending`; the immediately-ready case of the
polling driver is the same as a terminal completion arriving before the second loop iteration) -/
def SM.poll (s : SM) : P (Option Cqe) × SM :=
  match s.st with
  | .idle => SM.pollSubmitted { s with st := .submitted }
  | .submitted => SM.pollSubmitted s
  | .finished => (.ready none, s)

inductive Ev where
  | arrive
  | poll
  deriving Repr, DecidableEq

/-- run a schedule; collect what the polls returned (`none` entries are `Ready(None)`) -/
def SM.run : SM → List Ev → List (Option Cqe) × SM
  | s, [] => ([], s)
  | s, .arrive :: evs => SM.run s.arrive evs
  | s, .poll :: evs =>
    match s.poll with
    | (.pending, s') => SM.run s' evs
    | (.ready r, s') => ((SM.run s' evs).1.cons r, (SM.run s' evs).2)

/-- the script as far as the kernel delivers it: up to and including the first terminal CQE -/
def cut : List Cqe → List Cqe
  | [] => []
  | c :: rest => if c.more then c :: cut rest else [c]

/-! ## `SubmitMultiManaged` and `SubmitMultiStream` (await form) -/

/-- item flavour: `BufferRef` has an emptiness test (`is_empty`), the datagram results never are empty -/
inductive Fl where
  | bytes
  | msg
  deriving Repr, DecidableEq

/-- what `SubmitMultiManaged::poll_next` returns -/
inductive MOut where
  | pending
  | done                      -- `Ready(None)`
  | buf (b : Option Bytes)    -- `Ready(Some(Ok(b)))`
  | err (e : Err)             -- `Ready(Some(Err(e)))`
  deriving Repr, DecidableEq

/-- `inner = some rest`: the `SubmitMulti` and the completions it has not returned yet;
`inner = none`: taken (`self.inner.take()`) -/
structure Managed where
  inner : Option (List Cqe)
  deriving Repr, DecidableEq

def Managed.next (m : Managed) : MOut × Managed :=
  match m.inner with
  | none => (.done, m)
  | some [] => (.pending, m)
  | some (c :: rest) =>
    if c.more then
      -- not terminated: `buffer_pool.take(extra.buffer_id()?)?`, then `res?`, then `advance_to(res)`
      match c.buf with
      | none => (.err .noBufId, ⟨some rest⟩)
      | some b =>
        match c.res with
        | .err e => (.err e, ⟨some rest⟩)
        | .ok n => (.buf (some (b.take n)), ⟨some rest⟩)
    else
      -- `inner.is_terminated()`: take the op, `take_buffer()`, then `res?`, then `advance_to(res)`
      match c.res with
      | .err e => (.err e, ⟨none⟩)
      | .ok n => (.buf (c.buf.map (·.take n)), ⟨none⟩)

/-- what the factory produces next -/
inductive Sub where
  | op (script : List Cqe)
  | fail (k : Nat)
  deriving Repr, DecidableEq

inductive Tok where
  | pending
  | item (b : Bytes)   -- `Ready(Some(Ok(buffer)))`
  | err (e : Err)      -- `Ready(Some(Err(e)))`
  | end_               -- `Ready(None)`
  | fuel               -- model loop bound exhausted (proved unreachable)
  deriving Repr, DecidableEq

structure Stream where
  fl : Fl
  op : Option Managed
  subs : List Sub        -- what the next `create()` calls will produce
  cancelled : Bool       -- `cx.get_cancel().is_some_and(is_cancelled)`
  nsub : Nat             -- ghost: submissions made so far
  deriving Repr, DecidableEq

def Stream.new (fl : Fl) (subs : List Sub) : Stream := ⟨fl, none, subs, false, 0⟩

/-- `SubmitMultiStream::poll_next`; one `fuel` unit per loop iteration -/
def Stream.nextF : Nat → Stream → Tok × Stream
  | 0, s => (.fuel, s)
  | fuel + 1, s =>
    match s.op with
    | some m =>
      match m.next with
      | (.pending, m') => (.pending, { s with op := some m' })
      | (.buf (some b), m') =>
        if s.fl = .bytes ∧ b.isEmpty then (.end_, { s with op := some m' })
        else (.item b, { s with op := some m' })
      | (.buf none, m') => (.end_, { s with op := some m' })
      | (.err e, m') => (.err e, { s with op := some m' })
      | (.done, _) => Stream.nextF fuel { s with op := none }
    | none =>
      if s.cancelled then (.end_, s)
      else
        match s.subs with
        | [] => Stream.nextF fuel { s with op := some ⟨some []⟩, nsub := s.nsub + 1 }
        | .fail k :: rest => (.err (.factory k), { s with subs := rest })
        | .op script :: rest =>
          Stream.nextF fuel { s with op := some ⟨some script⟩, subs := rest, nsub := s.nsub + 1 }

/-- three iterations always suffice (`Props/C14.lean` `nextF_stable`) -/
def Stream.next (s : Stream) : Tok × Stream := Stream.nextF 3 s

/-- the cancel token fires -/
def Stream.cancel (s : Stream) : Stream := { s with cancelled := true }

/-- call `next` `n` times -/
def Stream.take : Nat → Stream → List Tok × Stream
  | 0, s => ([], s)
  | n + 1, s => ((s.next.1) :: (Stream.take n s.next.2).1, (Stream.take n s.next.2).2)

/-- the token one completion turns into -/
def itemOrEnd (fl : Fl) (b : Bytes) : Tok :=
  if fl = .bytes ∧ b.isEmpty then .end_ else .item b

def tokOf (fl : Fl) (c : Cqe) : Tok :=
  if c.more then
    match c.buf with
    | none => .err .noBufId
    | some b =>
      match c.res with
      | .err e => .err e
      | .ok n => itemOrEnd fl (b.take n)
  else
    match c.res with
    | .err e => .err e
    | .ok n =>
      match c.buf with
      | none => .end_
      | some b => itemOrEnd fl (b.take n)

/-! ## `Incoming` over `AcceptMulti` -/

inductive ARs where
  | fd (id : Nat)     -- accepted descriptor
  | err (e : Err)
  deriving Repr, DecidableEq

structure ACqe where
  res : ARs
  more : Bool
  deriving Repr, DecidableEq

inductive AOp where
  | none                      -- `op: None`
  | live (rest : List ACqe)   -- submitted; completions not returned yet
  | finished                  -- `SubmitMulti` in `Finished`, still stored (after a terminal error)
  deriving Repr, DecidableEq

inductive ATok where
  | pending
  | conn (id : Nat)
  | err (e : Err)
  | fuel
  deriving Repr, DecidableEq

structure Inc where
  op : AOp
  subs : List (List ACqe)
  yielded : List Nat      -- ghost: descriptors handed to the caller
  closed : List Nat       -- ghost: descriptors closed by compio
  nsub : Nat
  deriving Repr, DecidableEq

def Inc.new (subs : List (List ACqe)) : Inc := ⟨.none, subs, [], [], 0⟩

/-- `Incoming::poll_next` -/
def Inc.nextF : Nat → Inc → ATok × Inc
  | 0, s => (.fuel, s)
  | fuel + 1, s =>
    match s.op with
    | .none =>
      match s.subs with
      | [] => Inc.nextF fuel { s with op := .live [], nsub := s.nsub + 1 }
      | sc :: rest => Inc.nextF fuel { s with op := .live sc, subs := rest, nsub := s.nsub + 1 }
    | .finished => Inc.nextF fuel { s with op := .none }
    | .live [] => (.pending, s)
    | .live (c :: rest) =>
      if c.more then
        -- `Socket2::from_raw_fd(res? as _)`
        match c.res with
        | .fd id => (.conn id, { s with op := .live rest, yielded := s.yielded ++ [id] })
        | .err e => (.err e, { s with op := .live rest })
      else
        match c.res with
        -- terminated and ok: take the op, `into_inner()` = the descriptor `set_result` stored
        | .fd id => (.conn id, { s with op := .none, yielded := s.yielded ++ [id] })
        -- terminated with an error: `res?`; the finished op stays until the next poll
        | .err e => (.err e, { s with op := .finished })

def Inc.next (s : Inc) : ATok × Inc := Inc.nextF 3 s

def Inc.take : Nat → Inc → List ATok × Inc
  | 0, s => ([], s)
  | n + 1, s => ((s.next.1) :: (Inc.take n s.next.2).1, (Inc.take n s.next.2).2)

def fdsOf : List ACqe → List Nat
  | [] => []
  | c :: rest =>
    match c.res with
    | .fd id => id :: fdsOf rest
    | .err _ => fdsOf rest

/-- completions of one accept submission as far as the kernel delivers them -/
def acut : List ACqe → List ACqe
  | [] => []
  | c :: rest => if c.more then c :: acut rest else [c]

/-- dropping the `Incoming`: the `SubmitMulti` cancels the op; every descriptor the op holds or still
receives before the cancel lands (`multishots: VecDeque<AcceptMultishotResult>` wraps each in a
`Socket2`, `accepted_fd: Option<Socket2>`) is closed when the op is dropped -/
def Inc.drop (s : Inc) : Inc :=
  match s.op with
  | .live rest => { s with op := .none, closed := s.closed ++ fdsOf (acut rest) }
  | _ => { s with op := .none }

end Compio.MultiStream
