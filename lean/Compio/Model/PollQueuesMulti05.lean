/-
C05, operations that wait on SEVERAL descriptors of the polling driver (`Splice` pipe -> pipe: input readable + output
writable; compio-driver/src/sys/driver/poll/mod.rs `Driver::{push, cancel, cancel_one, remove_one, poll_one}`), and the
small world the harness lines `mfd / msplice / mcancel / mpoll / mfeed / mdrain / mpop / mstate` run in
(harness/drv/src/bin/c05x/multi.rs). Additive to `PollQueues` / `KeyLife` (nothing there is changed). Core Lean only.
-/
import Compio.Model.KeyLife

namespace Compio.Multi05

open Compio Compio.PollQueues Compio.KeyLife

/-- queue part of `Driver::cancel(key)`: `cancel_one(key, fd)` = `remove_one` for EVERY descriptor of the operation -/
def cancelQueues (reg : Reg) (fds : List Nat) (id : Nat) : Reg :=
  fds.foldl (fun r fd => upd r fd ((r fd).remove id)) reg

/-- the seeded variant (seeded/C05-4a): the loop stops after the first descriptor that produced the entry -/
def cancelQueuesFirstOnly (reg : Reg) (fds : List Nat) (id : Nat) : Reg :=
  match fds with
  | [] => reg
  | fd :: _ => upd reg fd ((reg fd).remove id)

structure MOp where
  /-- `WaitArg`s returned by `pre_submit` -/
  waits : List (Nat × Dir)
  /-- descriptors whose readiness event was consumed (`handle_event`) -/
  got : List Nat := []
  cancelled : Bool := false
  result : Option Res := none
  /-- entries for it in the completed channel -/
  chan : List Res := []
  /-- the caller still holds the key -/
  held : Bool := true
  /-- number of times `operate` ran for it -/
  ran : Nat := 0
  /-- io_uring: what the kernel has decided for it -/
  kdone : Option Res := none

/-- descriptor 0 = read end of the input pipe, descriptor 1 = write end of the output pipe -/
structure MW where
  iour : Bool
  reg : Reg := Reg.empty
  ops : List MOp := []
  inBytes : Nat := 0
  bFull : Bool := true
  moved : Nat := 0

def canRun (w : MW) : Bool := decide (0 < w.inBytes) && !w.bFull

/-- `Driver::push`: `submit(key, arg)` for every `WaitArg`, in order -/
def pushQueues (reg : Reg) (waits : List (Nat × Dir)) (id : Nat) : Reg :=
  waits.foldl (fun r p => upd r p.1 ((r p.1).pushBack p.2 id)) reg

def frontQueues (reg : Reg) (waits : List (Nat × Dir)) (id : Nat) : Reg :=
  waits.foldl (fun r p => upd r p.1 ((r p.1).pushFront p.2 id)) reg

/-- `operate()` of the splice: moves up to 5 bytes, or EAGAIN -> every descriptor goes back to the FRONT of its queue -/
def operate (w : MW) (id : Nat) : MW :=
  if canRun w then
    let n := min 5 w.inBytes
    { w with inBytes := w.inBytes - n, moved := w.moved + n,
             ops := modAt (fun o => { o with result := some (.ok n), ran := o.ran + 1, got := [] }) w.ops id }
  else
    match w.ops[id]? with
    | some o => { w with reg := frontQueues w.reg o.waits id,
                         ops := modAt (fun o => { o with got := [], ran := o.ran + 1 }) w.ops id }
    | none => w

/-- `poll_one(event, fd)`: pop one interest, note the descriptor, run the operation once every descriptor reported -/
def fdEvent (w : MW) (fd : Nat) (r wr : Bool) : MW :=
  match (w.reg fd).popInterest r wr with
  | none => w
  | some (k, _, q') =>
    let w1 := { w with reg := upd w.reg fd q', ops := modAt (fun o => { o with got := fd :: o.got }) w.ops k }
    match w1.ops[k]? with
    | some o => if o.waits.all (fun p => o.got.contains p.1) then operate w1 k else w1
    | none => w1

/-- `poll_completed` -/
def pollCompleted (w : MW) : MW :=
  { w with ops := w.ops.map fun o =>
      match o.chan.getLast? with
      | some r => { o with result := some r, chan := [] }
      | none => o }

/-- `Driver::cancel(key)` of the polling driver: the key leaves the queue of EVERY descriptor, exactly ONE cancelled entry -/
def pollCancelMulti (w : MW) (id : Nat) : MW :=
  match w.ops[id]? with
  | some o => { w with reg := cancelQueues w.reg (o.waits.map (·.1)) id,
                       ops := modAt (fun o => { o with chan := o.chan ++ [ECANCELED] }) w.ops id }
  | none => w

/-- io_uring kernel: an in-flight splice that can proceed does; one that has been cancelled first answers ECANCELED -/
def kernel (w : MW) : MW :=
  (List.range w.ops.length).foldl (fun w id =>
    match w.ops[id]? with
    | some o =>
      if o.kdone.isNone ∧ canRun w then
        let n := min 5 w.inBytes
        { w with inBytes := w.inBytes - n, moved := w.moved + n,
                 ops := modAt (fun o => { o with kdone := some (.ok n) }) w.ops id }
      else w
    | none => w) w

def driverCancel (w : MW) (id : Nat) : MW :=
  if w.iour then
    { w with ops := modAt (fun o => if o.kdone.isNone then { o with kdone := some ECANCELED } else o) w.ops id }
  else pollCancelMulti w id

def pollLoop (w : MW) : Nat → MW
  | 0 => w
  | fuel + 1 =>
    if !(w.reg 0).rq.isEmpty && decide (0 < w.inBytes) then pollLoop (fdEvent w 0 true false) fuel
    else if !(w.reg 1).wq.isEmpty && !w.bFull then pollLoop (fdEvent w 1 false true) fuel
    else w

/-- `mpoll`: poll to quiescence -/
def settle (w : MW) : MW :=
  if w.iour then
    { w with ops := w.ops.map fun o => if o.result.isNone then { o with result := o.kdone } else o }
  else pollCompleted (pollLoop (pollCompleted w) 16)

def showRes : Res → String
  | .ok n => s!"ok:{n}"
  | .err e => s!"err:{e}"

def splice (w : MW) : MW × String :=
  let id := w.ops.length
  let waits : List (Nat × Dir) := [(0, .rd), (1, .wr)]
  if w.iour then (kernel { w with ops := w.ops ++ [{ waits := waits }] }, "pending")
  else ({ w with reg := pushQueues w.reg waits id, ops := w.ops ++ [{ waits := waits }] }, "pending")

/-- `Proactor::cancel(key)` / `cancel_token` / `cancel(key.clone())` (compio-driver/src/lib.rs) -/
def cancel (w : MW) (id : Nat) (route : String) : MW × String :=
  match w.ops[id]? with
  | none => (w, "bad-op")
  | some o =>
    if !o.held then (w, "nokey") else
    let setC (w : MW) : MW := { w with ops := modAt (fun o => { o with cancelled := true }) w.ops id }
    if route = "cancel" then
      if o.cancelled then ({ w with ops := modAt (fun o => { o with held := false }) w.ops id }, "none")
      else match o.result with
        | some r => ({ w with ops := modAt (fun o => { o with cancelled := true, held := false }) w.ops id }, s!"some:{showRes r}")
        | none => ({ (driverCancel (setC w) id) with ops := modAt (fun o => { o with held := false }) (driverCancel (setC w) id).ops id }, "none")
    else if route = "token" then
      if o.cancelled ∨ o.result.isSome then (setC w, "false") else (driverCancel (setC w) id, "true")
    else if route = "ccancel" then
      if o.cancelled then (w, "none") else (driverCancel (setC w) id, "none")
    else (w, "bad-op")

def pop (w : MW) (id : Nat) : MW × String :=
  match w.ops[id]? with
  | none => (w, "bad-op")
  | some o =>
    if !o.held then (w, "nokey") else
    match o.result with
    | some r => ({ w with ops := modAt (fun o => { o with held := false }) w.ops id }, showRes r)
    | none => (w, "pending")

def line (w : MW) (ws : List String) : MW × String :=
  match ws with
  | ["msplice"] => splice w
  | ["mpoll"] => (settle w, "ok")
  | ["mfeed"] => let w := { w with inBytes := w.inBytes + 5 }; (if w.iour then kernel w else w, "ok")
  | ["mdrain"] => let w := { w with bFull := false }; (if w.iour then kernel w else w, "ok")
  | ["mstate"] => (w, s!"in:{w.inBytes} moved:{w.moved}")
  | ["mcancel", i, route] => match i.toNat? with
    | some i => cancel w i route
    | none => (w, "bad-op")
  | ["mpop", i] => match i.toNat? with
    | some i => pop w i
    | none => (w, "bad-op")
  | _ => (w, "bad-op")

def start (drv fed : String) : MW := { iour := drv == "iour", inBytes := if fed == "1" then 5 else 0 }

end Compio.Multi05
