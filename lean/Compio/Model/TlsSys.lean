/-
The two-party system of the C15 TLS cases: a client task and a server task (the `endpoint` async fn of
harness/apps/src/bin/c15.rs: handshake, then its half of every `xfer` / `close` step) over the scheduled
duplex of `TlsNet`, run by the harness' executor (round-robin over the tasks whose wake flag is set; a
task is polled until it returns `Pending`).
Core Lean only.
-/
import Compio.Model.TlsRustls

namespace Compio.TlsSys
open Compio.TlsNet Compio.TlsShim

/-- the TLS stream of one endpoint (handshake future included) -/
inductive Stream where
  | ossl (fut : TlsShim.HsFut) (o : Ossl)
  | rtls (fut : TlsRustls.HsFut) (r : TlsRustls.Rtls)
  deriving Repr

def Stream.pollHandshake (sc : Sched) (s : Stream) (v : View) : Stream × View × PollR Unit :=
  match s with
  | .ossl fut o => let (fut, o, v, r) := TlsShim.pollHandshake sc fut o v; (.ossl fut o, v, r)
  | .rtls fut x => let (fut, x, v, r) := TlsRustls.pollHandshake sc fut x v; (.rtls fut x, v, r)

def Stream.pollRead (sc : Sched) (s : Stream) (v : View) (n : Nat) : Stream × View × PollR (List UInt8) :=
  match s with
  | .ossl fut o => let (o, v, r) := TlsShim.pollRead sc o v n; (.ossl fut o, v, r)
  | .rtls fut x => let (x, v, r) := TlsRustls.pollRead sc x v n; (.rtls fut x, v, r)

def Stream.pollWrite (sc : Sched) (s : Stream) (v : View) (buf : List UInt8) : Stream × View × PollR Nat :=
  match s with
  | .ossl fut o => let (o, v, r) := TlsShim.pollWrite sc o v buf; (.ossl fut o, v, r)
  | .rtls fut x => let (x, v, r) := TlsRustls.pollWrite sc x v buf; (.rtls fut x, v, r)

def Stream.pollFlush (sc : Sched) (s : Stream) (v : View) : Stream × View × PollR Unit :=
  match s with
  | .ossl fut o => let (o, v, r) := TlsShim.pollFlush sc o v; (.ossl fut o, v, r)
  | .rtls fut x => let (x, v, r) := TlsRustls.pollFlush sc x v; (.rtls fut x, v, r)

def Stream.pollClose (sc : Sched) (s : Stream) (v : View) : Stream × View × PollR Unit :=
  match s with
  | .ossl fut o => let (o, v, r) := TlsShim.pollClose sc o v; (.ossl fut o, v, r)
  | .rtls fut x => let (x, v, r) := TlsRustls.pollClose sc x v; (.rtls fut x, v, r)

/-! ### the endpoint task -/

inductive Step where
  /-- `write_all(data)` then `flush()` -/
  | send (data : List UInt8)
  /-- read exactly `want.length` bytes (buffer of 8192) and compare -/
  | recv (want : List UInt8)
  /-- `close()`, then a read that must return 0 -/
  | closeInit
  /-- a read that must return 0, then `close()` -/
  | closeResp
  deriving Repr

inductive StepRes where
  | notReached
  | running (n : Nat)
  | ok (n : Nat)
  | mismatch
  | err
  deriving Repr, DecidableEq

/-- where the task is inside its current step -/
inductive Pc where
  | hs
  | writing (rest : List UInt8) (total : Nat)
  | flushing (total : Nat)
  | reading (want : List UInt8) (left : Nat) (got : Nat) (bad : Bool)
  | closing
  | closeRead          -- closeInit: after close()
  | respRead           -- closeResp: the first read
  | respClose
  | next               -- pick the next step
  | finished
  deriving Repr

structure Task where
  s : Stream
  pc : Pc
  steps : List Step
  /-- index of the current step (0 = handshake) -/
  idx : Nat
  res : List StepRes
  deriving Repr

def setRes (res : List StepRes) (i : Nat) (r : StepRes) : List StepRes := res.set i r

inductive TaskPoll where
  | pending (p : Pend)
  | done
  | panic
  | hang
  deriving Repr, DecidableEq

def readBuf : Nat := 8192

/-- one poll of the endpoint task: runs until a `Pending` or the end of the script -/
def pollTask (sc : Sched) : Nat → Task → View → Task × View × TaskPoll
  | 0, t, v => (t, v, .hang)
  | fuel + 1, t, v =>
    let fail (t : Task) (v : View) : Task × View × TaskPoll :=
      ({ t with pc := .finished, res := setRes t.res t.idx .err }, v, .done)
    match t.pc with
    | .finished => (t, v, .done)
    | .hs =>
      match t.s.pollHandshake sc v with
      | (s, v, .ready ()) =>
        -- `hs_done.set(true)` : the transport switches from `dfh` to `df`
        let v := { v with tp := { v.tp with hsDone := true } }
        pollTask sc fuel { t with s, pc := .next, res := setRes t.res 0 (.ok 0) } v
      | (s, v, .pending p) => ({ t with s, res := setRes t.res 0 (.running 0) }, v, .pending p)
      | (s, v, .err) =>
        let v := { v with tp := { v.tp with hsDone := true } }
        fail { t with s } v
      | (s, v, .panic) => ({ t with s }, v, .panic)
    | .next =>
      match t.steps with
      | [] => ({ t with pc := .finished }, v, .done)
      | st :: rest =>
        let t := { t with steps := rest, idx := t.idx + 1 }
        let t := { t with res := setRes t.res t.idx (.running 0) }
        match st with
        | .send data => pollTask sc fuel { t with pc := .writing data data.length } v
        | .recv want => pollTask sc fuel { t with pc := .reading want want.length 0 false } v
        | .closeInit => pollTask sc fuel { t with pc := .closing } v
        | .closeResp => pollTask sc fuel { t with pc := .respRead } v
    | .writing rest total =>
      if rest.isEmpty then pollTask sc fuel { t with pc := .flushing total } v
      else
        match t.s.pollWrite sc v rest with
        | (s, v, .ready n) =>
          if n = 0 then fail { t with s } v      -- WriteZero
          else pollTask sc fuel { t with s, pc := .writing (rest.drop n) total } v
        | (s, v, .pending p) => ({ t with s }, v, .pending p)
        | (s, v, .err) => fail { t with s } v
        | (s, v, .panic) => ({ t with s }, v, .panic)
    | .flushing total =>
      match t.s.pollFlush sc v with
      | (s, v, .ready ()) => pollTask sc fuel { t with s, pc := .next, res := setRes t.res t.idx (.ok total) } v
      | (s, v, .pending p) => ({ t with s }, v, .pending p)
      | (s, v, .err) => fail { t with s } v
      | (s, v, .panic) => ({ t with s }, v, .panic)
    | .reading want left got bad =>
      if want.isEmpty then
        pollTask sc fuel { t with pc := .next, res := setRes t.res t.idx (if bad then .mismatch else .ok got) } v
      else
        match t.s.pollRead sc v (min left readBuf) with
        | (s, v, .ready bs) =>
          if bs.isEmpty then fail { t with s } v     -- UnexpectedEof
          else
            let bad := bad || (bs != want.take bs.length)
            let got := got + bs.length
            pollTask sc fuel
              { t with s, pc := .reading (want.drop bs.length) (left - bs.length) got bad,
                       res := setRes t.res t.idx (.running got) } v
        | (s, v, .pending p) => ({ t with s }, v, .pending p)
        | (s, v, .err) => fail { t with s } v
        | (s, v, .panic) => ({ t with s }, v, .panic)
    | .closing =>
      match t.s.pollClose sc v with
      | (s, v, .ready ()) => pollTask sc fuel { t with s, pc := .closeRead, res := setRes t.res t.idx (.running 1) } v
      | (s, v, .pending p) => ({ t with s }, v, .pending p)
      | (s, v, .err) => fail { t with s } v
      | (s, v, .panic) => ({ t with s }, v, .panic)
    | .closeRead =>
      match t.s.pollRead sc v 16 with
      | (s, v, .ready bs) =>
        pollTask sc fuel { t with s, pc := .next, res := setRes t.res t.idx (if bs.isEmpty then .ok 0 else .mismatch) } v
      | (s, v, .pending p) => ({ t with s }, v, .pending p)
      | (s, v, .err) => fail { t with s } v
      | (s, v, .panic) => ({ t with s }, v, .panic)
    | .respRead =>
      match t.s.pollRead sc v 16 with
      | (s, v, .ready bs) =>
        if bs.isEmpty then pollTask sc fuel { t with s, pc := .respClose, res := setRes t.res t.idx (.running 1) } v
        else pollTask sc fuel { t with s, pc := .next, res := setRes t.res t.idx .mismatch } v
      | (s, v, .pending p) => ({ t with s }, v, .pending p)
      | (s, v, .err) => fail { t with s } v
      | (s, v, .panic) => ({ t with s }, v, .panic)
    | .respClose =>
      match t.s.pollClose sc v with
      | (s, v, .ready ()) => pollTask sc fuel { t with s, pc := .next, res := setRes t.res t.idx (.ok 0) } v
      | (s, v, .pending p) => ({ t with s }, v, .pending p)
      | (s, v, .err) => fail { t with s } v
      | (s, v, .panic) => ({ t with s }, v, .panic)

/-! ### the executor -/

structure Sys where
  sc : Sched
  c : Task
  s : Task
  tpC : Tp
  tpS : Tp
  c2s : Pipe
  s2c : Pipe
  flagC : Bool
  flagS : Bool
  doneC : Bool
  doneS : Bool
  panicked : Bool
  polls : Nat
  deriving Repr

def pollClient (y : Sys) : Sys :=
  let v : View := ⟨y.tpC, y.c2s, y.s2c, false, false⟩
  let (t, v, r) := pollTask y.sc y.sc.fuel y.c v
  let y := { y with c := t, tpC := v.tp, c2s := v.tx, s2c := v.rx, polls := y.polls + 1 }
  let y := { y with flagS := (y.flagS || v.wake), flagC := (y.flagC || v.own) }
  match r with
  | .pending _ => y
  | .done => { y with doneC := true }
  | _ => { y with doneC := true, panicked := true }

def pollServer (y : Sys) : Sys :=
  let v : View := ⟨y.tpS, y.s2c, y.c2s, false, false⟩
  let (t, v, r) := pollTask y.sc y.sc.fuel y.s v
  let y := { y with s := t, tpS := v.tp, s2c := v.tx, c2s := v.rx, polls := y.polls + 1 }
  let y := { y with flagC := (y.flagC || v.wake), flagS := (y.flagS || v.own) }
  match r with
  | .pending _ => y
  | .done => { y with doneS := true }
  | _ => { y with doneS := true, panicked := true }

/-- one pass of the executor over its two tasks -/
def round (y : Sys) : Sys :=
  let y := if y.flagC && !y.doneC then pollClient { y with flagC := false } else y
  if y.flagS && !y.doneS then pollServer { y with flagS := false } else y

inductive RunEnd where
  | done
  | stuck
  | spin
  deriving Repr, DecidableEq

def Sys.allDone (y : Sys) : Bool := y.doneC && y.doneS

def Sys.runnable (y : Sys) : Bool := (y.flagC && !y.doneC) || (y.flagS && !y.doneS)

/-- `run_tasks` -/
def run : Nat → Sys → Sys × RunEnd
  | 0, y => (y, .spin)
  | fuel + 1, y =>
    if y.allDone then (y, .done)
    else if !y.runnable then (y, .stuck)
    else run fuel (round y)

def mkStream (rustls : Bool) (me : Side) (tape : List Side) (post : Nat) : Stream :=
  if rustls then .rtls .handshaking (TlsRustls.Rtls.new me tape post)
  else .ossl .start (Ossl.new me tape post)

def mkTask (s : Stream) (steps : List Step) : Task :=
  { s, pc := .hs, steps, idx := 0, res := List.replicate (steps.length + 1) .notReached }

/-- the client on back-end `rc`, the server on back-end `rs` (`true` = rustls, `false` = native-tls) -/
def Sys.initX (sc : Sched) (rc rs : Bool) (tape : List Side) (post : Nat) (cs ss : List Step) : Sys :=
  { sc, c := mkTask (mkStream rc .client tape 0) cs, s := mkTask (mkStream rs .server tape post) ss,
    tpC := Tp.new, tpS := Tp.new, c2s := Pipe.empty, s2c := Pipe.empty,
    flagC := true, flagS := true, doneC := false, doneS := false, panicked := false, polls := 0 }

/-- both roles on the same back-end -/
def Sys.init (sc : Sched) (rustls : Bool) (tape : List Side) (post : Nat) (cs ss : List Step) : Sys :=
  Sys.initX sc rustls rustls tape post cs ss

end Compio.TlsSys
