/-
Model of the part of compio-tls that compio wrote for native-tls like engines
(compio-tls/src/compat/common.rs, compat/native.rs; stream.rs / adapter.rs / maybe.rs only dispatch):

* `AllowStd` : the std-style adapter. `with_context` asserts that the context pointer is set, polls the
  inner stream and maps `Poll::Pending` to `io::ErrorKind::WouldBlock` (`bioRead`/`bioWrite`/`bioFlush`).
* `OpensslInner` : `written` / `handshaken`; while not handshaken a read first flushes what was written
  and `poll_flush` is a no-op; afterwards it is transparent.
* `TlsStream::with_context` + `Guard` : set the context, run the engine, clear the context, map
  `WouldBlock` back to `Pending` (`pollRead`/`pollWrite`/`pollFlush`/`pollClose`).
* `handshake` : `StartedHandshakeFuture` (first engine call; `Done` or `Mid`), `MidHandshake` (resume on
  `WouldBlock`), `finish_handshake`, the post-handshake `flush().await` (`pollHandshake`).

The TLS engine (native-tls → OpenSSL) is third-party and is a *parameter*: an abstract record layer
`Eng` driven through the BIO callbacks only.
  - handshake: a tape of cells, each owned by the side that sends it; the engine writes its own runs
    (offering the whole run to `BIO_write`, continuing after a partial write), calls `BIO_flush` at the end
    of a run, reads the peer's runs, and finally (server) writes `post` post-handshake cells;
  - afterwards `SSL_write` turns up to 16384 plaintext bytes into one record (5 + n + 17 cells) and returns
    once the whole record went through `BIO_write`; `SSL_read` reads cells, skips `pad`/`post`/`hs`,
    returns the plaintext of the `app` cells, `Ok(0)` after an `alert`; `SSL_shutdown` writes the alert record,
    calls `BIO_flush` *ignoring its result* and returns;
  - it returns `WouldBlock` exactly when a BIO callback did.
That the real engines behave like this is assumption A-E1 (see notes/C15.md).
Core Lean only.
-/
import Compio.Model.TlsNet

namespace Compio.TlsShim
open Compio.TlsNet

inductive Side where
  | client
  | server
  deriving Repr, DecidableEq

def Side.other : Side → Side
  | .client => .server
  | .server => .client

/-- result of a std-style (blocking-API) call through the shim -/
inductive BioR (α : Type) where
  | ok (a : α)
  | wouldBlock (p : Pend)
  | err
  /-- `assert!(!self.context.is_null())` failed -/
  | panic
  deriving Repr

inductive CloseState where
  | none
  | queued      -- the alert record is (partly) in `out`
  | sent
  deriving Repr, DecidableEq

/-- the engine (`SSL*`) and the shim state around it (`OpensslInner`, `AllowStd`) of one endpoint -/
structure Ossl where
  me : Side
  /-- remaining handshake cells (who sends each) -/
  tape : List Side
  /-- post-handshake cells still to be written inside `SSL_do_handshake` -/
  post : Nat
  /-- record (rest) that `SSL_write` / `SSL_shutdown` still has to push through `BIO_write` -/
  out : List Cell
  /-- plaintext length the pending record stands for -/
  outPlain : Nat
  close : CloseState
  rcvdClose : Bool
  -- OpensslInner
  written : Bool
  handshaken : Bool
  -- AllowStd
  ctx : Bool
  deriving Repr

def Ossl.new (me : Side) (tape : List Side) (post : Nat) : Ossl :=
  { me, tape, post, out := [], outPlain := 0, close := .none, rcvdClose := false,
    written := false, handshaken := false, ctx := false }

/-! ### AllowStd / OpensslInner : the BIO callbacks -/

/-- `AllowStd::write` → `with_context` → `OpensslInner::poll_write` -/
def bioWrite (sc : Sched) (o : Ossl) (v : View) (cs : List Cell) : Ossl × View × BioR Nat :=
  if !o.ctx then (o, v, .panic)
  else
    match ioWrite sc v cs with
    | (v, .ready n) => ({ o with written := true }, v, .ok n)
    | (v, .pending p) => (o, v, .wouldBlock p)
    | (v, .err) => (o, v, .err)

/-- `AllowStd::flush` → `OpensslInner::poll_flush` -/
def bioFlush (sc : Sched) (o : Ossl) (v : View) : Ossl × View × BioR Unit :=
  if !o.ctx then (o, v, .panic)
  else if o.handshaken then
    match ioFlush sc v with
    | (v, .ready ()) => (o, v, .ok ())
    | (v, .pending p) => (o, v, .wouldBlock p)
    | (v, .err) => (o, v, .err)
  else (o, v, .ok ())

/-- `AllowStd::read` → `OpensslInner::poll_read` (the loop runs at most twice) -/
def bioRead (sc : Sched) (o : Ossl) (v : View) (n : Nat) : Ossl × View × BioR (List Cell) :=
  if !o.ctx then (o, v, .panic)
  else
    let inner (o : Ossl) (v : View) : Ossl × View × BioR (List Cell) :=
      match ioRead sc v n with
      | (v, .ready cs) => (o, v, .ok cs)
      | (v, .pending p) => (o, v, .wouldBlock p)
      | (v, .err) => (o, v, .err)
    if !o.handshaken && o.written then
      match ioFlush sc v with
      | (v, .pending p) => (o, v, .wouldBlock p)
      | (v, .err) => (o, v, .err)
      | (v, .ready ()) => inner { o with written := false } v
    else inner o v

/-! ### the abstract engine -/

def leadRun (s : Side) : List Side → Nat
  | [] => 0
  | x :: xs => if x = s then leadRun s xs + 1 else 0

/-- `SSL_do_handshake` / `SSL_connect` / `SSL_accept` -/
def sslDoHandshake (sc : Sched) : Nat → Ossl → View → Ossl × View × BioR Unit
  | 0, o, v => (o, v, .err)       -- out of fuel
  | fuel + 1, o, v =>
    match o.tape with
    | [] =>
      if o.post = 0 then (o, v, .ok ())
      else
        match bioWrite sc o v (List.replicate o.post Cell.post) with
        | (o, v, .ok n) =>
          if n = 0 then (o, v, .err)
          else
            let o := { o with post := o.post - n }
            if o.post = 0 then
              -- end of the flight: BIO_flush (a no-op of the shim while not handshaken)
              match bioFlush sc o v with
              | (o, v, .ok ()) => sslDoHandshake sc fuel o v
              | (o, v, .wouldBlock p) => (o, v, .wouldBlock p)
              | (o, v, .err) => (o, v, .err)
              | (o, v, .panic) => (o, v, .panic)
            else sslDoHandshake sc fuel o v
        | (o, v, .wouldBlock p) => (o, v, .wouldBlock p)
        | (o, v, .err) => (o, v, .err)
        | (o, v, .panic) => (o, v, .panic)
    | d :: _ =>
      if d = o.me then
        let run := leadRun o.me o.tape
        match bioWrite sc o v (List.replicate run Cell.hs) with
        | (o, v, .ok n) =>
          if n = 0 then (o, v, .err)
          else
            let o := { o with tape := o.tape.drop n }
            if n = run then
              match bioFlush sc o v with
              | (o, v, .ok ()) => sslDoHandshake sc fuel o v
              | (o, v, .wouldBlock p) => (o, v, .wouldBlock p)
              | (o, v, .err) => (o, v, .err)
              | (o, v, .panic) => (o, v, .panic)
            else sslDoHandshake sc fuel o v
        | (o, v, .wouldBlock p) => (o, v, .wouldBlock p)
        | (o, v, .err) => (o, v, .err)
        | (o, v, .panic) => (o, v, .panic)
      else
        let need := leadRun o.me.other o.tape
        match bioRead sc o v need with
        | (o, v, .ok cs) =>
          -- unexpected end of stream, or something that is not a handshake byte: fatal
          if cs.isEmpty || cs.any (· != Cell.hs) then (o, v, .err)
          else sslDoHandshake sc fuel { o with tape := o.tape.drop cs.length } v
        | (o, v, .wouldBlock p) => (o, v, .wouldBlock p)
        | (o, v, .err) => (o, v, .err)
        | (o, v, .panic) => (o, v, .panic)

/-- push the pending record through `BIO_write` -/
def pushOut (sc : Sched) : Nat → Ossl → View → Ossl × View × BioR Unit
  | 0, o, v => (o, v, .err)
  | fuel + 1, o, v =>
    if o.out.isEmpty then (o, v, .ok ())
    else
      match bioWrite sc o v o.out with
      | (o, v, .ok n) =>
        if n = 0 then (o, v, .err) else pushOut sc fuel { o with out := o.out.drop n } v
      | (o, v, .wouldBlock p) => (o, v, .wouldBlock p)
      | (o, v, .err) => (o, v, .err)
      | (o, v, .panic) => (o, v, .panic)

def recordMax : Nat := 16384

def record (plain : List UInt8) : List Cell :=
  List.replicate 5 Cell.pad ++ plain.map Cell.app ++ List.replicate 17 Cell.pad

def alertRecord : List Cell := List.replicate 5 Cell.pad ++ [Cell.alert] ++ List.replicate 18 Cell.pad

/-- `SSL_write(buf)`: a retry (pending record) continues the record and must be given the same buffer -/
def sslWrite (sc : Sched) (o : Ossl) (v : View) (buf : List UInt8) : Ossl × View × BioR Nat :=
  if o.close != .none then (o, v, .err)
  else
    let o :=
      if o.out.isEmpty then
        let chunk := buf.take recordMax
        { o with out := if chunk.isEmpty then [] else record chunk, outPlain := chunk.length }
      else o
    match pushOut sc sc.fuel o v with
    | (o, v, .ok ()) => (o, v, .ok o.outPlain)
    | (o, v, .wouldBlock p) => (o, v, .wouldBlock p)
    | (o, v, .err) => (o, v, .err)
    | (o, v, .panic) => (o, v, .panic)

/-- the plaintext of the cells before the first alert, and whether an alert was seen -/
def plainOf : List Cell → List UInt8 × Bool
  | [] => ([], false)
  | Cell.alert :: _ => ([], true)
  | Cell.app b :: cs => let (p, a) := plainOf cs; (b :: p, a)
  | _ :: cs => plainOf cs

/-- `SSL_read(buf[..n])`, with native-tls mapping `ZERO_RETURN` to `Ok(0)` -/
def sslRead (sc : Sched) (n : Nat) : Nat → Ossl → View → Ossl × View × BioR (List UInt8)
  | 0, o, v => (o, v, .err)
  | fuel + 1, o, v =>
    if o.rcvdClose || n = 0 then (o, v, .ok [])
    else
      match bioRead sc o v n with
      | (o, v, .ok cs) =>
        if cs.isEmpty then (o, v, .err)      -- transport EOF without close_notify
        else
          let (p, a) := plainOf cs
          if !p.isEmpty then ({ o with rcvdClose := a }, v, .ok p)
          else if a then ({ o with rcvdClose := true }, v, .ok [])
          else sslRead sc n fuel o v           -- only overhead / post-handshake cells: next record
      | (o, v, .wouldBlock p) => (o, v, .wouldBlock p)
      | (o, v, .err) => (o, v, .err)
      | (o, v, .panic) => (o, v, .panic)

/-- `SSL_shutdown`: send close_notify; `(void)BIO_flush(wbio)` -/
def sslShutdown (sc : Sched) (o : Ossl) (v : View) : Ossl × View × BioR Unit :=
  if o.close = .sent then (o, v, .ok ())
  else
    let o := if o.close = .none then { o with out := o.out ++ alertRecord, close := .queued } else o
    match pushOut sc sc.fuel o v with
    | (o, v, .ok ()) =>
      let o := { o with close := .sent }
      -- the result of the flush is ignored by the engine
      let (o, v, _) := bioFlush sc o v
      (o, v, .ok ())
    | (o, v, .wouldBlock p) => (o, v, .wouldBlock p)
    | (o, v, .err) => (o, v, .err)
    | (o, v, .panic) => (o, v, .panic)

/-! ### `native::TlsStream` : the futures-io face -/

inductive PollR (α : Type) where
  | pending (p : Pend)
  | ready (a : α)
  | err
  | panic
  deriving Repr

/-- `TlsStream::with_context`: set the context, run `f`, the `Guard` clears it -/
def withContext {α : Type} (o : Ossl) (v : View)
    (f : Ossl → View → Ossl × View × BioR α) : Ossl × View × PollR α :=
  match f { o with ctx := true } v with
  | (o, v, .ok a) => ({ o with ctx := false }, v, .ready a)
  | (o, v, .wouldBlock p) => ({ o with ctx := false }, v, .pending p)
  | (o, v, .err) => ({ o with ctx := false }, v, .err)
  | (o, v, .panic) => ({ o with ctx := false }, v, .panic)

def pollRead (sc : Sched) (o : Ossl) (v : View) (n : Nat) : Ossl × View × PollR (List UInt8) :=
  withContext o v (fun o v => sslRead sc n sc.fuel o v)

def pollWrite (sc : Sched) (o : Ossl) (v : View) (buf : List UInt8) : Ossl × View × PollR Nat :=
  withContext o v (fun o v => sslWrite sc o v buf)

def pollFlush (sc : Sched) (o : Ossl) (v : View) : Ossl × View × PollR Unit :=
  withContext o v (bioFlush sc)

def pollClose (sc : Sched) (o : Ossl) (v : View) : Ossl × View × PollR Unit :=
  withContext o v (sslShutdown sc)

/-! ### the `handshake` async fn -/

inductive HsFut where
  | start      -- `StartedHandshakeFuture` not polled yet
  | mid        -- inside `MidHandshake`
  | flush      -- inside the post-handshake `stream.flush().await`
  | done
  | failed
  deriving Repr, DecidableEq

/-- one poll of `handshake(f, stream)` -/
def pollHandshake (sc : Sched) (fut : HsFut) (o : Ossl) (v : View) : HsFut × Ossl × View × PollR Unit :=
  let mid (o : Ossl) (v : View) : HsFut × Ossl × View × PollR Unit :=
    -- MidHandshake::poll: set_context, handshake(), clear_context
    match sslDoHandshake sc sc.fuel { o with ctx := true } v with
    | (o, v, .wouldBlock p) => (.mid, { o with ctx := false }, v, .pending p)
    | (o, v, .err) => (.failed, { o with ctx := false }, v, .err)
    | (o, v, .panic) => (.failed, { o with ctx := false }, v, .panic)
    | (o, v, .ok ()) =>
      -- finish_handshake(); stream.flush().await
      let o := { o with ctx := false, handshaken := true }
      match pollFlush sc o v with
      | (o, v, .ready ()) => (.done, o, v, .ready ())
      | (o, v, .pending p) => (.flush, o, v, .pending p)
      | (o, v, .err) => (.failed, o, v, .err)
      | (o, v, .panic) => (.failed, o, v, .panic)
  match fut with
  | .start =>
    -- StartedHandshakeFuture::poll: AllowStd::new(stream, ctx); f(stream); clear_context
    match sslDoHandshake sc sc.fuel { o with ctx := true } v with
    | (o, v, .ok ()) => (.done, { o with ctx := false }, v, .ready ())      -- StartedHandshake::Done
    | (o, v, .wouldBlock _) => mid { o with ctx := false } v                  -- StartedHandshake::Mid, awaited at once
    | (o, v, .err) => (.failed, { o with ctx := false }, v, .err)
    | (o, v, .panic) => (.failed, { o with ctx := false }, v, .panic)
  | .mid => mid o v
  | .flush =>
    match pollFlush sc o v with
    | (o, v, .ready ()) => (.done, o, v, .ready ())
    | (o, v, .pending p) => (.flush, o, v, .pending p)
    | (o, v, .err) => (.failed, o, v, .err)
    | (o, v, .panic) => (.failed, o, v, .panic)
  | .done => (.done, o, v, .ready ())
  | .failed => (.failed, o, v, .err)

end Compio.TlsShim
