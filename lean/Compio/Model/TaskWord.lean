/-
The task state word of compio-executor (task/state.rs) as seven named flag bits plus the reference
count kept in the upper bits. The *operations* on it are not written here: they are regenerated from
the source into Compio/Gen/TaskState.lean on every run.
-/
namespace Compio.TaskWord

inductive Flag where
  | scheduled | scheduling | notSettingWaker | hasWaker | completed | hasResult | notCancelled
  deriving DecidableEq, Repr

structure Word where
  scheduled : Bool
  scheduling : Bool
  notSettingWaker : Bool
  hasWaker : Bool
  completed : Bool
  hasResult : Bool
  notCancelled : Bool
  count : Nat
  deriving DecidableEq, Repr

def Word.zero : Word := ⟨false, false, false, false, false, false, false, 0⟩

def Word.get (w : Word) : Flag → Bool
  | .scheduled => w.scheduled
  | .scheduling => w.scheduling
  | .notSettingWaker => w.notSettingWaker
  | .hasWaker => w.hasWaker
  | .completed => w.completed
  | .hasResult => w.hasResult
  | .notCancelled => w.notCancelled

def Word.set (w : Word) (f : Flag) (b : Bool) : Word :=
  match f with
  | .scheduled => { w with scheduled := b }
  | .scheduling => { w with scheduling := b }
  | .notSettingWaker => { w with notSettingWaker := b }
  | .hasWaker => { w with hasWaker := b }
  | .completed => { w with completed := b }
  | .hasResult => { w with hasResult := b }
  | .notCancelled => { w with notCancelled := b }

/-- `fetch_or(mask)` restricted to flag bits -/
def Word.setFlags (w : Word) (fs : List Flag) : Word := fs.foldl (fun w f => w.set f true) w

/-- `fetch_and(!mask)` restricted to flag bits -/
def Word.clearFlags (w : Word) (fs : List Flag) : Word := fs.foldl (fun w f => w.set f false) w

def Word.withCount (w : Word) (n : Nat) : Word := { w with count := n }

end Compio.TaskWord
