/-
Model of the part of compio-ws that compio wrote (compio-ws/src/lib.rs `WebSocketStream`):

* `Sink::poll_flush`  : the protocol flush (`async_tungstenite::WebSocketStream::poll_flush`), and when that
  is ready a flush of the underlying `MaybeTlsStream` with the caller's context;
* `Stream::poll_next` : an item obtained from the protocol layer is parked in `next_item`; before it is
  yielded the protocol flush and the transport flush must both be ready (a `Pending` keeps the item);
* `send` = `poll_ready`, `start_send`, `poll_flush`;  `read` = `next`;  `close` = `send(Close)`.

The WebSocket engine (tungstenite behind async-tungstenite's adapter) is third-party and a parameter: an
abstract frame layer with
  - `out` : frames serialised into the write buffer but not yet written to the stream;
  - `additional` : the reply that reading a ping / close has queued (`additional_send`) - tungstenite returns
    the ping / close message to the caller *without* writing the reply;
  - `flush` = write `additional`, write `out`, flush the stream; `write(msg)` = queue the frame (and try to
    write when the buffer is large: not modelled, the frame is only queued).
The stream below is frame-granular: `dw` / `df` consecutive `Pending`s (wake-up arranged by the transport)
before a frame write / a flush is performed; `buffering` (a TLS session in between): written frames reach the
peer only on flush.
Core Lean only.
-/
import Compio.Model.TlsNet

namespace Compio.WsShim
open Compio.TlsNet (Pend)

inductive Kind where
  | text | bin | ping | pong | close
  deriving Repr, DecidableEq

structure Frame where
  kind : Kind
  data : List UInt8
  deriving Repr, DecidableEq

structure WSched where
  buffering : Bool
  dw : Nat
  df : Nat
  deriving Repr

/-- the stream under the WebSocket, seen from one endpoint -/
structure WView where
  /-- written, not yet flushed (buffering stream) -/
  tbuf : List Frame
  cw : Nat
  cf : Nat
  /-- frames on their way to the peer / from the peer -/
  tx : List Frame
  rx : List Frame
  rwait : Bool
  deriving Repr

inductive R (α : Type) where
  | pending (p : Pend)
  | ready (a : α)
  deriving Repr

/-- write one frame to the stream -/
def sWrite (sc : WSched) (v : WView) (f : Frame) : WView × R Unit :=
  if v.cw < sc.dw then ({ v with cw := v.cw + 1 }, .pending .self)
  else
    let v := { v with cw := 0 }
    if sc.buffering then ({ v with tbuf := v.tbuf ++ [f] }, .ready ())
    else ({ v with tx := v.tx ++ [f] }, .ready ())

/-- flush the stream -/
def sFlush (sc : WSched) (v : WView) : WView × R Unit :=
  if v.cf < sc.df then ({ v with cf := v.cf + 1 }, .pending .self)
  else ({ v with cf := 0, tx := v.tx ++ v.tbuf, tbuf := [] }, .ready ())

/-- read one frame from the stream -/
def sRead (v : WView) : WView × R Frame :=
  match v.rx with
  | [] => ({ v with rwait := true }, .pending .reg)
  | f :: rest => ({ v with rx := rest }, .ready f)

/-- the abstract engine -/
structure Eng where
  out : List Frame
  additional : Option Frame
  /-- async-tungstenite: `ready` (the last `start_send` did not block) -/
  ready : Bool
  closeSent : Bool
  closeRcvd : Bool
  deriving Repr

def Eng.new : Eng := ⟨[], none, true, false, false⟩

/-- write the frames of `out` one by one -/
def writeOut (sc : WSched) : List Frame → WView → List Frame × WView × R Unit
  | [], v => ([], v, .ready ())
  | f :: rest, v =>
    match sWrite sc v f with
    | (v, .ready ()) => writeOut sc rest v
    | (v, .pending p) => (f :: rest, v, .pending p)

/-- the queued reply joins the write buffer -/
def Eng.queueReply (e : Eng) : Eng :=
  match e.additional with
  | some f => { e with out := e.out ++ [f], additional := none }
  | none => e

/-- the protocol flush: `additional`, then the write buffer, then the stream -/
def engFlush (sc : WSched) (e : Eng) (v : WView) : Eng × WView × R Unit :=
  let e := e.queueReply
  match writeOut sc e.out v with
  | (rest, v, .pending p) => ({ e with out := rest }, v, .pending p)
  | (rest, v, .ready ()) =>
    match sFlush sc v with
    | (v, .ready ()) => ({ e with out := rest, ready := true }, v, .ready ())
    | (v, .pending p) => ({ e with out := rest }, v, .pending p)

/-- `write(msg)`: queue the frame -/
def engWrite (e : Eng) (f : Frame) : Eng :=
  { e with out := e.out ++ [f], closeSent := e.closeSent || f.kind == .close }

/-- the protocol read: a ping queues the pong, a close queues the reply (unless we sent ours already);
both are returned to the caller without writing the reply -/
def engRead (e : Eng) (v : WView) : Eng × WView × R Frame :=
  match sRead v with
  | (v, .pending p) => (e, v, .pending p)
  | (v, .ready f) =>
    match f.kind with
    | .ping => ({ e with additional := some ⟨.pong, f.data⟩ }, v, .ready f)
    | .close =>
      if e.closeSent then ({ e with closeRcvd := true }, v, .ready f)
      else ({ e with closeRcvd := true, closeSent := true, additional := some ⟨.close, f.data⟩ }, v, .ready f)
    | _ => (e, v, .ready f)

/-- compio-ws `WebSocketStream` -/
structure Ws where
  e : Eng
  nextItem : Option Frame
  deriving Repr

def Ws.new : Ws := ⟨Eng.new, none⟩

/-- `Sink::poll_flush` of compio-ws -/
def pollFlush (sc : WSched) (w : Ws) (v : WView) : Ws × WView × R Unit :=
  match engFlush sc w.e v with
  | (e, v, .pending p) => ({ w with e }, v, .pending p)
  | (e, v, .ready ()) =>
    match sFlush sc v with
    | (v, .pending p) => ({ w with e }, v, .pending p)
    | (v, .ready ()) => ({ w with e }, v, .ready ())

/-- `Stream::poll_next` of compio-ws (the loop runs at most twice) -/
def pollNext (sc : WSched) (w : Ws) (v : WView) : Ws × WView × R Frame :=
  let yield (w : Ws) (v : WView) (item : Frame) : Ws × WView × R Frame :=
    match pollFlush sc w v with
    | (w, v, .pending p) => (w, v, .pending p)
    | (w, v, .ready ()) => ({ w with nextItem := none }, v, .ready item)
  match w.nextItem with
  | some item => yield w v item
  | none =>
    match engRead w.e v with
    | (e, v, .pending p) => ({ w with e }, v, .pending p)
    | (e, v, .ready item) => yield { w with e, nextItem := some item } v item

/-- `send(msg)`: `poll_ready` (flush a blocked earlier send), `start_send`, `poll_flush`;
`queued` says whether `start_send` has happened already (the `Send` future's `msg.take()`) -/
def pollSend (sc : WSched) (w : Ws) (v : WView) (f : Frame) (queued : Bool) : Ws × WView × Bool × R Unit :=
  if queued then
    let (w, v, r) := pollFlush sc w v
    (w, v, true, r)
  else
    let ready : Ws × WView × R Unit :=
      if w.e.ready then (w, v, .ready ())
      else
        match engFlush sc w.e v with
        | (e, v, r) => ({ w with e }, v, r)
    match ready with
    | (w, v, .pending p) => (w, v, false, .pending p)
    | (w, v, .ready ()) =>
      let w := { w with e := engWrite w.e f }
      let (w, v, r) := pollFlush sc w v
      (w, v, true, r)

end Compio.WsShim
