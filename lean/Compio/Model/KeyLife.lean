/-
Key life-cycle model shared by C01 (in-flight operations keep their memory alive) and C05 (cancellation).

One labelled transition system for `compio-driver`'s `Proactor` over either driver:

  * compio-driver/src/key.rs           `ErasedKey` (ThinCell strong count), `WeakKey`, `FrozenKey`, `BorrowedKey`
  * compio-driver/src/lib.rs           `Proactor::{push, pop, pop_multishot, cancel, cancel_token, register_cancel}`, `Entry::notify`
  * sys/driver/iour/mod.rs             `push_raw_with_key`, `push_raw`, `cancel`, `poll_entries`, `poll_blocking`, `impl Drop`
  * sys/driver/poll/mod.rs             `submit`, `cancel`/`cancel_one`/`remove_one`/`renew`, `poll_one`, `poll_completed`, `impl Drop`

Per operation the model keeps the *real* counter (`rc`, what `ThinCell::count` would say: every `clone`
adds one, every drop of a key subtracts one, reaching zero frees the operation, i.e. its buffer and its
descriptor) next to the *places* where a key reference lives (user handle, `in_flight` user_data leaked to the
kernel, entries of the completed channel, a frozen key inside a running pool job, fd queues of the polling
driver). The C01 theorems say the two always agree.

Abstractions (documented in notes/C01.md): the completion queue and the completed channel are kept as
per-operation FIFOs (handling CQEs of different operations commutes); an operation waits on ONE descriptor
in one direction; `poller.add/modify/delete` on a registered open descriptor succeed.

Events are micro-steps; a `Proactor` call is a short sequence of them (`Compio.KeyLife.Api`, bottom of the
file), so every theorem quantified over event lists covers every sequence of API calls, every kernel
timing and — because the LTS also accepts interleavings the single-threaded code cannot produce — more.

Core Lean only.
-/
import Compio.Gen.DriverDrop
import Compio.Model.PollQueues

namespace Compio.KeyLife

open Compio.PollQueues

inductive Drv where
  | iour
  | poll
  deriving DecidableEq, Repr

/-- operation kinds: single-shot (`Recv`, `Read`, `Accept`, …), multishot (`AcceptMulti`, `RecvMulti`),
zero-copy send (first CQE carries `more`, the notification CQE is final), thread-pool (`Asyncify`) -/
inductive Kind where
  | single
  | multi
  | zc
  | blocking
  deriving DecidableEq, Repr

/-- `io::Result<usize>` -/
inductive Res where
  | ok (n : Nat)
  | err (e : Nat)
  deriving DecidableEq, Repr

/-- `libc::ECANCELED` -/
def ECANCELED : Res := .err 125

/-- what the kernel knows about the operation (io_uring only) -/
inductive KStat where
  | none      -- never handed to the kernel
  | queued    -- SQE written to the submission queue, not yet submitted
  | inflight  -- submitted, final CQE not yet posted
  | done      -- final CQE posted
  deriving DecidableEq, Repr

structure Op where
  id : Nat
  kind : Kind
  fd : Nat
  dir : Dir
  /-- `ThinCell` strong count; 0 = storage released (freed, or moved out by `take_result`) -/
  rc : Nat
  /-- key handles held by the submitter -/
  user : Nat
  /-- user_data is in `in_flight`: one reference leaked with `into_raw` -/
  inFl : Bool
  /-- entries of the completed channel for this op (each owns a key) with the result they carry -/
  chan : List Res
  /-- a pool job owns a `FrozenKey` -/
  poolRun : Bool
  /-- `Cancel` tokens (weak) -/
  weak : Nat
  cancelled : Bool
  /-- `RawOp::result` when `Ready` -/
  result : Option Res
  /-- results pushed by `push_multishot`, not yet popped -/
  multi : List Res
  kstat : KStat
  /-- an `AsyncCancel` for this op reached the kernel -/
  kcancel : Bool
  /-- `AsyncCancel` SQEs for this op sitting in the submission queue -/
  cancelSq : Nat
  /-- CQEs posted by the kernel, not yet seen by the driver: the ones flagged `more`, then the final one -/
  pendMore : List Res
  pendFinal : Option Res
  -- ghost history
  freed : Nat
  returned : Nat
  /-- a key was used or dropped after the storage was released -/
  uaf : Bool
  /-- the final CQE (for zero-copy: the notification) has been processed by `poll_entries` -/
  finalSeen : Bool
  /-- every result the kernel / `operate` / the pool closure produced for this op -/
  produced : List Res
  /-- `AsyncCancel` SQEs that were dropped because the submission queue was full (F9) -/
  cancelDropped : Nat
  deriving DecidableEq, Repr

namespace Op

def new (id : Nat) (k : Kind) (fd : Nat) (d : Dir) : Op :=
  { id, kind := k, fd, dir := d, rc := 1, user := 1, inFl := false, chan := [], poolRun := false, weak := 0,
    cancelled := false, result := none, multi := [], kstat := .none, kcancel := false, cancelSq := 0,
    pendMore := [], pendFinal := none, freed := 0, returned := 0, uaf := false, finalSeen := false,
    produced := [], cancelDropped := 0 }

/-- drop of `n` `ErasedKey`s of this op, one after the other: the count goes down; the drop that takes it
from 1 to 0 frees the operation; a drop at count 0 touches released storage.
(Closed form; `dropRefs_succ` in Lemmas/KeyLife.lean shows it is the iteration of the single drop.) -/
def dropRefs (o : Op) (n : Nat) : Op :=
  { o with rc := o.rc - n,
           freed := if 0 < o.rc ∧ o.rc ≤ n then o.freed + 1 else o.freed,
           uaf := o.uaf || decide (o.rc < n) }

/-- drop of one `ErasedKey` -/
def dropRef (o : Op) : Op := o.dropRefs 1

/-- `ErasedKey::clone` -/
def cloneRef (o : Op) : Op := { o with rc := o.rc + 1 }

/-- `Key::take_result` on a unique key: the operation is moved out to the caller -/
def takeResult (o : Op) : Op := { o with rc := 0, user := 0, returned := o.returned + 1 }

/-- `poll_blocking` / `poll_completed` restricted to this op: `Entry::notify` for each entry of the completed
channel, oldest first (`set_result`, then the entry's key is dropped): the last result stays, as many
references as entries are dropped -/
def drainChan (o : Op) : Op :=
  match o.chan.getLast? with
  | none => o
  | some r => { o with chan := [], result := some r }.dropRefs o.chan.length

/-- the channel is destroyed with entries still queued -/
def dropChan (o : Op) : Op := { o with chan := [] }.dropRefs o.chan.length

/-- `io_uring_enter`: the SQEs of this op move to the kernel -/
def submit (o : Op) : Op :=
  { o with kstat := if o.kstat = .queued then .inflight else o.kstat,
           kcancel := o.kcancel || decide (0 < o.cancelSq), cancelSq := 0 }

/-- `poll_entries` restricted to this op: CQEs with `more` go through a `BorrowedKey` to `push_multishot`
(a dereference: released storage would be touched); the final one removes the user_data from `in_flight`,
re-materialises the leaked key (`create_entry`), stores the result (`Entry::notify`) and drops that key -/
def drainCq (o : Op) : Op :=
  let o2 : Op := { o with multi := o.multi ++ o.pendMore, pendMore := [],
                          uaf := o.uaf || (!o.pendMore.isEmpty && o.rc == 0) }
  match o.pendFinal with
  | none => o2
  | some r => { o2 with pendFinal := none, inFl := false, result := some r, finalSeen := true }.dropRef

/-- number of CQEs the `Drop` drain loop turns back into keys for this op -/
def dropDrainCount (chk : Bool) (o : Op) : Nat :=
  (if chk then 0 else o.pendMore.length) + (if o.pendFinal.isSome then 1 else 0)

/-- CQ drain loop of `impl Drop for iour::Driver` restricted to this op: every CQE carrying the op's
user_data is turned back into a key (`in_flight.remove`, `ErasedKey::from_raw`) and dropped. `chk` = the loop
skips CQEs flagged `more` (`Gen.iourDropDrainChecksMore`; the code at the pinned commit does not, F13). -/
def dropDrain (chk : Bool) (o : Op) : Op :=
  { o with pendMore := [], pendFinal := none,
           inFl := if o.dropDrainCount chk = 0 then o.inFl else false }.dropRefs (o.dropDrainCount chk)

/-- `for user_data in self.in_flight.drain() { drop(from_raw(user_data)) }` restricted to this op -/
def freeInFlight (o : Op) : Op :=
  { o with inFl := false }.dropRefs (if o.inFl then 1 else 0)

end Op

/-- step kinds of a driver's destruction: the generated ones of `iour::Driver`, the poller clean-up of
`poll::Driver`, and the drop glue of the remaining fields (registry, channel) -/
inductive DStep where
  | drainCq
  | closeRing
  | freeInFlight
  | pollDelete
  | fields
  deriving DecidableEq, Repr

def DStep.ofGen : Gen.DropStep → DStep
  | .drainCq => .drainCq
  | .closeRing => .closeRing
  | .freeInFlight => .freeInFlight

/-- what is read from the source by the extractor -/
structure Cfg where
  iourDrop : List Gen.DropStep
  drainChecksMore : Bool
  /-- `iour::Driver::cancel` queues its SQE through `push_raw` (repair of F9) -/
  cancelPushRaw : Bool

def Cfg.gen : Cfg := ⟨Gen.iourDriverDrop, Gen.iourDropDrainChecksMore, Gen.iourCancelUsesPushRaw⟩

def dropProg (c : Cfg) : Drv → List DStep
  | .iour => c.iourDrop.map DStep.ofGen ++ [.fields]
  | .poll => [.pollDelete, .fields]

def noInterest : FdQ.Interest := ⟨false, false, none⟩

structure State where
  drv : Drv
  /-- submission queue entries (`ProactorBuilder::capacity`, a power of two) -/
  cap : Nat
  ops : List Op
  /-- SQEs written and not yet submitted -/
  sqLen : Nat
  /-- io_uring instance still open -/
  ring : Bool
  /-- `Proactor` not dropped -/
  alive : Bool
  /-- inside `Drop`: index of the next step of `dropProg` -/
  dropPc : Option Nat
  /-- `DriverFlags::NEED_PUSH_NOTIFIER` -/
  needNotifier : Bool
  /-- the receiver of the completed channel exists -/
  chanOpen : Bool
  reg : Reg
  /-- what the poller watches per descriptor -/
  armed : Nat → FdQ.Interest
  /-- the `Drop` drain loop met a CQE flagged `more` (guard of the C01 theorems, finding F13) -/
  hazard : Bool
  /-- `pop` hit `expect("Key not unique")` -/
  panicked : Bool

def init (d : Drv) (cap : Nat) : State :=
  { drv := d, cap, ops := [], sqLen := 0, ring := true, alive := true, dropPc := none, needNotifier := true,
    chanOpen := true, reg := Reg.empty, armed := fun _ => noInterest, hazard := false, panicked := false }

def modAt {α : Type} (f : α → α) : List α → Nat → List α
  | [], _ => []
  | x :: xs, 0 => f x :: xs
  | x :: xs, n + 1 => x :: modAt f xs n

inductive Event where
  -- `Proactor` calls, micro-steps
  /-- io_uring `push_raw_with_key` when the SQ has room: SQE written, `in_flight.insert`, `into_raw` -/
  | pushSq (k : Kind) (fd : Nat) (d : Dir)
  /-- `Driver::push` returned `Ready(Err e)` (hard `submit` error in `push_raw`, `pre_submit` / `poller.add`
  error): the clone handed to the driver is dropped, the op goes back to the caller -/
  | pushFail (k : Kind) (fd : Nat) (d : Dir) (e : Nat)
  /-- `push_blocking`: the clone is frozen and moved into a pool job -/
  | pushBlocking
  /-- polling `Decision::Wait`: the clone is appended to the fd queue -/
  | pushWait (k : Kind) (fd : Nat) (d : Dir)
  /-- polling `Decision::Completed`: ready at once, the op goes back to the caller -/
  | pushReady (k : Kind) (fd : Nat) (d : Dir) (r : Res)
  /-- `Proactor::cancel(key)` (what dropping a submitted future does) -/
  | userCancel (id : Nat) (posts : List (Nat × Bool × Res))
  /-- `Proactor::cancel(key.clone())` (`CancelToken::register` on a token that already fired) -/
  | cloneCancel (id : Nat) (posts : List (Nat × Bool × Res))
  /-- plain `drop(key)` -/
  | userDrop (id : Nat)
  /-- `Proactor::pop(key)` -/
  | userPop (id : Nat)
  /-- `Proactor::pop_multishot(&key)` -/
  | popMulti (id : Nat)
  /-- `Proactor::register_cancel(&key)` -/
  | tokenRegister (id : Nat)
  | tokenDrop (id : Nat)
  /-- `Proactor::cancel_token(token)` -/
  | tokenCancel (id : Nat) (posts : List (Nat × Bool × Res))
  -- inside `Driver::poll` / `flush` / the `push_raw` overflow loop
  /-- io_uring `poll`: the multishot `PollAdd` on the notifier eventfd takes an SQ slot -/
  | pushNotifier
  /-- `io_uring_enter` -/
  | submit
  /-- io_uring `poll_entries` -/
  | pollEntries
  /-- `poll_blocking` / `poll_completed`: drain the completed channel -/
  | pollBlocking
  /-- polling `poll_one(event, fd)`; `r = none`: `operate` returned `Pending` (requeued at the front) -/
  | fdEvent (fd : Nat) (rd wr : Bool) (r : Option Res)
  /-- `drop(proactor)` starts -/
  | dropBegin
  /-- next statement of the driver's `Drop` -/
  | dropStep
  -- environment
  /-- the kernel posts a CQE for an in-flight op -/
  | kPost (id : Nat) (more : Bool) (r : Res)
  /-- the pool job ran the closure with outcome `r`; its key goes into the completed channel -/
  | poolDone (id : Nat) (r : Res)
  deriving Repr

/-- the kernel posts a CQE (same guard and effect as the `kPost` event of `step`, see `step_kPost_eq`) -/
def kPostStep (s : State) (id : Nat) (more : Bool) (r : Res) : Option State :=
  match s.ops[id]? with
  | some o =>
    if s.ring ∧ s.drv = .iour ∧ o.kstat = .inflight ∧ (more → o.kind = .multi ∨ o.kind = .zc) then
      if more then
        some { s with ops := modAt (fun o => { o with pendMore := o.pendMore ++ [r],
                                                      produced := o.produced ++ [r] }) s.ops id }
      else
        some { s with ops := modAt (fun o => { o with pendFinal := some r, kstat := .done,
                                                      produced := o.produced ++ [r] }) s.ops id }
    else none
  | none => none

/-- `io_uring_enter` (same effect as the `submit` event) -/
def submitAll (s : State) : State := { s with sqLen := 0, ops := s.ops.map Op.submit }

/-- `poll_entries` (same effect as the `pollEntries` event) -/
def drainAll (s : State) : State := { s with ops := s.ops.map Op.drainCq }

/-- one round of the `push_raw` overflow loop INSIDE a driver call: submit, the kernel posts `posts` (those it
cannot post are ignored), the completion queue is drained -/
def overflowDrain (s : State) (posts : List (Nat × Bool × Res)) : State :=
  drainAll (posts.foldl (fun s p => (kPostStep s p.1 p.2.1 p.2.2).getD s) (submitAll s))

/-- the AsyncCancel SQE of op `id` is written to the submission queue -/
def queueCancel (s : State) (id : Nat) : State :=
  { s with sqLen := s.sqLen + 1, ops := modAt (fun o => { o with cancelSq := o.cancelSq + 1 }) s.ops id }

/-- io_uring `Driver::cancel` as it was before the repair of F9: the AsyncCancel SQE is pushed with a bare
`squeue.push`; when the queue is full only a warning is logged and the cancellation is lost -/
def iourCancelUnfixed (s : State) (id : Nat) : State :=
  if s.sqLen < s.cap then queueCancel s id
  else { s with ops := modAt (fun o => { o with cancelDropped := o.cancelDropped + 1 }) s.ops id }

/-- io_uring `Driver::cancel`: the AsyncCancel SQE goes through `push_raw` — with a full submission queue the
driver submits, drains the completion queue (completions are reaped INSIDE `cancel`) and retries.
(`c.cancelPushRaw = false`: the code before the repair.) -/
def iourCancel (c : Cfg) (s : State) (id : Nat) (posts : List (Nat × Bool × Res)) : State :=
  if c.cancelPushRaw then
    if s.sqLen < s.cap then queueCancel s id else queueCancel (overflowDrain s posts) id
  else iourCancelUnfixed s id

/-- polling `Driver::cancel` → `cancel_one(key.clone(), fd)` → `remove_one` (`queue.remove`, `renew`) →
`Entry::new_cancelled` sent to the completed channel. Thread-pool ops have `op_type() = None`: nothing. -/
def pollCancel (s : State) (id : Nat) (o : Op) : State :=
  if o.kind = .blocking then s
  else
    let q := s.reg o.fd
    let q' := q.remove id
    { s with reg := upd s.reg o.fd q', armed := upd s.armed o.fd q'.event,
             ops := modAt (fun o => { (o.cloneRef.dropRefs (q.occ id)) with chan := o.chan ++ [ECANCELED] }) s.ops id }

def driverCancel (c : Cfg) (s : State) (id : Nat) (o : Op) (posts : List (Nat × Bool × Res)) : State :=
  match s.drv with
  | .iour => iourCancel c s id posts
  | .poll => pollCancel s id o

/-- the tail shared by `Proactor::cancel` and `Proactor::cancel_token` once `set_cancelled()` returned false and the
driver has to be asked: the flag is set, `Driver::cancel(key)` runs, and the key that was passed in (counted in
`rc` and `user`) is dropped -/
def cancelIssue (c : Cfg) (s : State) (id : Nat) (o : Op) (posts : List (Nat × Bool × Res)) : State :=
  let s1 := { s with ops := modAt (fun o => { o with cancelled := true }) s.ops id }
  let s2 := driverCancel c s1 id o posts
  { s2 with ops := modAt (fun o => { o with user := o.user - 1 }.dropRef) s2.ops id }

/-- `Proactor::cancel(key)` where the key passed in is already counted in `rc` and `user` -/
def cancelKey (c : Cfg) (s : State) (id : Nat) (o : Op) (posts : List (Nat × Bool × Res)) : State :=
  if o.cancelled then
    { s with ops := modAt (fun o => { o with user := o.user - 1 }.dropRef) s.ops id }
  else if o.rc = 1 ∧ o.result.isSome then
    { s with ops := modAt (fun o => { o with cancelled := true }.takeResult) s.ops id }
  else cancelIssue c s id o posts

/-- `Proactor::cancel_token(token)`; `o.rc > 0`: `token.upgrade()` yields a temporary key, counted like a
handle of the caller until it is dropped at the end of the call -/
def cancelTok (c : Cfg) (s : State) (id : Nat) (o : Op) (posts : List (Nat × Bool × Res)) : State :=
  let o1 : Op := { o.cloneRef with user := o.user + 1 }
  let s0 := { s with ops := modAt (fun o => { o.cloneRef with user := o.user + 1 }) s.ops id }
  if o.cancelled ∨ o.result.isSome then
    { s0 with ops := modAt (fun o => { o with cancelled := true, user := o.user - 1 }.dropRef) s0.ops id }
  else cancelIssue c s0 id o1 posts

/-- return value of `cancel_token` -/
def cancelTokRet (o : Op) : Bool := decide (0 < o.rc) && !o.cancelled && o.result.isNone

/-- drop glue of the channel: the queued entries die with the last handle of the channel; pool jobs
still running own a `Sender` -/
def dropChans (ops : List Op) : List Op :=
  if ops.any (·.poolRun) then ops else ops.map Op.dropChan

def execDStep (c : Cfg) (s : State) : DStep → State
  | .drainCq =>
    { s with hazard := s.hazard || (!c.drainChecksMore && s.ops.any (fun o => !o.pendMore.isEmpty)),
             ops := s.ops.map (Op.dropDrain c.drainChecksMore) }
  | .closeRing =>
    -- the rings are unmapped: whatever the kernel posted after the drain loop is gone
    { s with ring := false, ops := s.ops.map fun o => { o with pendMore := [], pendFinal := none } }
  | .freeInFlight => { s with ops := s.ops.map Op.freeInFlight }
  | .pollDelete => { s with armed := fun _ => noInterest }
  | .fields =>
    { s with chanOpen := false, reg := Reg.empty,
             ops := dropChans (s.ops.map fun o => o.dropRefs ((s.reg o.fd).occ o.id)) }

def step (c : Cfg) (s : State) : Event → Option State
  | .pushSq k fd d =>
    if s.alive ∧ s.drv = .iour ∧ k ≠ .blocking ∧ s.sqLen < s.cap then
      some { s with sqLen := s.sqLen + 1,
                    ops := s.ops ++ [{ (Op.new s.ops.length k fd d).cloneRef with inFl := true, kstat := .queued }] }
    else none
  | .pushFail k fd d e =>
    if s.alive then
      some { s with ops := s.ops ++ [{ (Op.new s.ops.length k fd d).cloneRef.dropRef with
                                         result := some (.err e), produced := [.err e] }.takeResult] }
    else none
  | .pushBlocking =>
    if s.alive then
      some { s with ops := s.ops ++ [{ (Op.new s.ops.length .blocking 0 .rd).cloneRef with poolRun := true }] }
    else none
  | .pushWait k fd d =>
    if s.alive ∧ s.drv = .poll ∧ k ≠ .blocking then
      let q := (s.reg fd).pushBack d s.ops.length
      some { s with ops := s.ops ++ [(Op.new s.ops.length k fd d).cloneRef],
                    reg := upd s.reg fd q, armed := upd s.armed fd q.event }
    else none
  | .pushReady k fd d r =>
    if s.alive ∧ s.drv = .poll ∧ k ≠ .blocking then
      some { s with ops := s.ops ++ [{ (Op.new s.ops.length k fd d).cloneRef.dropRef with
                                         result := some r, produced := [r] }.takeResult] }
    else none
  | .userCancel id posts =>
    match s.ops[id]? with
    | some o => if s.alive ∧ 0 < o.user then some (cancelKey c s id o posts) else none
    | none => none
  | .cloneCancel id posts =>
    match s.ops[id]? with
    | some o =>
      if s.alive ∧ 0 < o.user then
        let o' : Op := { o.cloneRef with user := o.user + 1 }
        some (cancelKey c { s with ops := modAt (fun o => { o.cloneRef with user := o.user + 1 }) s.ops id } id o' posts)
      else none
    | none => none
  | .userDrop id =>
    match s.ops[id]? with
    | some o =>
      if s.dropPc = none ∧ 0 < o.user then
        some { s with ops := modAt (fun o => { o with user := o.user - 1 }.dropRef) s.ops id }
      else none
    | none => none
  | .userPop id =>
    match s.ops[id]? with
    | some o =>
      if s.alive ∧ 0 < o.user then
        if o.result.isSome then
          if o.rc = 1 then some { s with ops := modAt Op.takeResult s.ops id }
          else some { s with panicked := true,
                             ops := modAt (fun o => { o with user := o.user - 1 }.dropRef) s.ops id }
        else some s
      else none
    | none => none
  | .popMulti id =>
    match s.ops[id]? with
    | some o =>
      if s.alive ∧ 0 < o.user then some { s with ops := modAt (fun o => { o with multi := o.multi.drop 1 }) s.ops id }
      else none
    | none => none
  | .tokenRegister id =>
    match s.ops[id]? with
    | some o =>
      if s.alive ∧ 0 < o.user then some { s with ops := modAt (fun o => { o with weak := o.weak + 1 }) s.ops id }
      else none
    | none => none
  | .tokenDrop id =>
    match s.ops[id]? with
    | some o =>
      if 0 < o.weak then some { s with ops := modAt (fun o => { o with weak := o.weak - 1 }) s.ops id }
      else none
    | none => none
  | .tokenCancel id posts =>
    match s.ops[id]? with
    | some o =>
      if s.alive ∧ 0 < o.weak then
        if o.rc = 0 then some s else some (cancelTok c s id o posts)
      else none
    | none => none
  | .pushNotifier =>
    if s.alive ∧ s.drv = .iour ∧ s.needNotifier ∧ s.sqLen < s.cap then
      some { s with sqLen := s.sqLen + 1, needNotifier := false }
    else none
  | .submit =>
    if s.alive ∧ s.drv = .iour then some { s with sqLen := 0, ops := s.ops.map Op.submit } else none
  | .pollEntries =>
    if s.alive ∧ s.drv = .iour then some { s with ops := s.ops.map Op.drainCq } else none
  | .pollBlocking =>
    if s.alive then some { s with ops := s.ops.map Op.drainChan } else none
  | .fdEvent fd rd wr r =>
    if s.alive ∧ s.drv = .poll ∧ (rd ∨ wr) ∧ (rd → (s.armed fd).r) ∧ (wr → (s.armed fd).w) then
      match (s.reg fd).popInterest rd wr with
      | none => some { s with armed := upd s.armed fd (s.reg fd).event }
      | some (k, _, q') =>
        match r with
        | none => some { s with armed := upd s.armed fd (s.reg fd).event }
        | some v =>
          some { s with reg := upd s.reg fd q', armed := upd s.armed fd q'.event,
                        ops := modAt (fun o => { o with result := some v, produced := o.produced ++ [v] }.dropRef)
                                 s.ops k }
    else none
  | .dropBegin =>
    if s.alive then some { s with alive := false, dropPc := some 0 } else none
  | .dropStep =>
    match s.dropPc with
    | some k =>
      match (dropProg c s.drv)[k]? with
      | some st =>
        let s' := execDStep c s st
        some { s' with dropPc := if k + 1 < (dropProg c s.drv).length then some (k + 1) else none }
      | none => none
    | none => none
  | .kPost id more r =>
    match s.ops[id]? with
    | some o =>
      if s.ring ∧ s.drv = .iour ∧ o.kstat = .inflight ∧ (more → o.kind = .multi ∨ o.kind = .zc) then
        if more then
          some { s with ops := modAt (fun o => { o with pendMore := o.pendMore ++ [r],
                                                        produced := o.produced ++ [r] }) s.ops id }
        else
          some { s with ops := modAt (fun o => { o with pendFinal := some r, kstat := .done,
                                                        produced := o.produced ++ [r] }) s.ops id }
      else none
    | none => none
  | .poolDone id r =>
    match s.ops[id]? with
    | some o =>
      if o.poolRun then
        if s.chanOpen then
          some { s with ops := modAt (fun o => { o with poolRun := false, chan := o.chan ++ [r],
                                                        produced := o.produced ++ [r] }) s.ops id }
        else
          some { s with ops := dropChans (modAt (fun o => { o with poolRun := false,
                                                                   produced := o.produced ++ [r] }.dropRef) s.ops id) }
      else none
    | none => none

def run (c : Cfg) : State → List Event → Option State
  | s, [] => some s
  | s, e :: es =>
    match step c s e with
    | some s' => run c s' es
    | none => none

end Compio.KeyLife

/-! ### `compio_runtime::CancelToken` (compio-runtime/src/cancel.rs) as sequences of driver events -/

namespace Compio.KeyLife

/-- `Inner { tokens: HashSet<Cancel>, is_cancelled }`; the set is kept as a duplicate-free list (any order) -/
structure Token where
  regs : List Nat
  fired : Bool
  deriving Repr

def Token.new : Token := ⟨[], false⟩

/-- `CancelToken::register(&key)`: on a fired token the key is cancelled at once through a clone
(`driver.cancel(key.clone())`); otherwise a weak `Cancel` is made and inserted (a duplicate is dropped) -/
def Token.register (t : Token) (id : Nat) (posts : List (Nat × Bool × Res)) : Token × List Event :=
  if t.fired then (t, [.cloneCancel id posts])
  else if id ∈ t.regs then (t, [.tokenRegister id, .tokenDrop id])
  else ({ t with regs := t.regs ++ [id] }, [.tokenRegister id])

/-- `CancelToken::cancel()`: first call takes the set and passes every token to `Proactor::cancel_token`
(which consumes it); later calls do nothing. `env id` = what the kernel posts should the driver have to submit
inside that `cancel_token` call (environment input). -/
def Token.cancel (t : Token) (env : Nat → List (Nat × Bool × Res)) : Token × List Event :=
  if t.fired then (t, [])
  else (⟨[], true⟩, (t.regs.map fun id => [Event.tokenCancel id (env id), Event.tokenDrop id]).flatten)

end Compio.KeyLife
