/-
C07 — executable model of the managed buffer pool of compio-driver and of everything that moves
buffers in and out of it:

* `compio-driver/src/buffer_pool.rs`            `Pool` (`Inner::bufs` = `slots`), `take`, `reset`, `pop`,
                                                 `release`, `impl Drop for BufferRef` (`dropRef`)
* `sys/buffer_pool/iour.rs`                      the io_uring buffer ring: `entries`, `tail`
                                                 (`add_buffer`, `commit`, `reset`), u16 wrap-around explicit
* `sys/buffer_pool/fallback.rs`                  the free queue (`pop_front` / `push_back`)
* `sys/op/managed/{iour,fallback,poll}.rs`       single-shot ops (`Fut`): buffer popped at creation
                                                 (fallback) or adopted by `set_result` (io_uring);
                                                 multishot ops (`MOp`): `push_multishot` guards,
                                                 `pop_multishot` (guard leaked), guard drop = `reset`
* `compio-runtime/src/future/stream.rs`          `SubmitMulti` / `SubmitMultiManaged` / `SubmitMultiStream`
                                                 (`next`), early drop (`dstream`)
* `compio-driver/src/lib.rs`                     `Drop for Proactor` (`release`), `create_result` (ENOBUFS → busy)

The kernel side (which buffer a completion selects, how many bytes a read returns, when a multishot
terminates) is the part marked KERNEL below; it is an assumption, validated by the correspondence
harness on the running kernel.

A buffer is identified by its id (slot `i` holds pointer `i`); `tail` / `head` are unbounded counters
and every place where the code or the kernel sees a `u16` reads `x % 65536` explicitly.
Core Lean only.
-/
namespace Compio.Pool

inductive PKind where
  | ring
  | fb
  deriving DecidableEq, Repr

inductive SKind where
  | pipe
  | sock
  | dgram
  | file
  deriving DecidableEq, Repr

/-- io results that matter here: `Ok(n)` or `ResourceBusy` (ENOBUFS / empty queue) -/
inductive Res where
  | ok (k : Nat)
  | busy
  /-- EINVAL -/
  | inval
  /-- the op was cancelled through a cancel token (ECANCELED / the poller's cancelled entry) -/
  | cancelled
  deriving DecidableEq, Repr

/-! ## `u16::next_power_of_two` -/

def npow2Go : Nat → Nat → Nat → Nat
  | 0, p, _ => p
  | f + 1, p, n => if n ≤ p then p else npow2Go f (2 * p) n

/-- `num_of_bufs.next_power_of_two()` for `1 ≤ n ≤ 32768` -/
def nextPow2 (n : Nat) : Nat := npow2Go 15 1 n

/-! ## the pool -/

structure Pool where
  kind : PKind
  /-- number of slots at creation (`bufs.len()`, ring `len`) -/
  n : Nat
  /-- `Inner::bufs`: `some ptr` while the pool (free list, kernel, an unprocessed completion) owns it -/
  slots : List (Option Nat)
  /-- fallback `BufControl::queue` -/
  queue : List Nat
  /-- ring entries (`bid` of each `BufRingEntry`) -/
  entries : List Nat
  /-- number of buffers ever committed; the shared memory holds `tail % 65536` -/
  tail : Nat
  /-- KERNEL: number of ring entries ever consumed; the kernel holds `head % 65536` -/
  head : Nat
  released : Bool
  /-- ghost: ids handed to `deallocate`, in order -/
  freed : List Nat
  /-- ghost: number of `BufControl::reset` calls -/
  resets : Nat
  /-- `tail + offset` overflowed `u16` in `add_buffer` (panic with overflow checks) -/
  fault : Bool
  deriving Repr

/-- the `u16` the code loads from the ring -/
def Pool.tail16 (p : Pool) : Nat := p.tail % 65536

/-- `(tail + offset) % len` of `add_buffer` -/
def ringIdx (tail16 off len : Nat) : Nat := (tail16 + off) % len

/-- `BufControl::add_buffer` -/
def Pool.addBuffer (p : Pool) (bid off : Nat) : Pool :=
  { p with
    entries := p.entries.set (ringIdx p.tail16 off p.n) bid
    fault := p.fault || decide (65536 ≤ p.tail16 + off) }

/-- `BufControl::commit` (`fetch_add` on the `u16`: wraps) -/
def Pool.commit (p : Pool) (c : Nat) : Pool := { p with tail := p.tail + c }

def Pool.addAll (p : Pool) : List Nat → Pool
  | [] => p
  | id :: rest => (p.addBuffer id id).addAll rest

/-- `BufferPoolRoot::new` + `BufControl::new`; `none` = panic (`next_power_of_two` overflow) -/
def Pool.new (kind : PKind) (numBufs : Nat) : Option Pool :=
  if numBufs = 0 ∨ 32768 < numBufs then none
  else
    let n := nextPow2 numBufs
    let p0 : Pool :=
      { kind := kind, n := n, slots := (List.range n).map some, queue := [],
        entries := List.replicate n 0, tail := 0, head := 0, released := false, freed := [],
        resets := 0, fault := false }
    match kind with
    | .fb => some { p0 with queue := List.range n }
    | .ring => some ((p0.addAll (List.range n)).commit n)

/-- `Shared::take`: `bufs.get_mut(id)?.take()` -/
def Pool.slotTake (p : Pool) (id : Nat) : Option Nat × Pool :=
  match p.slots[id]? with
  | some (some b) => (some b, { p with slots := p.slots.set id none })
  | _ => (none, p)

/-- `BufControl::reset` -/
def Pool.ctrlReset (p : Pool) (id : Nat) : Pool :=
  match p.kind with
  | .fb => { p with queue := p.queue ++ [id], resets := p.resets + 1 }
  | .ring => { (p.addBuffer id 0).commit 1 with resets := p.resets + 1 }

/-- `Shared::reset` -/
def Pool.sharedReset (p : Pool) (id ptr : Nat) : Pool :=
  if id < p.slots.length then ({ p with slots := p.slots.set id (some ptr) }).ctrlReset id
  else { p with freed := p.freed ++ [ptr] }

/-- `impl Drop for BufferRef` (a `BufferRef` is `(buffer_id, ptr)` with `ptr = buffer_id` here) -/
def Pool.dropRef (p : Pool) (id : Nat) : Pool := p.sharedReset id id

/-- `BufferPool::reset(id)` = `take` + `Shared::reset`; `false` when the slot is empty -/
def Pool.reset (p : Pool) (id : Nat) : Bool × Pool :=
  match p.slotTake id with
  | (some b, p') => (true, p'.sharedReset id b)
  | (none, _) => (false, p)

/-- `BufControl::pop` of the fallback queue -/
def Pool.ctrlPop (p : Pool) : Option Nat × Pool :=
  match p.queue with
  | [] => (none, p)
  | b :: rest => (some b, { p with queue := rest })

/-- KERNEL: select the next provided buffer (`head == tail` on `u16` ⇒ ENOBUFS) -/
def Pool.kselect (p : Pool) : Option Nat × Pool :=
  if p.head % 65536 = p.tail % 65536 then (none, p)
  else (some (p.entries.getD (p.head % 65536 % p.n) 0), { p with head := p.head + 1 })

/-- `BufferPoolRoot::release`: every present slot is deallocated -/
def Pool.release (p : Pool) : Pool :=
  { p with freed := p.freed ++ p.slots.filterMap id, slots := [], queue := [], released := true }

/-- ids currently provided to the kernel, oldest first -/
def Pool.window (p : Pool) : List Nat :=
  (List.range (p.tail - p.head)).map fun j => p.entries.getD ((p.head + j) % 65536 % p.n) 0

/-- ids the pool itself considers available (free queue / provided to the kernel) -/
def Pool.freeIds (p : Pool) : List Nat :=
  if p.released then [] else
  match p.kind with
  | .fb => p.queue
  | .ring => p.window

/-! ## operations, streams, sources -/

/-- a single-shot managed read (`ReadManaged`, `ReadManagedAt`, `RecvManaged`) inside its `Submit` future -/
structure Fut where
  cap : Nat
  pos : Nat
  /-- `IORING_RECVSEND_POLL_FIRST` -/
  pollFirst : Bool
  /-- result stored in the key, with the `SOCK_NONEMPTY` flag of the completion -/
  done : Option (Res × Bool)
  /-- `BufferRef` inside the op -/
  buf : Option Nat
  deriving Repr

/-- a multishot op (`ReadMulti`, `RecvMulti`) inside `SubmitMulti` -/
structure MOp where
  /-- `State::Submitted` (else `Idle`) -/
  submitted : Bool
  /-- `multishots`: results with a `BufferGuard` (len, buffer id) -/
  guards : List (Nat × Nat)
  buf : Option Nat
  /-- final result present in the key -/
  fin : Option Res
  deriving Repr

/-- `SubmitMultiStream`: `op = none` | `some none` (managed adapter whose inner stream was taken) | `some (some m)` -/
structure Strm where
  len : Nat
  op : Option (Option MOp)
  deriving Repr

structure Src where
  kind : SKind
  /-- stream kinds: unread bytes; file: size -/
  avail : Nat
  /-- datagram sizes -/
  dq : List Nat
  eof : Bool
  /-- compio-net `SocketState` recv bits (`none` = UNSET) -/
  sockState : Option Bool
  fut : Option Fut
  strm : Option Strm
  deriving Repr

structure World where
  pool : Pool
  buflen : Nat
  srcs : List Src
  /-- buffer ids of the live user-held `BufferRef`s, in order of acquisition -/
  handles : List Nat
  /-- a panic inside `Proactor::poll` (`set_result`: "Buffer should not be in use") -/
  dead : Bool
  deriving Repr

/-- `with_capacity(len)` / the `len` of the SQE: `0` = whole buffer -/
def effCap (len buflen : Nat) : Nat := if len = 0 then buflen else min len buflen

inductive Avail where
  | data (k : Nat)
  | eof
  | none

/-- KERNEL: what a read of at most `ecap` bytes at `pos` would return now -/
def Src.peek (s : Src) (ecap pos : Nat) : Avail :=
  match s.kind with
  | .dgram =>
    match s.dq with
    | d :: _ => .data (min d ecap)
    | [] => .none
  | .file => if pos < s.avail then .data (min (s.avail - pos) ecap) else .eof
  | _ => if 0 < s.avail then .data (min s.avail ecap) else if s.eof then .eof else .none

def Src.consume (s : Src) (k : Nat) : Src :=
  match s.kind with
  | .dgram => { s with dq := s.dq.tail }
  | .file => s
  | _ => { s with avail := s.avail - k }

/-- KERNEL: `IORING_CQE_F_SOCK_NONEMPTY` after a receive (TCP / Unix fill `msg_inq`, UDP does not) -/
def Src.nonempty (s : Src) : Bool :=
  match s.kind with
  | .sock => decide (0 < s.avail)
  | _ => false

def World.setSrc (w : World) (i : Nat) (s : Src) : World := { w with srcs := w.srcs.set i s }

def Pool.dropOpt (p : Pool) : Option Nat → Pool
  | none => p
  | some b => p.dropRef b

/-! ### single-shot ops -/

/-- KERNEL select + `set_result`: the completion of the single-shot op `f` of source `i` selects a
    buffer and the op adopts it: `buffer_pool.take(id).expect(..).expect("Buffer should not be in use")`,
    `self.buffer.replace(buffer)` (a previous buffer would be dropped). An empty ring is ENOBUFS. -/
def adoptFut (w : World) (i : Nat) (s s1 : Src) (f : Fut) (d : Res × Bool) : World :=
  match w.pool.kselect with
  | (none, _) => w.setSrc i { s with fut := some { f with done := some (.busy, false) } }
  | (some b, p1) =>
    match p1.slotTake b with
    | (some _, p2) =>
      { w with pool := p2.dropOpt f.buf }.setSrc i { s1 with fut := some { f with done := some d, buf := some b } }
    | (none, _) => { w with pool := p1, dead := true }

/-- KERNEL + `set_result`: the pending single-shot op of source `i` is (re)issued on the ring -/
def ringSingle (w : World) (i : Nat) (s : Src) (f : Fut) (first : Bool) : World :=
  let ecap := effCap f.cap w.buflen
  match s.peek ecap f.pos with
  | .none =>
    -- no data: `POLL_FIRST` (or an already armed poll) keeps it pending; otherwise buffer selection
    -- comes first and fails on an empty ring
    if first && !f.pollFirst && decide (w.pool.head % 65536 = w.pool.tail % 65536) then
      w.setSrc i { s with fut := some { f with done := some (.busy, false) } }
    else w
  | .data k => adoptFut w i s (s.consume k) f (.ok k, (s.consume k).nonempty)
  | .eof =>
    match s.kind with
    | .sock | .dgram =>
      -- KERNEL: a zero-length receive gives its buffer back (no buffer id in the completion); an
      -- empty ring still fails first
      if decide (w.pool.head % 65536 = w.pool.tail % 65536) then
        w.setSrc i { s with fut := some { f with done := some (.busy, false) } }
      else w.setSrc i { s with fut := some { f with done := some (.ok 0, false) } }
    | _ =>
      -- KERNEL: a zero-length `read` keeps the selected buffer: the completion carries its id
      adoptFut w i s s f (.ok 0, false)

/-- the polling driver completes the pending single-shot op of source `i` when the fd is readable -/
def fbSingle (w : World) (i : Nat) (s : Src) (f : Fut) : World :=
  let ecap := effCap f.cap w.buflen
  match s.peek ecap f.pos with
  | .none => w
  | .data k => w.setSrc i { (s.consume k) with fut := some { f with done := some (.ok k, false) } }
  | .eof => w.setSrc i { s with fut := some { f with done := some (.ok 0, false) } }

/-! ### multishot ops -/

/-- KERNEL + `push_multishot`: the multishot op keeps receiving while there is data and a buffer.
    `chk`: buffer selection comes before looking at the fd (at the first issue of every multishot op;
    for UDP after every datagram, because the socket's fill level is unknown to the kernel and it
    retries at once; TCP / Unix / pipes are re-issued only when the fd is readable again).
    fuel = number of provided buffers + 1 -/
def ringMulti (cap buflen : Nat) : Nat → Bool → Pool → Src → MOp → Pool × Src × MOp
  | 0, _, p, s, m => (p, s, m)
  | fuel + 1, chk, p, s, m =>
    let empty := decide (p.head % 65536 = p.tail % 65536)
    -- KERNEL: `IORING_OP_READ_MULTISHOT` rejects an SQE whose `len` is not 0 (`io_read_mshot_prep`);
    -- `ReadMulti::create_entry` passes the caller's `len`
    if s.kind == .pipe && cap != 0 then (p, s, { m with fin := some .inval })
    else if chk && empty then (p, s, { m with fin := some .busy })
    else
      match s.peek (effCap cap buflen) 0 with
      | .none => (p, s, m)
      | .eof => if empty then (p, s, { m with fin := some .busy }) else (p, s, { m with fin := some (.ok 0) })
      | .data k =>
        match p.kselect with
        | (none, _) => (p, s, { m with fin := some .busy })
        | (some b, p1) =>
          ringMulti cap buflen fuel (s.kind == .dgram) p1 (s.consume k) { m with guards := m.guards ++ [(k, b)] }

def fbMulti (cap buflen : Nat) (s : Src) (m : MOp) : Src × MOp :=
  match s.peek (effCap cap buflen) 0 with
  | .none => (s, m)
  | .data k => (s.consume k, { m with fin := some (.ok k) })
  | .eof => (s, { m with fin := some (.ok 0) })

/-- whatever is pending in the kernel / the poller for source `i` reacts to the current state of the
    source (`first` = this is the submission itself) -/
def kick (w : World) (i : Nat) (first : Bool) : World :=
  match w.srcs[i]? with
  | none => w
  | some s =>
    match s.fut with
    | some f =>
      if f.done.isSome then w
      else
        match w.pool.kind with
        | .ring => ringSingle w i s f first
        | .fb => fbSingle w i s f
    | none =>
      match s.strm with
      | some { len := len, op := some (some m) } =>
        if m.submitted && m.fin.isNone then
          match w.pool.kind with
          | .ring =>
            let (p, s', m') := ringMulti len w.buflen (w.pool.tail - w.pool.head + 1) first w.pool s m
            { w with pool := p }.setSrc i { s' with strm := some { len := len, op := some (some m') } }
          | .fb =>
            let (s', m') := fbMulti len w.buflen s m
            w.setSrc i { s' with strm := some { len := len, op := some (some m') } }
        else w
      | _ => w

/-! ### dropping things -/

/-- `impl Drop for BufferGuard` for every queued multishot result -/
def Pool.resetGuards (p : Pool) : List (Nat × Nat) → Pool
  | [] => p
  | (_, b) :: rest => (p.reset b).2.resetGuards rest

/-- the op of a multishot stream is dropped (by the user, or by the driver after the cancel completed) -/
def Pool.dropMOp (p : Pool) (m : MOp) : Pool := (p.dropOpt m.buf).resetGuards m.guards

def Pool.dropStrm (p : Pool) (st : Strm) : Pool :=
  match st.op with
  | some (some m) => p.dropMOp m
  | _ => p

def Pool.dropFutOpt (p : Pool) : Option Fut → Pool
  | some f => p.dropOpt f.buf
  | none => p

def Pool.dropStrmOpt (p : Pool) : Option Strm → Pool
  | some st => p.dropStrm st
  | none => p

def Pool.dropSrc (p : Pool) (s : Src) : Pool := (p.dropFutOpt s.fut).dropStrmOpt s.strm

def Pool.dropSrcs (p : Pool) : List Src → Pool
  | [] => p
  | s :: rest => (p.dropSrc s).dropSrcs rest

/-! ## events -/

inductive Ev where
  | src (kind : SKind) (size : Nat)
  | write (i k : Nat)
  | close (i : Nat)
  | read (i len pos : Nat)
  | await (i : Nat)
  | cancel (i : Nat)
  | open (i len : Nat)
  | next (i : Nat)
  | dstream (i : Nat)
  | drop (id : Nat)
  | dropn (k : Nat)
  | pop
  | take (id : Nat)
  | reset (id : Nat)
  | release
  | spin (i k : Nat)
  | wcancel (i k : Nat)
  | wdstream (i k : Nat)
  | nextw (i : Nat)
  | tcancel (i : Nat)
  deriving Repr

/-- what the program sees -/
inductive Out where
  | bad
  | dead
  | ok
  | started
  | pending
  | fin
  /-- `now`: the future was ready at its first poll -/
  | some (now : Bool) (id len : Nat)
  | none (now : Bool)
  | err (now : Bool) (e : String)
  | item (id len : Nat)
  | ierr (e : String)
  | psome (id : Nat)
  | pnone
  | perr (e : String)
  | ppanic (e : String)
  | bool (b : Bool)
  deriving Repr, DecidableEq

/-- compio-net `set_recv(&extra)`: only io_uring completions carry the `SOCK_NONEMPTY` flag -/
def sockStateAfter (pk : PKind) (s : Src) (flag : Bool) : Option Bool :=
  match pk, s.kind with
  | .ring, .sock | .ring, .dgram => some flag
  | _, _ => s.sockState

/-- a completed single-shot op is consumed by the awaiting future: `ResultTakeBuffer::take_buffer` -/
def finishFut (w : World) (i : Nat) (s : Src) (f : Fut) (r : Res) (flag : Bool) (now : Bool) : World × Out :=
  let s' := { s with fut := none, sockState := sockStateAfter w.pool.kind s flag }
  match r with
  | .busy => ({ w with pool := w.pool.dropOpt f.buf }.setSrc i s', .err now "busy")
  | .inval => ({ w with pool := w.pool.dropOpt f.buf }.setSrc i s', .err now "InvalidInput")
  | .cancelled => ({ w with pool := w.pool.dropOpt f.buf }.setSrc i s', .err now "cancelled")
  | .ok 0 => ({ w with pool := w.pool.dropOpt f.buf }.setSrc i s', .none now)
  | .ok k =>
    match f.buf with
    | some b => ({ w with handles := w.handles ++ [b] }.setSrc i s', .some now b k)
    | none => (w.setSrc i s', .err now "eof")

/-- compio-net `set_recv_op`: `POLL_FIRST` when the last receive left the socket empty -/
def Src.wantsPollFirst (s : Src) : Bool :=
  match s.kind with
  | .sock | .dgram => s.sockState == some false
  | _ => false

def validSrc (w : World) (i : Nat) : Option Src :=
  if w.pool.released then none else w.srcs[i]?

/-- `read_managed(len)` / `recv_managed(len)` / `read_managed_at(len, pos)`: create the op, poll the future once -/
def evRead (w : World) (i len pos : Nat) : World × Out :=
  match validSrc w i with
  | none => (w, .bad)
  | some s =>
    if s.fut.isSome || s.strm.isSome || 4096 < len then (w, .bad)
    else
      match w.pool.kind with
      | .ring =>
        let f : Fut := { cap := len, pos := pos, pollFirst := s.wantsPollFirst, done := none, buf := none }
        let w1 := kick (w.setSrc i { s with fut := some f }) i true
        if s.kind == .file then
          -- a file read always completes; the harness waits for it
          match w1.srcs[i]? with
          | some s1 =>
            match s1.fut with
            | some f1 =>
              match f1.done with
              | some (r, flag) => finishFut w1 i s1 f1 r flag true
              | none => (w1, .pending)
            | none => (w1, .bad)
          | none => (w1, .bad)
        else (w1, .started)
      | .fb =>
        -- `pool.pop()?.with_capacity(len)` at creation
        match w.pool.ctrlPop with
        | (none, _) => (w, .err true "busy")
        | (some b, p1) =>
          match p1.slotTake b with
          | (none, _) => ({ w with pool := p1 }, .ppanic "unavailable")
          | (some _, p2) =>
            let f : Fut := { cap := len, pos := pos, pollFirst := false, done := none, buf := some b }
            let w1 : World := { w with pool := p2 }
            match s.kind with
            | .pipe =>
              -- `Decision::wait_readable`: pending at the first poll, completes when the poller runs
              (kick (w1.setSrc i { s with fut := some f }) i true, .started)
            | _ =>
              -- sockets try the syscall at submission (`decide`), files are waited for by the harness
              let w2 := kick (w1.setSrc i { s with fut := some f }) i true
              match w2.srcs[i]? with
              | some s2 =>
                match s2.fut with
                | some f2 =>
                  match f2.done with
                  | some (r, flag) => finishFut w2 i s2 f2 r flag true
                  | none => (w2, .started)
                | none => (w2, .bad)
              | none => (w2, .bad)

def evAwait (w : World) (i : Nat) : World × Out :=
  match validSrc w i with
  | none => (w, .bad)
  | some s =>
    match s.fut with
    | none => (w, .bad)
    | some f =>
      match f.done with
      | none => (w, .pending)
      | some (r, flag) => finishFut w i s f r flag false

/-- the future is dropped: a completed op is dropped with its buffer, a pending one is cancelled
    (io_uring: final completion without a buffer; polling: the op is dropped by the driver) -/
def evCancel (w : World) (i : Nat) : World × Out :=
  match validSrc w i with
  | none => (w, .bad)
  | some s =>
    match s.fut with
    | none => (w, .bad)
    | some f => ({ w with pool := w.pool.dropOpt f.buf }.setSrc i { s with fut := none }, .ok)

/-- `CancelToken::cancel` → `Proactor::cancel_token`: a pending op completes with the cancelled error
    (io_uring: AsyncCancel, no buffer selected; polling: the waiter is taken out of the fd's queue,
    WHATEVER its position, and a cancelled entry is delivered). The future and its op stay alive until the
    future is awaited or dropped — on the fallback pool the op keeps its buffer until then. A finished op
    is not affected. -/
def evTCancel (w : World) (i : Nat) : World × Out :=
  match validSrc w i with
  | none => (w, .bad)
  | some s =>
    match s.fut with
    | none => (w, .bad)
    | some f =>
      match f.done with
      | some _ => (w, .ok)
      | none => (w.setSrc i { s with fut := some { f with done := some (.cancelled, false) } }, .ok)

def evOpen (w : World) (i len : Nat) : World × Out :=
  match validSrc w i with
  | none => (w, .bad)
  | some s =>
    if s.fut.isSome || s.strm.isSome || 4096 < len || s.kind == .file then (w, .bad)
    else (w.setSrc i { s with strm := some { len := len, op := none } }, .ok)

/-- terminal item of `SubmitMultiManaged`: `try_take` the op, `take_buffer`, `res?`, `advance_to` -/
def terminalItem (w : World) (i : Nat) (s : Src) (len : Nat) (m : MOp) (r : Res) : World × Out :=
  let s' := { s with strm := some { len := len, op := some none } }
  -- the op is consumed: guards that were never popped are dropped with it
  let p0 := w.pool.resetGuards m.guards
  match r with
  | .busy => ({ w with pool := p0.dropOpt m.buf }.setSrc i s', .ierr "busy")
  | .inval => ({ w with pool := p0.dropOpt m.buf }.setSrc i s', .ierr "InvalidInput")
  | .cancelled => ({ w with pool := p0.dropOpt m.buf }.setSrc i s', .ierr "cancelled")
  | .ok k =>
    match m.buf with
    | none => ({ w with pool := p0 }.setSrc i s', .fin)
    | some b =>
      if k = 0 then ({ w with pool := p0.dropRef b }.setSrc i s', .fin)
      else ({ w with pool := p0, handles := w.handles ++ [b] }.setSrc i s', .item b k)

/-- one `poll_next` of `SubmitMultiStream` -/
def evNext (w : World) (i : Nat) : World × Out :=
  match validSrc w i with
  | none => (w, .bad)
  | some s =>
    match s.strm with
    | none => (w, .bad)
    | some st =>
      let len := st.len
      -- `Some(managed)` whose inner stream is gone yields `None`: `self.op = None`, loop
      let op0 : Option MOp := match st.op with
        | some (some m) => some m
        | _ => none
      match op0 with
      | none =>
        -- `factory.create()`
        match w.pool.kind with
        | .ring =>
          let m : MOp := { submitted := true, guards := [], buf := none, fin := none }
          (kick (w.setSrc i { s with strm := some { len := len, op := some (some m) } }) i true, .pending)
        | .fb =>
          match w.pool.ctrlPop with
          | (none, _) => (w.setSrc i { s with strm := some { len := len, op := none } }, .ierr "busy")
          | (some b, p1) =>
            match p1.slotTake b with
            | (none, _) => ({ w with pool := p1 }.setSrc i { s with strm := some { len := len, op := none } }, .ppanic "unavailable")
            | (some _, p2) =>
              let m : MOp := { submitted := true, guards := [], buf := some b, fin := none }
              let w1 : World := { w with pool := p2 }
              match s.kind with
              | .pipe => (kick (w1.setSrc i { s with strm := some { len := len, op := some (some m) } }) i true, .pending)
              | _ =>
                -- sockets: the op may complete inside `push` (`PushEntry::Ready`): terminal item at once
                let (s2, m2) := fbMulti len w.buflen s m
                let s3 : Src := { s2 with strm := some { len := len, op := some (some m2) } }
                let w2 := w1.setSrc i s3
                match m2.fin with
                | some r => terminalItem w2 i s3 len m2 r
                | none => (w2, .pending)
      | some m =>
        match m.guards with
        | (k, b) :: rest =>
          -- `pop_multishot`: the guard is leaked, the adapter takes the buffer itself
          let m' := { m with guards := rest }
          let s' := { s with strm := some { len := len, op := some (some m') } }
          match w.pool.slotTake b with
          | (some _, p1) =>
            if k = 0 then ({ w with pool := p1.dropRef b }.setSrc i s', .fin)
            else ({ w with pool := p1, handles := w.handles ++ [b] }.setSrc i s', .item b k)
          | (none, _) => (w.setSrc i s', .fin)
        | [] =>
          match m.fin with
          | none => (w, .pending)
          | some r => terminalItem w i s len m r

def evDstream (w : World) (i : Nat) : World × Out :=
  match validSrc w i with
  | none => (w, .bad)
  | some s =>
    match s.strm with
    | none => (w, .bad)
    | some st => ({ w with pool := w.pool.dropStrm st }.setSrc i { s with strm := none }, .ok)

def evWrite (w : World) (i k : Nat) : World × Out :=
  match validSrc w i with
  | none => (w, .bad)
  | some s =>
    if k = 0 || 1024 < k || s.kind == .file || s.eof then (w, .bad)
    else
      let s' := if s.kind == .dgram then { s with dq := s.dq ++ [k] } else { s with avail := s.avail + k }
      (kick (w.setSrc i s') i false, .ok)

def evClose (w : World) (i : Nat) : World × Out :=
  match validSrc w i with
  | none => (w, .bad)
  | some s =>
    if s.eof || !(s.kind == .pipe || s.kind == .sock) then (w, .bad)
    else (kick (w.setSrc i { s with eof := true }) i false, .ok)

def evDrop (w : World) (id : Nat) : World × Out :=
  if id ∈ w.handles then
    ({ w with handles := w.handles.erase id,
              pool := if w.pool.released then { w.pool with freed := w.pool.freed ++ [id] } else w.pool.dropRef id }, .ok)
  else (w, .bad)

def insertSorted (a : Nat) : List Nat → List Nat
  | [] => [a]
  | b :: r => if a ≤ b then a :: b :: r else b :: insertSorted a r

def sortNat (l : List Nat) : List Nat := l.foldr insertSorted []

/-- drop the `k mod count`-th live handle in the order of buffer ids -/
def evDropN (w : World) (k : Nat) : World × Out :=
  if w.handles.isEmpty then (w, .bad)
  else evDrop w ((sortNat w.handles).getD (k % w.handles.length) 0)

/-- `BufferPool::pop` -/
def evPop (w : World) : World × Out :=
  if w.pool.released then (w, .bad)
  else
    match w.pool.kind with
    | .ring => (w, .perr "unsupported")
    | .fb =>
      match w.pool.ctrlPop with
      | (none, _) => (w, .perr "busy")
      | (some b, p1) =>
        match p1.slotTake b with
        | (none, _) => ({ w with pool := p1 }, .ppanic "unavailable")
        | (some _, p2) => ({ w with pool := p2, handles := w.handles ++ [b] }, .psome b)

/-- `BufferPool::take(id)` called by the user -/
def evTake (w : World) (id : Nat) : World × Out :=
  if w.pool.released then (w, .bad)
  else
    match w.pool.slotTake id with
    | (some _, p1) => ({ w with pool := p1, handles := w.handles ++ [id] }, .psome id)
    | (none, _) => (w, .pnone)

/-- `BufferPool::reset(id)` called by the user -/
def evReset (w : World) (id : Nat) : World × Out :=
  if w.pool.released then (w, .bad)
  else
    let (b, p) := w.pool.reset id
    ({ w with pool := p }, .bool b)

/-- the runtime is dropped: every future, stream and endpoint first, then `Drop for Proactor` -/
def evRelease (w : World) : World × Out :=
  if w.pool.released then (w, .bad)
  else ({ w with pool := (w.pool.dropSrcs w.srcs).release, srcs := [] }, .ok)

def evSrc (w : World) (kind : SKind) (size : Nat) : World × Out :=
  if w.pool.released || 8 ≤ w.srcs.length || 4096 < size then (w, .bad)
  else
    ({ w with srcs := w.srcs ++ [{ kind := kind, avail := if kind == .file then size else 0, dq := [],
                                    eof := false, sockState := none, fut := none, strm := none }] }, .ok)

/-- one round of `write 1 byte; read_managed(1); await; drop` on a pipe; `none` when the read gave no buffer -/
def spinOnce (w : World) (i : Nat) : World × Bool :=
  let w1 := (evWrite w i 1).1
  let w2 := (evRead w1 i 1 0).1
  match evAwait w2 i with
  | (w3, .some _ id _) => ((evDrop w3 id).1, true)
  | (w3, _) => (w3, false)

/-- repeat until a round yields no buffer -/
def spinN (i : Nat) : Nat → World → World
  | 0, w => w
  | k + 1, w =>
    match spinOnce w i with
    | (w', true) => spinN i k w'
    | (w', false) => w'

def evSpin (w : World) (i k : Nat) : World × Out :=
  match validSrc w i with
  | none => (w, .bad)
  | some s =>
    if s.kind != .pipe || s.fut.isSome || s.strm.isSome || s.eof || s.avail != 0 || 200000 < k then (w, .bad)
    else (spinN i k w, .ok)

/-- the peer writes `k` bytes and the future is dropped BEFORE the driver is polled again.
    io_uring: the kernel has already completed the receive into a selected buffer; the completion
    is reaped after the user's key is gone, `Entry::notify` → `set_result` still adopts the buffer and
    the op, dropped by the driver, gives it back: same final state as "completion processed, then the
    future dropped". Polling driver: nothing reads before the op is removed, the data stays. -/
def evWCancel (w : World) (i k : Nat) : World × Out :=
  match validSrc w i with
  | none => (w, .bad)
  | some s =>
    if s.fut.isNone then (w, .bad)
    else
      match w.pool.kind with
      | .ring =>
        match evWrite w i k with
        | (w1, .ok) => ((evCancel w1 i).1, .ok)
        | _ => (w, .bad)
      | .fb =>
        if k = 0 || 1024 < k || s.kind == .file || s.eof then (w, .bad)
        else ((evWrite (evCancel w i).1 i k).1, .ok)

/-- the same race for a multishot stream: completions posted by the kernel are pushed into the op as
    guards when the driver reaps them after the stream was dropped; the op, dropped by the driver after
    the cancel completed, resets every guard -/
def evWDstream (w : World) (i k : Nat) : World × Out :=
  match validSrc w i with
  | none => (w, .bad)
  | some s =>
    if s.strm.isNone then (w, .bad)
    else
      match w.pool.kind with
      | .ring =>
        match evWrite w i k with
        | (w1, .ok) => ((evDstream w1 i).1, .ok)
        | _ => (w, .bad)
      | .fb =>
        if k = 0 || 1024 < k || s.kind == .file || s.eof then (w, .bad)
        else ((evWrite (evDstream w i).1 i k).1, .ok)

/-- await the next item of the stream: poll, let the driver run, poll again. A second `Pending` means
    the op is armed with nothing to read (further polls change nothing until another event) -/
def evNextW (w : World) (i : Nat) : World × Out :=
  match evNext w i with
  | (w1, .pending) => evNext w1 i
  | r => r

def step (w : World) (e : Ev) : World × Out :=
  if w.dead then (w, .dead)
  else
    match e with
    | .src kind size => evSrc w kind size
    | .write i k => evWrite w i k
    | .close i => evClose w i
    | .read i len pos => evRead w i len pos
    | .await i => evAwait w i
    | .cancel i => evCancel w i
    | .open i len => evOpen w i len
    | .next i => evNext w i
    | .dstream i => evDstream w i
    | .drop id => evDrop w id
    | .dropn k => evDropN w k
    | .pop => evPop w
    | .take id => evTake w id
    | .reset id => evReset w id
    | .release => evRelease w
    | .spin i k => evSpin w i k
    | .wcancel i k => evWCancel w i k
    | .wdstream i k => evWDstream w i k
    | .nextw i => evNextW w i
    | .tcancel i => evTCancel w i

def run (w : World) : List Ev → World
  | [] => w
  | e :: rest => run (step w e).1 rest

/-- `init kind n len` -/
def World.init (kind : PKind) (numBufs buflen : Nat) : Option World :=
  (Pool.new kind numBufs).map fun p => { pool := p, buflen := buflen, srcs := [], handles := [], dead := false }

end Compio.Pool
