/-
C14 (2) — `io_uring_recvmsg_out` parsing of the multishot recvmsg buffers
(compio-driver/src/sys/op/managed/iour.rs: `RecvMsgMultiResultImpl::{new, header, data, addr,
ancillary, flags}`).

Buffer layout written by the kernel for `IORING_OP_RECVMSG` multishot with a provided buffer:

    0..16    struct io_uring_recvmsg_out { u32 namelen, controllen, payloadlen, flags }   (native = LE)
    16..     name area of the registered size  (NLEN = size_of::<sockaddr_storage>() = 128)
    ..       control area of the registered size (`clen`)
    ..       payload

`buf` below is the initialised part of the `BufferRef` (`advance_to(cqe.res)` was applied by the stream
adapter), `clen` the control length the op was created with.

Core Lean only.
-/
import Compio.Model.Common

namespace Compio.RecvMsgOut

/-- `size_of::<io_uring_recvmsg_out>()` -/
def HDR : Nat := 16
/-- `NLEN = size_of::<SockAddrStorage>()` -/
def NLEN : Nat := 128
/-- `usize::MAX + 1` -/
def USIZE : Nat := 2 ^ 64

inductive R (α : Type) where
  | ok (a : α)
  | panic       -- `assert!` failed, slice index out of range, or arithmetic overflow (debug build)
  | ub          -- unchecked copy beyond the destination (`ptr::copy_nonoverlapping` into `SockAddrStorage`)
  deriving Repr, DecidableEq

/-- little-endian u32 at `off` (missing bytes read as 0; only used where 4 bytes are present) -/
def leU32 (bs : Bytes) (off : Nat) : Nat :=
  (bs.getD off 0).toNat + 256 * (bs.getD (off + 1) 0).toNat
    + 65536 * (bs.getD (off + 2) 0).toNat + 16777216 * (bs.getD (off + 3) 0).toNat

structure Hdr where
  namelen : Nat
  controllen : Nat
  payloadlen : Nat
  flags : Nat
  deriving Repr, DecidableEq

/-- `header()`: `read_unaligned` of the first 16 bytes -/
def readHdr (buf : Bytes) : Hdr :=
  ⟨leU32 buf 0, leU32 buf 4, leU32 buf 8, leU32 buf 12⟩

/-- a constructed `RecvMsgMultiResultImpl` -/
structure Parsed where
  buf : Bytes
  clen : Nat
  deriving Repr, DecidableEq

/-- `RecvMsgMultiResultImpl::new`: the two `assert!`s (and the overflow check of the sum) -/
def new (buf : Bytes) (clen : Nat) : R Parsed :=
  if buf.length < HDR then .panic
  else
    let total := HDR + NLEN + clen + (readHdr buf).payloadlen
    if total ≥ USIZE then .panic
    else if buf.length < total then .panic
    else .ok ⟨buf, clen⟩

/-- `data()`: `&buffer[16 + NLEN + clen ..]` -/
def Parsed.data (p : Parsed) : R Bytes :=
  let off := HDR + NLEN + p.clen
  if off > p.buf.length then .panic else .ok (p.buf.drop off)

/-- `ancillary()`: `&buffer[16 + NLEN .. 16 + NLEN + header.controllen]` -/
def Parsed.ancillary (p : Parsed) : R Bytes :=
  let off := HDR + NLEN
  let e := off + (readHdr p.buf).controllen
  if e > p.buf.length then .panic else .ok ((p.buf.drop off).take (readHdr p.buf).controllen)

/-- `addr()`: `None` for `namelen == 0`, else `namelen` bytes are copied from offset 16 into a zeroed
`SockAddrStorage` (128 bytes) without a bound check -/
def Parsed.addr (p : Parsed) : R (Option Bytes) :=
  let n := (readHdr p.buf).namelen
  if n = 0 then .ok none
  else if n > NLEN then .ub
  else .ok (some ((p.buf.drop HDR).take n))

/-- `flags()` -/
def Parsed.flags (p : Parsed) : Nat := (readHdr p.buf).flags

/-! ## the kernel's side of the contract (assumed) -/

def leBytes4 (v : Nat) : Bytes :=
  [UInt8.ofNat (v % 256), UInt8.ofNat (v / 256 % 256), UInt8.ofNat (v / 65536 % 256),
   UInt8.ofNat (v / 16777216 % 256)]

/-- `bs` padded with zero bytes to `n` -/
def pad (bs : Bytes) (n : Nat) : Bytes := bs ++ List.replicate (n - bs.length) 0

/-- buffer as the kernel lays it out for source address `name`, control data `ctl`, `payload`, flags -/
def layout (name ctl payload : Bytes) (flags clen : Nat) : Bytes :=
  leBytes4 name.length ++ leBytes4 ctl.length ++ leBytes4 payload.length ++ leBytes4 flags
    ++ pad name NLEN ++ pad ctl clen ++ payload

end Compio.RecvMsgOut
