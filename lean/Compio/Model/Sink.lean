/-
Model of the write side of `compio_io::framed::Framed` (compio-io/src/framed/write.rs): the `Sink`
state machine `Configuring → Idle → Writing → Idle → Flushing/Closing → Idle` driven through its four
entry points `poll_ready`, `start_send`, `poll_flush`, `poll_close`, over a writer that *buffers*
(`write` only stores, `flush`/`shutdown` deliver), so that a skipped `flush`/`shutdown` is observable.

Inner futures (`write_all`, `flush`, `shutdown`) are lazy `async` blocks: the delay (number of
`Pending` answers before completion) of a future is fixed when it is polled for the first time, from
the delay `d0` that the polling call offers — exactly what the harness' writer does.

`pollFlush` / `pollClose` are the code as repaired (F130); `pollFlushUnfixed` / `pollCloseUnfixed`
are the code as found at the pinned commit (used by `Cex/C13.lean`).
-/
import Compio.Model.Common

namespace Compio.Sink

/-- the writer under the sink -/
structure Io where
  buffered : Bytes := []
  delivered : Bytes := []
  flushes : Nat := 0
  shutdowns : Nat := 0
  deriving Repr, DecidableEq

def Io.write (io : Io) (data : Bytes) : Io := { io with buffered := io.buffered ++ data }
def Io.flush (io : Io) : Io :=
  { io with delivered := io.delivered ++ io.buffered, buffered := [], flushes := io.flushes + 1 }
def Io.shutdown (io : Io) : Io :=
  { io with delivered := io.delivered ++ io.buffered, buffered := [], shutdowns := io.shutdowns + 1 }

/-- remaining `Pending` answers of an inner future; `none` = not polled yet -/
abbrev Delay := Option Nat

inductive St where
  | configuring
  | idle
  | writing (data : Bytes) (d : Delay)
  | flushing (d : Delay)
  | closing (d : Delay)
  deriving Repr, DecidableEq

structure S where
  st : St := .configuring
  io : Io := {}
  /-- ghost: every byte handed to `start_send` so far (already enclosed), in order -/
  sent : Bytes := []
  deriving Repr, DecidableEq

inductive Res where
  | ready | pending | panic
  /-- `start_send`: the codec refused the item -/
  | err
  deriving Repr, DecidableEq

/-- one poll of an inner future: `none` = it completes now, `some d'` = `Pending`, `d'` polls left -/
def pollDelay (d : Delay) (d0 : Nat) : Option Nat :=
  match d.getD d0 with
  | 0 => none
  | n + 1 => some n

/-- `State::poll_sink` -/
def pollSink (s : S) (d0 : Nat) : S × Res :=
  match s.st with
  | .configuring => ({ s with st := .idle }, .ready)
  | .idle => (s, .ready)
  | .writing data d =>
    -- `write_all` of an empty buffer performs no write call at all
    if data = [] then ({ s with st := .idle }, .ready) else
    match pollDelay d d0 with
    | none => ({ s with st := .idle, io := s.io.write data }, .ready)
    | some n => ({ s with st := .writing data (some n) }, .pending)
  | .flushing d =>
    match pollDelay d d0 with
    | none => ({ s with st := .idle, io := s.io.flush }, .ready)
    | some n => ({ s with st := .flushing (some n) }, .pending)
  | .closing d =>
    match pollDelay d d0 with
    | none => ({ s with st := .idle, io := s.io.shutdown }, .ready)
    | some n => ({ s with st := .closing (some n) }, .pending)

/-- `Sink::poll_ready` -/
def pollReady (s : S) (d0 : Nat) : S × Res :=
  match s.st with
  | .idle => (s, .ready)
  | _ => pollSink s d0

/-- `Sink::start_send` with an item whose encoded and enclosed form is `frame`
    (`buf()` is `None` outside `Idle`/`Configuring`: the `expect` panics) -/
def startSend (s : S) (frame : Bytes) : S × Res :=
  match s.st with
  | .idle | .configuring => ({ s with st := .writing frame none, sent := s.sent ++ frame }, .ready)
  | _ => (s, .panic)

/-- `Sink::start_send` with an item the codec refuses (possibly after partial output into the write
    buffer): the buffer is cleared again, nothing of the item is ever written, the sink stays usable -/
def startSendFail (s : S) : S × Res :=
  match s.st with
  | .idle | .configuring => ({ s with st := .idle }, .err)
  | _ => (s, .panic)

/-- wait for what is in flight and, once that is `Ready` (the sink is idle again), start the future
    `st'` and poll it in the same call: the loop of the repaired `poll_flush` / `poll_close` -/
def thenStart (s : S) (d0 : Nat) (st' : St) : S × Res :=
  match pollSink s d0 with
  | (s', .ready) => pollSink { s' with st := st' } d0
  | r => r

/-- `Sink::poll_flush` (as repaired): a write in flight is completed *and then* the writer is flushed -/
def pollFlush (s : S) (d0 : Nat) : S × Res :=
  match s.st with
  | .closing _ => (s, .panic)
  | .flushing _ => pollSink s d0
  | .writing _ _ => thenStart s d0 (.flushing none)
  | .configuring => pollSink { s with st := .flushing none } d0
  | .idle => pollSink { s with st := .flushing none } d0

/-- `Sink::poll_close` (as repaired): whatever is in flight is completed, then the writer is shut down -/
def pollClose (s : S) (d0 : Nat) : S × Res :=
  match s.st with
  | .closing _ => pollSink s d0
  | .writing _ _ => thenStart s d0 (.closing none)
  | .flushing _ => thenStart s d0 (.closing none)
  | .configuring => pollSink { s with st := .closing none } d0
  | .idle => pollSink { s with st := .closing none } d0

/-- `Sink::poll_flush` as found: in `Writing` it only waits for the write -/
def pollFlushUnfixed (s : S) (d0 : Nat) : S × Res :=
  match s.st with
  | .closing _ => (s, .panic)
  | .writing _ _ | .flushing _ => pollSink s d0
  | .configuring | .idle => pollSink { s with st := .flushing none } d0

/-- `Sink::poll_close` as found: outside `Idle` it only waits for what is in flight -/
def pollCloseUnfixed (s : S) (d0 : Nat) : S × Res :=
  match s.st with
  | .idle => pollSink { s with st := .closing none } d0
  | _ => pollSink s d0

inductive Call where
  | ready (d0 : Nat)
  | send (frame : Bytes)
  | sendFail
  | flush (d0 : Nat)
  | close (d0 : Nat)
  deriving Repr, DecidableEq

def step (s : S) : Call → S × Res
  | .ready d => pollReady s d
  | .send f => startSend s f
  | .sendFail => startSendFail s
  | .flush d => pollFlush s d
  | .close d => pollClose s d

def stepUnfixed (s : S) : Call → S × Res
  | .ready d => pollReady s d
  | .send f => startSend s f
  | .sendFail => startSendFail s
  | .flush d => pollFlushUnfixed s d
  | .close d => pollCloseUnfixed s d

/-- run a script; a panic ends it (the real object is poisoned by the unwinding) -/
def run (stp : S → Call → S × Res) (s : S) : List Call → S × List Res
  | [] => (s, [])
  | c :: cs =>
    match stp s c with
    | (s', .panic) => (s', [.panic])
    | (s', r) => let (s'', rs) := run stp s' cs; (s'', r :: rs)

/-- bytes accepted by `start_send` that the writer has not seen yet -/
def inflight : St → Bytes
  | .writing data _ => data
  | _ => []

end Compio.Sink
