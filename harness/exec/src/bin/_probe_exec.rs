fn main() {}
