//! C04 correspondence harness: programs on the real `compio_executor::Executor` with instrumented
//! futures / outputs / wakers (see lean/Drivers/C04.lean for the operations). Local operations run on
//! the executor ("main") thread; `r…` operations and the script letter `W` use a handle / waker on a
//! helper thread, strictly sequentially (the main thread waits for the helper before it goes on), so
//! every program is deterministic.

use std::{
    collections::{BTreeSet, HashMap, VecDeque},
    future::Future,
    panic::{AssertUnwindSafe, catch_unwind},
    pin::Pin,
    sync::{
        Arc, Mutex, MutexGuard,
        atomic::{AtomicBool, Ordering},
        mpsc::{Receiver, Sender, channel},
    },
    task::{Context, Poll, Wake, Waker},
    thread::{self, ThreadId},
    time::Duration,
};

use compio_executor::{Executor, ExecutorConfig, JoinError, JoinHandle};
use hx_common::*;

/// safety timeout for anything that waits for a helper thread
const TIMEOUT: Duration = Duration::from_secs(10);
/// set at the first stall of a run: the run has failed anyway, later waits use a short timeout
static STALLED_ONCE: AtomicBool = AtomicBool::new(false);

fn timeout() -> Duration {
    if STALLED_ONCE.load(Ordering::SeqCst) { Duration::from_secs(1) } else { TIMEOUT }
}

#[derive(Default)]
struct Counters {
    polls: Vec<u32>,
    fut_drops: Vec<u32>,
    res_taken: Vec<u32>,
    res_drops: Vec<u32>,
    /// waker clones captured by the futures (outcome `c`)
    wakers: Vec<Vec<Waker>>,
    /// id cancelled (handle dropped / cancel called) before completion
    cancelled: Vec<bool>,
    completed: Vec<bool>,
    polled_after_end: Vec<u32>,
    /// what the future did at its last poll (`p` also stands for an exhausted script)
    last: Vec<Option<char>>,
    /// a kept waker clone was woken on the main thread (task live, executor alive), task not polled since
    wake_pending: Vec<bool>,
    /// a waker of the task was woken on a helper thread (rwake, rwakeb, `W`; task live, executor alive),
    /// task not polled since
    remote_owed: Vec<bool>,
    /// handle dropped / cancelled (locally or remotely) before completion while the executor was alive
    reap_expected: Vec<Option<String>>,
    script_len: Vec<usize>,
    /// `C04:future-dropped-live` already reported
    live_drop_reported: Vec<bool>,
    /// the executor's thread
    home: Option<ThreadId>,
    /// protocol budget: scheduling operations admitted since the start of the current tick
    outstanding: usize,
    /// = sync_queue_size
    cap: usize,
    w_admitted: u32,
    w_refused: u32,
    /// polls that woke the task itself and then finished it (`R`, `X`)
    requeue_finish: u32,
    /// monitor failures detected inside a poll / drop (reported by `run_case` after the line)
    fails: Vec<(String, String)>,
}

type Sh = Arc<Mutex<Counters>>;

fn lk(sh: &Sh) -> MutexGuard<'_, Counters> {
    sh.lock().unwrap_or_else(|e| e.into_inner())
}

// ---- helper threads -----------------------------------------------------------------------------
// Two long-lived helper threads (0: `r…` operations, 1: the wake inside a `W` poll, which can happen
// while helper 0 is blocked in a `rwakeb`). A helper that stalls is abandoned and replaced.

type Job = Box<dyn FnOnce() + Send + 'static>;
static WORKERS: Mutex<[Option<Sender<Job>>; 2]> = Mutex::new([None, None]);

fn submit(which: usize, job: Job) {
    let mut ws = WORKERS.lock().unwrap_or_else(|e| e.into_inner());
    let mut job = Some(job);
    for _ in 0..2 {
        if ws[which].is_none() {
            let (tx, rx) = channel::<Job>();
            thread::spawn(move || {
                for j in rx {
                    j()
                }
            });
            ws[which] = Some(tx);
        }
        match ws[which].as_ref().unwrap().send(job.take().unwrap()) {
            Ok(()) => return,
            Err(e) => {
                job = Some(e.0);
                ws[which] = None;
            }
        }
    }
    panic!("cannot start a helper thread");
}

fn abandon(which: usize) {
    WORKERS.lock().unwrap_or_else(|e| e.into_inner())[which] = None;
}

fn run_remote<T: Send + 'static>(which: usize, f: impl FnOnce() -> T + Send + 'static) -> Receiver<thread::Result<T>> {
    let (tx, rx) = channel();
    submit(
        which,
        Box::new(move || {
            let r = catch_unwind(AssertUnwindSafe(f));
            let _ = tx.send(r);
        }),
    );
    rx
}

fn panic_msg(e: &Box<dyn std::any::Any + Send>) -> String {
    if let Some(s) = e.downcast_ref::<&str>() {
        s.to_string()
    } else if let Some(s) = e.downcast_ref::<String>() {
        s.clone()
    } else {
        "panic".into()
    }
}

// ---- instrumented output / future / wakers ------------------------------------------------------

struct Out {
    id: usize,
    sh: Sh,
    taken: bool,
}

impl Drop for Out {
    fn drop(&mut self) {
        if !self.taken {
            lk(&self.sh).res_drops[self.id] += 1;
        }
    }
}

struct Scripted {
    id: usize,
    script: VecDeque<char>,
    sh: Sh,
}

impl Future for Scripted {
    type Output = Out;

    fn poll(mut self: Pin<&mut Self>, cx: &mut Context<'_>) -> Poll<Out> {
        let id = self.id;
        POLL_LOG.with(|l| l.borrow_mut().push(id));
        {
            let mut c = lk(&self.sh);
            c.polls[id] += 1;
            if c.home != Some(thread::current().id()) {
                c.fails.push(("C04:future-wrong-thread".into(), format!("task {id}: future polled on a thread other than the executor's")));
            }
            if c.cancelled[id] || c.completed[id] {
                c.polled_after_end[id] += 1;
            }
            c.wake_pending[id] = false;
            c.remote_owed[id] = false;
            c.last[id] = Some(match self.script.front() {
                None => 'p',
                Some(l) => *l,
            });
        }
        match self.script.pop_front() {
            None | Some('p') => Poll::Pending,
            Some('s') => {
                cx.waker().wake_by_ref();
                Poll::Pending
            }
            Some('c') => {
                let w = cx.waker().clone();
                lk(&self.sh).wakers[id].push(w);
                Poll::Pending
            }
            Some('W') => {
                // wake from another thread while this poll is in progress (if the protocol budget admits it)
                let admitted = {
                    let mut c = lk(&self.sh);
                    if c.outstanding < c.cap {
                        c.outstanding += 1;
                        c.w_admitted += 1;
                        c.remote_owed[id] = true;
                        true
                    } else {
                        c.w_refused += 1;
                        false
                    }
                };
                if admitted {
                    let w = cx.waker().clone();
                    let rx = run_remote(1, move || w.wake());
                    match rx.recv_timeout(timeout()) {
                        Ok(Ok(())) => {}
                        Ok(Err(e)) => lk(&self.sh).fails.push(("C04:panic".into(), format!("task {id}: remote wake inside a poll panicked: {}", panic_msg(&e)))),
                        Err(_) => {
                            abandon(1);
                            STALLED_ONCE.store(true, Ordering::SeqCst);
                            lk(&self.sh).fails.push((
                                "C04:remote-op-stalled".into(),
                                format!("task {id}: a waker clone woken on another thread during the poll did not return in time"),
                            ));
                        }
                    }
                }
                Poll::Pending
            }
            Some('r') => {
                lk(&self.sh).completed[id] = true;
                Poll::Ready(Out { id, sh: self.sh.clone(), taken: false })
            }
            Some('x') => {
                lk(&self.sh).completed[id] = true;
                let payload = Out { id, sh: self.sh.clone(), taken: false };
                std::panic::panic_any(SendOut(payload))
            }
            // the task makes itself hot again during the very poll that finishes it
            Some('R') => {
                cx.waker().wake_by_ref();
                let mut c = lk(&self.sh);
                c.completed[id] = true;
                c.requeue_finish += 1;
                drop(c);
                Poll::Ready(Out { id, sh: self.sh.clone(), taken: false })
            }
            Some('X') => {
                cx.waker().wake_by_ref();
                {
                    let mut c = lk(&self.sh);
                    c.completed[id] = true;
                    c.requeue_finish += 1;
                }
                let payload = Out { id, sh: self.sh.clone(), taken: false };
                std::panic::panic_any(SendOut(payload))
            }
            // a clone of the task waker outlives the task from its last poll on
            Some('C') => {
                let w = cx.waker().clone();
                let mut c = lk(&self.sh);
                c.wakers[id].push(w);
                c.completed[id] = true;
                drop(c);
                Poll::Ready(Out { id, sh: self.sh.clone(), taken: false })
            }
            Some(c) => panic!("bad script letter {c}"),
        }
    }
}

impl Drop for Scripted {
    fn drop(&mut self) {
        let mut c = lk(&self.sh);
        c.fut_drops[self.id] += 1;
        if c.home != Some(thread::current().id()) {
            let id = self.id;
            c.fails.push(("C04:future-wrong-thread".into(), format!("task {id}: future dropped on a thread other than the executor's")));
        }
    }
}

/// panic payload of an `x` outcome (`Out` is `Send`: all counters are behind `Arc<Mutex>`)
struct SendOut(Out);

struct CountWaker {
    id: usize,
    log: Arc<Mutex<Vec<usize>>>,
}

impl Wake for CountWaker {
    fn wake(self: Arc<Self>) {
        self.log.lock().unwrap().push(self.id);
    }
}

enum Ev {
    Notify,
    /// the helper of a `rwakeb` has finished (`true`: it panicked)
    Done(bool),
}

/// `ExecutorConfig::waker`: stands in for the driver waker of a runtime. On the executor thread: nothing.
/// On a helper thread: nothing, unless armed by `rwakeb`; then (once per arming) it hands control to the main
/// thread, which runs one tick, and waits for it.
struct NotifyWaker {
    main: ThreadId,
    armed: AtomicBool,
    ev: Mutex<Sender<Ev>>,
    ack: Mutex<Receiver<()>>,
}

impl Wake for NotifyWaker {
    fn wake(self: Arc<Self>) {
        self.wake_by_ref()
    }

    fn wake_by_ref(self: &Arc<Self>) {
        if thread::current().id() == self.main {
            return;
        }
        if self.armed.swap(false, Ordering::SeqCst) {
            let _ = self.ev.lock().unwrap().send(Ev::Notify);
            let _ = self.ack.lock().unwrap().recv_timeout(timeout());
        }
    }
}

struct World {
    exe: Option<Executor>,
    max_interval: u32,
    sh: Sh,
    handles: Vec<Option<JoinHandle<Out>>>,
    jw: HashMap<usize, Arc<CountWaker>>,
    wake_log: Arc<Mutex<Vec<usize>>>,
    /// handle of task i: last poll returned Pending with waker `.0`, when the wake log had length `.1`
    parked: Vec<Option<(usize, usize)>>,
    /// per-case tags (reported once per case)
    case_tags: BTreeSet<String>,
    notify: Arc<NotifyWaker>,
    ev_rx: Receiver<Ev>,
    ev_tx: Sender<Ev>,
    ack_tx: Sender<()>,
    /// slotmap key (as dumped by `Executor::verif_queue_dump`) -> task number, recorded at spawn
    keys: HashMap<u64, usize>,
    /// `C04:queue-corrupt` already reported for this case
    queue_reported: bool,
}

impl World {
    fn new(max_interval: u32, q: usize) -> Self {
        let q = q.max(1);
        let (ev_tx, ev_rx) = channel();
        let (ack_tx, ack_rx) = channel();
        let notify = Arc::new(NotifyWaker {
            main: thread::current().id(),
            armed: AtomicBool::new(false),
            ev: Mutex::new(ev_tx.clone()),
            ack: Mutex::new(ack_rx),
        });
        let cfg = ExecutorConfig { max_interval, sync_queue_size: q, waker: Some(Waker::from(notify.clone())), ..Default::default() };
        let sh: Sh = Arc::new(Mutex::new(Counters { home: Some(thread::current().id()), cap: q, ..Default::default() }));
        World {
            exe: Some(Executor::with_config(cfg)),
            max_interval,
            sh,
            handles: vec![],
            jw: HashMap::new(),
            wake_log: Arc::new(Mutex::new(vec![])),
            parked: vec![],
            case_tags: BTreeSet::new(),
            notify,
            ev_rx,
            ev_tx,
            ack_tx,
            keys: HashMap::new(),
            queue_reported: false,
        }
    }

    fn key_name(&self, k: u64) -> String {
        match self.keys.get(&k) {
            Some(id) => id.to_string(),
            None => format!("?{k}"),
        }
    }

    /// the `qdump` line: both intrusive lists as walked from their heads, and the stored tails
    fn qdump(&self) -> String {
        let Some(exe) = &self.exe else { return "q dead".into() };
        let ([hot, cold], [ht, ct]) = exe.verif_queue_dump();
        let list = |l: &[u64]| {
            if l.is_empty() { "-".to_string() } else { l.iter().map(|k| self.key_name(*k)).collect::<Vec<_>>().join(",") }
        };
        let tail = |t: Option<u64>| t.map(|k| self.key_name(k)).unwrap_or_else(|| "-".into());
        format!("q hot={} cold={} ht={} ct={}", list(&hot), list(&cold), tail(ht), tail(ct))
    }

    /// Monitor (uses only the dump hook and the harness' own bookkeeping): between operations the two lists of the
    /// task queue are well formed: no key twice, no cycle, only keys of tasks the queue still owns, stored tail = last element
    /// walked, and every task that has not completed and whose future is still alive is on exactly one of the two lists.
    fn check_queue(&mut self, after: &str, ex: &mut Exec) {
        let Some(exe) = &self.exe else { return };
        if self.queue_reported {
            return;
        }
        let ([hot, cold], [ht, ct]) = exe.verif_queue_dump();
        let mut bad: Vec<String> = vec![];
        let c = lk(&self.sh);
        // still owned by the queue: not completed (a completed task is removed at once) and not yet reaped
        let live: Vec<usize> = (0..c.polls.len()).filter(|id| c.fut_drops[*id] == 0 && !c.completed[*id]).collect();
        drop(c);
        let mut seen: Vec<u64> = vec![];
        for (name, walk, tail) in [("hot", &hot, ht), ("cold", &cold, ct)] {
            if walk.len() > live.len() + 1 {
                bad.push(format!("{name} walk has {} elements for {} live tasks (cycle)", walk.len(), live.len()));
            }
            for k in walk {
                if seen.contains(k) {
                    bad.push(format!("task {} occurs twice in the lists", self.key_name(*k)));
                }
                seen.push(*k);
                match self.keys.get(k) {
                    None => bad.push(format!("{name} walk reaches the unknown (dead) key {k}")),
                    Some(id) if !live.contains(id) => bad.push(format!("{name} walk reaches task {id}, which has completed / been reaped (dead key)")),
                    Some(_) => {}
                }
            }
            if walk.last().copied() != tail {
                bad.push(format!(
                    "{name} walk ends at {} but the stored {name} tail is {}",
                    walk.last().map(|k| self.key_name(*k)).unwrap_or_else(|| "-".into()),
                    tail.map(|k| self.key_name(k)).unwrap_or_else(|| "-".into())
                ));
            }
        }
        for id in live {
            if !seen.iter().any(|k| self.keys.get(k) == Some(&id)) {
                bad.push(format!("task {id} (not completed, future alive) is on neither list"));
            }
        }
        if !bad.is_empty() {
            self.queue_reported = true;
            ex.fail("C04:queue-corrupt", format!("after `{after}`: {}; {}", bad.join("; "), self.qdump()));
        }
    }

    fn waker(&mut self, w: usize) -> Waker {
        let log = self.wake_log.clone();
        Waker::from(self.jw.entry(w).or_insert_with(|| Arc::new(CountWaker { id: w, log })).clone())
    }

    /// phase of task `id` as seen by the instrumentation only (for tags)
    fn phase(&self, id: usize) -> &'static str {
        let c = lk(&self.sh);
        if c.completed[id] {
            "completed"
        } else if self.exe.is_none() {
            "after-xdrop"
        } else if c.cancelled[id] {
            "cancelled"
        } else if c.polls[id] == 0 {
            "unpolled"
        } else {
            "pending"
        }
    }

    /// protocol budget (not a verdict): may one more scheduling operation be started before the next tick?
    fn admit(&self) -> bool {
        let mut c = lk(&self.sh);
        if c.outstanding < c.cap {
            c.outstanding += 1;
            true
        } else {
            false
        }
    }

    /// one `Executor::tick` with the poll log; `outstanding` is the budget value at its start
    fn tick(&mut self, outstanding: usize, tags: bool, ex: &mut Exec) -> Option<(Vec<usize>, bool)> {
        let exe = self.exe.as_ref()?;
        lk(&self.sh).outstanding = outstanding;
        POLL_LOG.with(|l| l.borrow_mut().clear());
        let hot = exe.tick();
        let log = POLL_LOG.with(|l| l.borrow().clone());
        self.check_tick(&log, ex);
        if !tags {
            return Some((log, hot));
        }
        // tags (implementation outputs only)
        let mut seen = vec![];
        let mut repoll = false;
        for i in &log {
            if seen.contains(i) {
                repoll = true;
            }
            seen.push(*i);
        }
        if repoll {
            ex.tag("tick:repoll-same-tick");
            self.case_tags.insert("case:repoll-same-tick".into());
        }
        if log.len() == self.max_interval as usize && hot {
            ex.tag("tick:budget-hit-hot-left");
        }
        ex.tag(format!("tick:npolls={}", if log.len() >= 4 { "4+".to_string() } else { log.len().to_string() }));
        Some((log, hot))
    }

    /// Wait for a helper-thread operation. It must complete without the executor's help; if it does not
    /// (`C04:remote-op-stalled`), tick a few times to unblock it so that the harness can go on.
    fn join_remote<T>(&mut self, rx: Receiver<thread::Result<T>>, what: &str, ex: &mut Exec) -> Option<T> {
        match rx.recv_timeout(timeout()) {
            Ok(Ok(v)) => Some(v),
            Ok(Err(e)) => {
                ex.fail("C04:panic", format!("{what}: helper thread panicked: {}", panic_msg(&e)));
                None
            }
            Err(_) => {
                STALLED_ONCE.store(true, Ordering::SeqCst);
                ex.fail("C04:remote-op-stalled", format!("`{what}` on another thread did not return in time (the executor thread was not ticking)"));
                for _ in 0..4 {
                    if let Some(exe) = &self.exe {
                        let _ = catch(|| exe.tick());
                    }
                    if let Ok(r) = rx.recv_timeout(Duration::from_secs(1)) {
                        return r.ok();
                    }
                }
                abandon(0);
                None
            }
        }
    }

    /// Monitor: one `Executor::tick` polls at most `max_interval` futures (documented contract of
    /// `ExecutorConfig::max_interval` / `Executor::tick`).
    fn check_tick(&self, log: &[usize], ex: &mut Exec) {
        if log.len() > self.max_interval as usize {
            ex.fail(
                "C04:tick-budget",
                format!("one tick polled {} futures ({:?}) with max_interval {}", log.len(), log, self.max_interval),
            );
        }
    }

    /// Monitor: a handle whose last poll returned Pending with waker k, and whose task has completed since,
    /// has been woken through k after that poll.
    fn check_joins(&self, when: &str, ex: &mut Exec) {
        let c = lk(&self.sh);
        let log = self.wake_log.lock().unwrap();
        for (id, p) in self.parked.iter().enumerate() {
            if let Some((k, at)) = p {
                if c.completed[id] && !log[*at..].contains(k) {
                    ex.fail(
                        "C04:join-not-woken",
                        format!("task {id} completed, handle parked with waker {k}, never woken ({when})"),
                    );
                }
            }
        }
    }

    /// Monitor: the future of a task is dropped only after the task completed or was cancelled
    /// (handle dropped / cancel called / executor dropped); in particular detaching does not drop it.
    /// Also reports what the instrumented futures noticed themselves (wrong thread, stalled `W` wake).
    fn check_live_drops(&self, after: &str, ex: &mut Exec) {
        let mut c = lk(&self.sh);
        for id in 0..c.polls.len() {
            if c.fut_drops[id] > 0 && !c.completed[id] && !c.cancelled[id] && !c.live_drop_reported[id] {
                c.live_drop_reported[id] = true;
                ex.fail(
                    "C04:future-dropped-live",
                    format!("task {id}: future dropped although neither completed nor cancelled (after `{after}`)"),
                );
            }
        }
        drop(c);
        self.flush_fails(after, ex);
    }

    /// report what the instrumented futures noticed themselves (wrong thread, stalled `W` wake)
    fn flush_fails(&self, after: &str, ex: &mut Exec) {
        for (sig, detail) in std::mem::take(&mut lk(&self.sh).fails) {
            ex.fail(sig, format!("{detail} (during `{after}`)"));
        }
    }

    /// some live task is owed a poll because one of its wakers was woken on another thread
    fn remote_owed(&self) -> bool {
        let c = lk(&self.sh);
        (0..c.polls.len()).any(|id| c.remote_owed[id] && !c.completed[id] && !c.cancelled[id])
    }
}

fn show_tick(log: &[usize], hot: bool) -> String {
    let s: Vec<String> = log.iter().map(|i| i.to_string()).collect();
    format!("polled {} hot={}", if s.is_empty() { "-".into() } else { s.join(",") }, hot as u8)
}

fn exec_line(w: &mut World, line: &str, ex: &mut Exec) -> String {
    let t: Vec<&str> = line.split_whitespace().collect();
    let idarg = |i: usize| -> usize { t[i].parse().unwrap() };
    let remote = t[0].starts_with('r');
    match t[0] {
        "spawn" => {
            let Some(exe) = &w.exe else { return "invalid".into() };
            let id = w.handles.len();
            let script: VecDeque<char> = if t[1] == "-" { VecDeque::new() } else { t[1].chars().collect() };
            {
                let mut c = lk(&w.sh);
                c.polls.push(0);
                c.fut_drops.push(0);
                c.res_taken.push(0);
                c.res_drops.push(0);
                c.wakers.push(vec![]);
                c.cancelled.push(false);
                c.completed.push(false);
                c.polled_after_end.push(0);
                c.last.push(None);
                c.wake_pending.push(false);
                c.remote_owed.push(false);
                c.reap_expected.push(None);
                c.script_len.push(script.len());
                c.live_drop_reported.push(false);
            }
            let h = exe.spawn(Scripted { id, script, sh: w.sh.clone() });
            // the new task is linked at the hot tail: its key is the last element of the hot walk
            let ([hot, _], _) = exe.verif_queue_dump();
            match hot.last() {
                Some(k) if !w.keys.contains_key(k) => {
                    w.keys.insert(*k, id);
                }
                other => {
                    if !w.queue_reported {
                        w.queue_reported = true;
                        ex.fail("C04:queue-corrupt", format!("after `{line}`: the new task {id} is not the last element of the hot walk (last = {other:?})"));
                    }
                }
            }
            w.handles.push(Some(h));
            w.parked.push(None);
            format!("id {id}")
        }
        "tick" => match w.tick(0, true, ex) {
            None => "invalid".into(),
            Some((log, hot)) => show_tick(&log, hot),
        },
        "hpoll" | "rhpoll" => {
            let (id, wk) = (idarg(1), idarg(2));
            if id >= w.handles.len() || w.handles[id].is_none() {
                return "invalid".into();
            }
            let was_completed = lk(&w.sh).completed[id];
            let waker = w.waker(wk);
            let mut h = w.handles[id].take().unwrap();
            let r = if remote {
                let rx = run_remote(0, move || {
                    let mut cx = Context::from_waker(&waker);
                    let r = Pin::new(&mut h).poll(&mut cx);
                    (h, r)
                });
                match w.join_remote(rx, line, ex) {
                    Some((h2, r)) => {
                        h = h2;
                        r
                    }
                    None => {
                        w.parked[id] = None;
                        return "stalled".into();
                    }
                }
            } else {
                let mut cx = Context::from_waker(&waker);
                Pin::new(&mut h).poll(&mut cx)
            };
            match r {
                Poll::Pending => {
                    w.handles[id] = Some(h);
                    ex.tag(format!(
                        "{}:pending:{}",
                        t[0],
                        match w.parked[id] {
                            None => "first",
                            Some((k, _)) if k == wk => "same-waker",
                            Some(_) => "other-waker",
                        }
                    ));
                    let at = w.wake_log.lock().unwrap().len();
                    w.parked[id] = Some((wk, at));
                    "pending".into()
                }
                Poll::Ready(res) => {
                    w.parked[id] = None;
                    drop(h);
                    match res {
                        Ok(mut out) => {
                            out.taken = true;
                            lk(&w.sh).res_taken[id] += 1;
                            if out.id != id {
                                ex.fail("C04:wrong-output", format!("handle {id} received the output of task {}", out.id));
                            }
                            "ok".into()
                        }
                        Err(JoinError::Panicked(p)) => {
                            match p.downcast::<SendOut>() {
                                Ok(mut so) => {
                                    so.0.taken = true;
                                    lk(&w.sh).res_taken[id] += 1;
                                    if so.0.id != id {
                                        ex.fail("C04:wrong-output", format!("handle {id} received the panic of task {}", so.0.id));
                                    }
                                }
                                Err(_) => ex.fail("C04:foreign-panic", format!("handle {id}: unexpected panic payload")),
                            }
                            w.case_tags.insert("case:panic-reached-handle".into());
                            "panicked".into()
                        }
                        Err(JoinError::Cancelled) => {
                            // Monitor: the output / panic of a completed task reaches the handle that asks for it
                            // (nothing but this handle could have taken or discarded it).
                            if was_completed {
                                ex.fail(
                                    "C04:completed-result-lost",
                                    format!("task {id} had completed, its handle was polled and got Cancelled"),
                                );
                            }
                            ex.tag(format!("{}:cancelled@{}", t[0], w.phase(id)));
                            "cancelled".into()
                        }
                    }
                }
            }
        }
        "hdrop" | "hdetach" | "hcancel" | "rhdrop" | "rhcancel" => {
            let id = idarg(1);
            if id >= w.handles.len() || w.handles[id].is_none() {
                return "invalid".into();
            }
            if remote && !w.admit() {
                ex.tag(format!("{}:full", t[0]));
                return "full".into();
            }
            ex.tag(format!("{}@{}{}", t[0], w.phase(id), if w.parked[id].is_some() { ",parked" } else { "" }));
            if t[0] != "hdetach" {
                let mut c = lk(&w.sh);
                if !c.completed[id] {
                    if !c.cancelled[id] && w.exe.is_some() {
                        c.reap_expected[id] = Some(t[0].to_string());
                    }
                    c.cancelled[id] = true;
                }
            }
            let h = w.handles[id].take().unwrap();
            w.parked[id] = None;
            match t[0] {
                "hdrop" => drop(h),
                "rhdrop" => {
                    let rx = run_remote(0, move || drop(h));
                    w.join_remote(rx, line, ex);
                }
                "hdetach" => h.detach(),
                _ => {
                    // `JoinHandle::cancel(self)` is an async fn: `task.cancel(false)` then `self.await`;
                    // poll it once with a noop waker, it must be ready at once.
                    let cancel_once = move || {
                        let mut fut = Box::pin(h.cancel());
                        let mut cx = Context::from_waker(Waker::noop());
                        match fut.as_mut().poll(&mut cx) {
                            Poll::Ready(o) => Some(o),
                            Poll::Pending => None,
                        }
                    };
                    let r = if remote {
                        let rx = run_remote(0, cancel_once);
                        match w.join_remote(rx, line, ex) {
                            Some(r) => r,
                            None => return "stalled".into(),
                        }
                    } else {
                        cancel_once()
                    };
                    return match r {
                        Some(Some(mut out)) => {
                            out.taken = true;
                            lk(&w.sh).res_taken[id] += 1;
                            if out.id != id {
                                ex.fail("C04:wrong-output", format!("cancel of handle {id} returned the output of task {}", out.id));
                            }
                            ex.tag(format!("{}:some", t[0]));
                            "ok some".into()
                        }
                        Some(None) => {
                            ex.tag(format!("{}:none", t[0]));
                            "ok none".into()
                        }
                        None => {
                            ex.fail("C04:cancel-pending", format!("JoinHandle::cancel of task {id} returned Pending"));
                            "ok pending".into()
                        }
                    };
                }
            }
            "ok".into()
        }
        "wake" | "rwake" | "rwakeb" => {
            let id = idarg(1);
            let c = lk(&w.sh);
            if id >= c.wakers.len() || c.wakers[id].is_empty() {
                return "invalid".into();
            }
            drop(c);
            if t[0] == "rwake" && !w.admit() {
                ex.tag("rwake:full");
                return "full".into();
            }
            let mut c = lk(&w.sh);
            let wk = c.wakers[id][0].clone();
            let live = !c.completed[id] && !c.cancelled[id] && w.exe.is_some();
            if live {
                if remote { c.remote_owed[id] = true } else { c.wake_pending[id] = true }
            }
            drop(c);
            ex.tag(format!("{}-ok@{}", t[0], w.phase(id)));
            w.case_tags.insert(format!("case:{}-ok", t[0]));
            match t[0] {
                // a fresh clone is consumed: net effect of wake_by_ref on the kept clone
                "wake" => wk.wake(),
                "rwake" => {
                    let rx = run_remote(0, move || wk.wake());
                    w.join_remote(rx, line, ex);
                }
                _ => {
                    // blocking remote wake: the executor's driver waker makes the main thread tick once
                    w.notify.armed.store(true, Ordering::SeqCst);
                    let ev = w.ev_tx.clone();
                    submit(
                        0,
                        Box::new(move || {
                            let r = catch_unwind(AssertUnwindSafe(move || wk.wake()));
                            let _ = ev.send(Ev::Done(r.is_err()));
                        }),
                    );
                    let mut ticked: Option<(Vec<usize>, bool)> = None;
                    let mut stalled = false;
                    loop {
                        match w.ev_rx.recv_timeout(if stalled { Duration::from_secs(1) } else { timeout() }) {
                            Ok(Ev::Notify) => {
                                let r = w.tick(1, true, ex);
                                if ticked.is_some() {
                                    ex.fail("C04:harness", "second Notify during one rwakeb");
                                }
                                ticked = r;
                                let _ = w.ack_tx.send(());
                            }
                            Ok(Ev::Done(panicked)) => {
                                if panicked {
                                    ex.fail("C04:panic", format!("{line}: helper thread panicked"));
                                }
                                break;
                            }
                            Err(_) if !stalled => {
                                stalled = true;
                                STALLED_ONCE.store(true, Ordering::SeqCst);
                                ex.fail("C04:remote-op-stalled", format!("`{line}` on another thread did not return in time"));
                            }
                            Err(_) => {
                                // try to unblock it; give up after a few ticks
                                let mut freed = false;
                                for _ in 0..4 {
                                    if let Some(exe) = &w.exe {
                                        let _ = catch(|| exe.tick());
                                    }
                                    if let Ok(Ev::Done(_)) = w.ev_rx.recv_timeout(Duration::from_secs(1)) {
                                        freed = true;
                                        break;
                                    }
                                }
                                if !freed {
                                    abandon(0);
                                }
                                break;
                            }
                        }
                    }
                    w.notify.armed.store(false, Ordering::SeqCst);
                    return match ticked {
                        None => {
                            ex.tag("rwakeb:no-notify");
                            "ok".into()
                        }
                        Some((log, hot)) => {
                            ex.tag("rwakeb:notified");
                            format!("ok {}", show_tick(&log, hot))
                        }
                    };
                }
            }
            "ok".into()
        }
        "wdrop" | "rwdrop" => {
            let id = idarg(1);
            let mut c = lk(&w.sh);
            if id >= c.wakers.len() || c.wakers[id].is_empty() {
                return "invalid".into();
            }
            let wk = c.wakers[id].pop().unwrap();
            let last = c.wakers[id].is_empty();
            drop(c);
            ex.tag(format!(
                "{}-ok@{}{}{}",
                t[0],
                w.phase(id),
                if last { ",last-clone" } else { "" },
                if w.handles[id].is_none() { ",no-handle" } else { "" }
            ));
            w.case_tags.insert(format!("case:{}-ok", t[0]));
            if remote {
                let rx = run_remote(0, move || drop(wk));
                w.join_remote(rx, line, ex);
            } else {
                drop(wk);
            }
            "ok".into()
        }
        "xdrop" => {
            if w.exe.is_none() {
                return "invalid".into();
            }
            {
                let mut c = lk(&w.sh);
                let mut live = 0;
                for i in 0..c.cancelled.len() {
                    if !c.completed[i] {
                        if !c.cancelled[i] {
                            live += 1;
                        }
                        c.cancelled[i] = true;
                    }
                }
                let kept = c.wakers.iter().filter(|v| !v.is_empty()).count();
                let parked = w.parked.iter().filter(|p| p.is_some()).count();
                ex.tag(format!(
                    "xdrop:{}{}{}",
                    if live > 0 { "live-tasks" } else { "no-live-task" },
                    if kept > 0 { ",kept-wakers" } else { "" },
                    if parked > 0 { ",parked-handles" } else { "" }
                ));
            }
            drop(w.exe.take());
            "ok".into()
        }
        "stat" => {
            let id = idarg(1);
            let c = lk(&w.sh);
            if id >= c.polls.len() {
                return "invalid".into();
            }
            format!(
                "polls={} futDrops={} delivered={}",
                c.polls[id], c.fut_drops[id], c.res_taken[id] + c.res_drops[id]
            )
        }
        "qdump" => w.qdump(),
        "woken" => {
            let l = w.wake_log.lock().unwrap();
            if !l.is_empty() {
                ex.tag("woken-nonempty");
                w.case_tags.insert("case:woken-nonempty".into());
            }
            let s: Vec<String> = l.iter().map(|i| i.to_string()).collect();
            format!("woken {}", if s.is_empty() { "-".into() } else { s.join(",") })
        }
        _ => panic!("bad op {line}"),
    }
}

thread_local! {
    static POLL_LOG: std::cell::RefCell<Vec<usize>> = const { std::cell::RefCell::new(vec![]) };
}

fn run_case(case: &Case) -> Exec {
    let mut ex = Exec::new();
    let mut world: Option<World> = None;
    let mut spawned = false;
    for line in &case.lines {
        let t: Vec<&str> = line.split_whitespace().collect();
        if t[0] == "new" {
            let q = t.get(2).map(|q| q.parse().unwrap()).unwrap_or(64);
            world = Some(World::new(t[1].parse().unwrap(), q));
            ex.out.push("ok".into());
            continue;
        }
        let w = world.as_mut().expect("case must start with `new`");
        let o = match catch(|| exec_line(w, line, &mut ex)) {
            Ok(o) => o,
            Err(m) => {
                ex.fail("C04:panic", format!("{line}: {m}"));
                "panic".into()
            }
        };
        w.check_live_drops(line, &mut ex);
        w.check_queue(line, &mut ex);
        spawned |= o.starts_with("id ");
        ex.tag(format!("op:{}:{}", t[0], o.split(' ').next().unwrap()));
        ex.out.push(o);
    }
    // finalisation + implementation-only monitors
    if let Some(mut w) = world {
        // delivery: a handle parked with waker k whose task has completed must have been woken
        w.check_joins("at the end of the program", &mut ex);
        // no starvation: keep ticking until the executor reports no hot task and no remotely woken task is
        // still owed a poll; then every live task has been polled, and polled again after its last self-wake /
        // after the last wake of one of its wakers (on this or on another thread).
        // (Every scripted future goes quiet after finitely many polls, so this terminates; a wake that the
        // executor lost keeps the loop going until the bound and is reported.)
        if w.exe.is_some() && w.max_interval > 0 {
            let bound: usize = lk(&w.sh).script_len.iter().map(|l| l + 2).sum::<usize>() + 8;
            let mut hot = true;
            let mut rounds = 0;
            while (hot || w.remote_owed()) && rounds < bound {
                match catch(|| w.tick(0, false, &mut ex)) {
                    Ok(Some((_, h))) => hot = h,
                    Ok(None) => break,
                    Err(m) => {
                        ex.fail("C04:panic", format!("tick while draining: {m}"));
                        break;
                    }
                }
                rounds += 1;
            }
            w.check_live_drops("draining ticks", &mut ex);
            w.check_queue("draining ticks", &mut ex);
            if hot {
                ex.fail("C04:hot-never-drains", format!("tick still reports hot tasks after {rounds} further ticks"));
            }
            {
                let c = lk(&w.sh);
                for id in 0..c.polls.len() {
                    // Monitor: dropping / cancelling the handle (on any thread) cancels the task: the executor
                    // reaps it (drops its future, without polling it again) once it has run dry.
                    if let Some(op) = &c.reap_expected[id] {
                        if !hot && c.fut_drops[id] != 1 {
                            ex.fail(
                                "C04:remote-drop-not-reaped",
                                format!("task {id}: handle gone by `{op}` before completion, executor ran dry ({rounds} ticks), future dropped {} times", c.fut_drops[id]),
                            );
                        }
                    }
                    if c.completed[id] || c.cancelled[id] {
                        continue;
                    }
                    if c.remote_owed[id] {
                        ex.fail(
                            "C04:remote-wake-lost",
                            format!("task {id}: a waker was woken on another thread, the task was not polled again in {rounds} further ticks"),
                        );
                    } else if hot {
                        continue;
                    } else if c.polls[id] == 0 {
                        ex.fail("C04:starved", format!("task {id} was spawned, never cancelled, and never polled although the executor ran dry"));
                    } else if c.last[id] == Some('s') {
                        ex.fail("C04:starved", format!("task {id} woke itself at its last poll and was not polled again although the executor ran dry"));
                    } else if c.wake_pending[id] {
                        ex.fail("C04:starved", format!("task {id} was woken through a kept waker and was not polled again although the executor ran dry"));
                    }
                }
            }
            w.check_joins("after draining ticks", &mut ex);
        }
        // release everything: handles, waker clones, executor
        for h in w.handles.iter_mut() {
            drop(h.take());
        }
        let wk: Vec<Vec<Waker>> = std::mem::take(&mut lk(&w.sh).wakers);
        drop(wk);
        drop(w.exe.take());
        w.flush_fails("final drops", &mut ex);
        let c = lk(&w.sh);
        for id in 0..c.polls.len() {
            if c.fut_drops[id] != 1 {
                ex.fail("C04:future-drop-count", format!("task {id}: future dropped {} times", c.fut_drops[id]));
            }
            let delivered = c.res_taken[id] + c.res_drops[id];
            if c.completed[id] && delivered != 1 {
                ex.fail("C04:result-count", format!("task {id}: result taken {} + dropped {} != 1", c.res_taken[id], c.res_drops[id]));
            }
            if !c.completed[id] && delivered != 0 {
                ex.fail("C04:result-without-completion", format!("task {id}"));
            }
            if c.polled_after_end[id] != 0 {
                ex.fail("C04:polled-after-end", format!("task {id} polled {} times after completion/cancellation", c.polled_after_end[id]));
            }
        }
        if c.w_admitted > 0 {
            w.case_tags.insert("case:W-admitted".into());
        }
        if c.w_refused > 0 {
            w.case_tags.insert("case:W-refused".into());
        }
        if c.requeue_finish > 0 {
            w.case_tags.insert("case:self-wake-in-final-poll".into());
        }
        if (0..c.polls.len()).any(|id| c.last[id] == Some('C')) {
            w.case_tags.insert("case:clone-in-final-poll".into());
        }
        drop(c);
        // every join waker clone given to the executor has been released
        for (k, a) in &w.jw {
            if Arc::strong_count(a) != 1 {
                ex.fail("C04:join-waker-leak", format!("waker {k} still has {} owners after everything was dropped", Arc::strong_count(a)));
            }
        }
        for t in std::mem::take(&mut w.case_tags) {
            ex.tag(t);
        }
    }
    // generator family = leading letters of the case name (corpus, rnd, hostile, waker, join, phase, hot, x…)
    let fam: String = case.name.chars().take_while(|c| c.is_ascii_alphabetic()).collect();
    ex.tag(format!("fam:{fam}"));
    ex.nontrivial = spawned && case.lines.len() >= 4;
    ex
}

// ---------------------------------------------------------------------------------------------
// case generation
// ---------------------------------------------------------------------------------------------

/// Generator-side guess of what a task is doing. This is bookkeeping for *biasing* the generator towards
/// operations that are plausibly valid / interesting; it ignores max_interval, tick order and re-polls and
/// is never used to judge an output.
#[derive(Clone, Copy, PartialEq)]
enum Guess {
    Running,
    Finished,
    Cancelled,
}

struct TaskShadow {
    script: Vec<char>,
    pc: usize,
    runnable: bool,
    g: Guess,
    handle: bool,
    wakers: u32,
    last_w: Option<u64>,
}

struct Prog {
    lines: Vec<String>,
    alive: bool,
    tasks: Vec<TaskShadow>,
}

impl Prog {
    fn new(n: u32) -> Self {
        Prog { lines: vec![format!("new {n}")], alive: true, tasks: vec![] }
    }

    /// with an explicit sync_queue_size
    fn new_q(n: u32, q: u32) -> Self {
        Prog { lines: vec![format!("new {n} {q}")], alive: true, tasks: vec![] }
    }

    fn spawn(&mut self, s: &str) {
        self.lines.push(format!("spawn {s}"));
        if self.alive {
            let script = if s == "-" { vec![] } else { s.chars().collect() };
            self.tasks.push(TaskShadow { script, pc: 0, runnable: true, g: Guess::Running, handle: true, wakers: 0, last_w: None });
        }
    }

    fn tick(&mut self) {
        self.lines.push("tick".into());
        if !self.alive {
            return;
        }
        for t in &mut self.tasks {
            if !t.runnable || t.g != Guess::Running {
                continue;
            }
            let l = t.script.get(t.pc).copied();
            if l.is_some() {
                t.pc += 1;
            }
            match l {
                Some('s') | Some('W') => {}
                Some('c') => {
                    t.wakers += 1;
                    t.runnable = false;
                }
                Some('r') | Some('x') | Some('R') | Some('X') => {
                    t.g = Guess::Finished;
                    t.runnable = false;
                }
                Some('C') => {
                    t.wakers += 1;
                    t.g = Guess::Finished;
                    t.runnable = false;
                }
                _ => t.runnable = false,
            }
        }
    }

    fn hpoll(&mut self, id: usize, w: u64) {
        self.lines.push(format!("hpoll {id} {w}"));
        if let Some(t) = self.tasks.get_mut(id) {
            if t.handle {
                if t.g == Guess::Running { t.last_w = Some(w) } else { t.handle = false }
            }
        }
    }

    fn hend(&mut self, op: &str, id: usize) {
        self.lines.push(format!("{op} {id}"));
        if let Some(t) = self.tasks.get_mut(id) {
            if t.handle {
                t.handle = false;
                if op != "hdetach" && t.g == Guess::Running {
                    t.g = Guess::Cancelled;
                    t.runnable = false;
                }
            }
        }
    }

    fn wake(&mut self, id: usize) {
        self.lines.push(format!("wake {id}"));
        let alive = self.alive;
        if let Some(t) = self.tasks.get_mut(id) {
            if t.wakers > 0 && alive && t.g == Guess::Running {
                t.runnable = true;
            }
        }
    }

    fn wdrop(&mut self, id: usize) {
        self.lines.push(format!("wdrop {id}"));
        if let Some(t) = self.tasks.get_mut(id) {
            t.wakers = t.wakers.saturating_sub(1);
        }
    }

    fn xdrop(&mut self) {
        self.lines.push("xdrop".into());
        if self.alive {
            self.alive = false;
            for t in &mut self.tasks {
                if t.g == Guess::Running {
                    t.g = Guess::Cancelled;
                    t.runnable = false;
                }
            }
        }
    }

    fn stat(&mut self, id: usize) {
        self.lines.push(format!("stat {id}"));
    }

    /// turn the line just pushed into its cross-thread variant (`hpoll` -> `rhpoll`, `wake` -> `rwake`, ...)
    fn remote(&mut self) {
        let l = self.lines.last_mut().unwrap();
        if !l.starts_with("hdetach") {
            l.insert(0, 'r');
        }
    }

    fn rhpoll(&mut self, id: usize, w: u64) {
        self.hpoll(id, w);
        self.remote();
    }

    fn rhend(&mut self, op: &str, id: usize) {
        self.hend(&op[1..], id);
        self.remote();
    }

    fn rwake(&mut self, id: usize) {
        self.wake(id);
        self.remote();
    }

    /// blocking remote wake: may run one tick
    fn rwakeb(&mut self, id: usize) {
        self.wake(id);
        let l = self.lines.last_mut().unwrap();
        *l = format!("rwakeb {id}");
    }

    fn rwdrop(&mut self, id: usize) {
        self.wdrop(id);
        self.remote();
    }

    fn with_handle(&self) -> Vec<usize> {
        (0..self.tasks.len()).filter(|i| self.tasks[*i].handle).collect()
    }

    fn with_wakers(&self) -> Vec<usize> {
        (0..self.tasks.len()).filter(|i| self.tasks[*i].wakers > 0).collect()
    }

    fn any_running(&self) -> bool {
        self.tasks.iter().any(|t| t.g == Guess::Running && t.runnable)
    }

    /// waker id for a handle poll of task `id`: mostly 0 at first, then the same one again / another one
    fn pick_waker(&self, id: usize, rng: &mut Rng) -> u64 {
        match self.tasks.get(id).and_then(|t| t.last_w) {
            Some(w) => match rng.below(5) {
                0 | 1 => w,
                2 | 3 => (w + 1 + rng.below(2)) % 3,
                _ => rng.below(3),
            },
            None => {
                if rng.chance(7, 10) { 0 } else { rng.below(3) }
            }
        }
    }

    /// the usual ending of a case: `stat` of every task, then the wake log
    fn finish(mut self, name: String) -> Case {
        for id in 0..self.tasks.len() {
            self.lines.push(format!("stat {id}"));
        }
        self.lines.push("woken".into());
        Case { name, lines: with_qdumps(self.lines, Dumps::All) }
    }
}

/// where `qdump` lines go
#[derive(Clone, Copy, PartialEq)]
enum Dumps {
    /// after every operation line (except new / stat / woken / qdump)
    All,
    /// only after tick / wake / handle drop and cancel lines (local or remote), for the big exhaustive sets
    Sparse,
}

/// insert `qdump` lines; the case always has one right before the trailing stat / woken lines
fn with_qdumps(lines: Vec<String>, mode: Dumps) -> Vec<String> {
    // the trailing block of stat / woken lines
    let mut end = lines.len();
    while end > 0 && (lines[end - 1].starts_with("stat ") || lines[end - 1] == "woken") {
        end -= 1;
    }
    let mut out = Vec::with_capacity(lines.len() * 2);
    for (i, l) in lines.into_iter().enumerate() {
        if i == end && out.last().map(|x: &String| x != "qdump").unwrap_or(false) && i > 1 {
            out.push("qdump".to_string());
        }
        let op = l.split(' ').next().unwrap().to_string();
        out.push(l);
        let dump = match op.as_str() {
            "new" | "stat" | "woken" | "qdump" => false,
            "tick" | "wake" | "rwake" | "rwakeb" | "hdrop" | "rhdrop" | "hcancel" | "rhcancel" => true,
            _ => mode == Dumps::All,
        };
        if dump && i < end {
            out.push("qdump".to_string());
        }
    }
    out
}

/// weights of one guided random step
#[derive(Clone, Copy)]
struct Prof {
    spawn: u64,
    tick: u64,
    hpoll: u64,
    hdrop: u64,
    hdetach: u64,
    hcancel: u64,
    wake: u64,
    wdrop: u64,
    xdrop: u64,
    stat: u64,
    /// an operation that is (plausibly) invalid: id out of range, consumed handle, no waker, dead executor
    bad: u64,
    max_tasks: usize,
    /// percentage of handle / waker operations that are done on a helper thread
    remote: u64,
}

const PROF_WAKER: Prof = Prof { spawn: 1, tick: 6, hpoll: 2, hdrop: 1, hdetach: 1, hcancel: 1, wake: 8, wdrop: 4, xdrop: 1, stat: 1, bad: 0, max_tasks: 3, remote: 0 };
const PROF_JOIN: Prof = Prof { spawn: 2, tick: 6, hpoll: 8, hdrop: 1, hdetach: 1, hcancel: 1, wake: 3, wdrop: 1, xdrop: 1, stat: 1, bad: 0, max_tasks: 3, remote: 0 };
const PROF_PHASE: Prof = Prof { spawn: 2, tick: 5, hpoll: 4, hdrop: 2, hdetach: 2, hcancel: 2, wake: 3, wdrop: 2, xdrop: 1, stat: 1, bad: 1, max_tasks: 3, remote: 0 };
const PROF_HOT: Prof = Prof { spawn: 4, tick: 14, hpoll: 2, hdrop: 1, hdetach: 1, hcancel: 1, wake: 3, wdrop: 1, xdrop: 0, stat: 1, bad: 0, max_tasks: 6, remote: 0 };
const PROF_REMOTE: Prof = Prof { spawn: 2, tick: 7, hpoll: 4, hdrop: 2, hdetach: 1, hcancel: 2, wake: 6, wdrop: 2, xdrop: 1, stat: 1, bad: 0, max_tasks: 3, remote: 70 };
const PROF_RHOSTILE: Prof = Prof { spawn: 3, tick: 4, hpoll: 3, hdrop: 3, hdetach: 1, hcancel: 2, wake: 3, wdrop: 2, xdrop: 2, stat: 1, bad: 8, max_tasks: 4, remote: 80 };
const PROF_HOSTILE: Prof = Prof { spawn: 3, tick: 4, hpoll: 3, hdrop: 3, hdetach: 2, hcancel: 2, wake: 2, wdrop: 2, xdrop: 2, stat: 1, bad: 10, max_tasks: 4, remote: 0 };

fn bad_op(p: &mut Prog, rng: &mut Rng) {
    let n = p.tasks.len();
    let oob = n + rng.below(3) as usize;
    let consumed: Vec<usize> = (0..n).filter(|i| !p.tasks[*i].handle).collect();
    let nowaker: Vec<usize> = (0..n).filter(|i| p.tasks[*i].wakers == 0).collect();
    match rng.below(10) {
        0 => p.hpoll(oob, rng.below(3)),
        1 => {
            let op = *rng.pick(&["hdrop", "hdetach", "hcancel"]);
            p.hend(op, oob)
        }
        2 => {
            if rng.chance(1, 2) { p.wake(oob) } else { p.wdrop(oob) }
        }
        3 => p.stat(oob),
        4 | 5 if !consumed.is_empty() => {
            let id = *rng.pick(&consumed);
            match rng.below(4) {
                0 => p.hpoll(id, rng.below(3)),
                1 => p.hend("hdrop", id),
                2 => p.hend("hdetach", id),
                _ => p.hend("hcancel", id),
            }
        }
        6 if !nowaker.is_empty() => {
            let id = *rng.pick(&nowaker);
            if rng.chance(1, 2) { p.wake(id) } else { p.wdrop(id) }
        }
        _ => {
            // operations on a dead executor
            if p.alive {
                p.xdrop();
            }
            match rng.below(3) {
                0 => p.spawn(&gen_script(rng)),
                1 => p.tick(),
                _ => p.xdrop(),
            }
        }
    }
}

fn step(p: &mut Prog, rng: &mut Rng, pr: &Prof, script: fn(&mut Rng) -> String) {
    let hs = p.with_handle();
    let ws = p.with_wakers();
    let mut c: Vec<(u64, u8)> = vec![];
    if p.alive {
        if p.tasks.len() < pr.max_tasks {
            c.push((pr.spawn, 0));
        }
        // ticking is more interesting while something is (plausibly) runnable
        c.push((if p.any_running() { pr.tick } else { pr.tick / 3 + 1 }, 1));
        c.push((pr.xdrop, 8));
    }
    if !hs.is_empty() {
        c.push((pr.hpoll, 2));
        c.push((pr.hdrop, 3));
        c.push((pr.hdetach, 4));
        c.push((pr.hcancel, 5));
    }
    if !ws.is_empty() {
        c.push((pr.wake, 6));
        c.push((pr.wdrop, 7));
    }
    if !p.tasks.is_empty() {
        c.push((pr.stat, 9));
    }
    c.push((pr.bad, 10));
    let total: u64 = c.iter().map(|x| x.0).sum();
    if total == 0 {
        p.tick();
        return;
    }
    let mut r = rng.below(total);
    let mut op = 1u8;
    for (w, o) in &c {
        if r < *w {
            op = *o;
            break;
        }
        r -= *w;
    }
    match op {
        0 => p.spawn(&script(rng)),
        1 => p.tick(),
        2 => {
            let id = *rng.pick(&hs);
            let w = p.pick_waker(id, rng);
            p.hpoll(id, w)
        }
        3 => p.hend("hdrop", *rng.pick(&hs)),
        4 => p.hend("hdetach", *rng.pick(&hs)),
        5 => p.hend("hcancel", *rng.pick(&hs)),
        6 => p.wake(*rng.pick(&ws)),
        7 => p.wdrop(*rng.pick(&ws)),
        8 => p.xdrop(),
        9 => {
            let id = rng.below(p.tasks.len() as u64) as usize;
            p.stat(id)
        }
        _ => {
            bad_op(p, rng);
            if pr.remote > 0 && rng.below(100) < pr.remote {
                let l = p.lines.last().unwrap().clone();
                if ["hpoll", "hdrop", "hcancel", "wake", "wdrop"].iter().any(|o| l.starts_with(o)) {
                    p.remote();
                }
            }
            return;
        }
    }
    if (2..=7).contains(&op) && op != 4 && pr.remote > 0 && rng.below(100) < pr.remote {
        if op == 6 && rng.chance(1, 4) {
            let id: usize = p.lines.last().unwrap()[5..].parse().unwrap();
            *p.lines.last_mut().unwrap() = format!("rwakeb {id}");
        } else {
            p.remote();
        }
    }
}

/// about a third of the terminal letters use the forms that touch the task's own waker in the final poll:
/// r -> R (wake self, then Ready) or C (keep a clone, then Ready); x -> X (wake self, then panic)
fn new_terminal(mut s: String, rng: &mut Rng) -> String {
    match s.chars().last() {
        Some('r') if rng.chance(1, 3) => {
            s.pop();
            s.push(if rng.chance(2, 3) { 'R' } else { 'C' });
        }
        Some('x') if rng.chance(1, 3) => {
            s.pop();
            s.push('X');
        }
        _ => {}
    }
    s
}

/// the old unstructured script: 0..4 of p/s/c then mostly `r`, sometimes `x` or nothing
fn gen_script(rng: &mut Rng) -> String {
    let n = rng.below(5);
    let mut s = String::new();
    for _ in 0..n {
        s.push(*rng.pick(&['p', 's', 's', 'c', 'p']));
    }
    match rng.below(6) {
        0 => {}
        1 => s.push('x'),
        _ => s.push('r'),
    }
    if s.is_empty() { "-".into() } else { new_terminal(s, rng) }
}

/// a script whose first `c` is reachable by ticking alone: s* c (c|s|p)* (r|x|nothing)
fn c_script(rng: &mut Rng) -> String {
    let mut s = String::new();
    for _ in 0..*rng.pick(&[0u64, 0, 0, 1, 1, 2]) {
        s.push('s');
    }
    s.push('c');
    for _ in 0..rng.below(4) {
        s.push(*rng.pick(&['c', 'c', 's', 'p']));
    }
    match rng.below(5) {
        0 => {}
        1 => s.push('x'),
        _ => s.push('r'),
    }
    new_terminal(s, rng)
}

/// a script that completes by ticking alone (s* then r/x), sometimes with one `c` that needs a wake
fn fin_script(rng: &mut Rng) -> String {
    let mut s = String::new();
    for _ in 0..*rng.pick(&[0u64, 0, 1, 1, 2, 3]) {
        s.push('s');
    }
    if rng.chance(1, 6) {
        s.push('c');
    }
    s.push(if rng.chance(1, 4) { 'x' } else { 'r' });
    new_terminal(s, rng)
}

/// mostly self-waking
fn s_script(rng: &mut Rng) -> String {
    let mut s = String::new();
    for _ in 0..rng.range(1, 5) {
        s.push(*rng.pick(&['s', 's', 's', 's', 'p', 'c']));
    }
    match rng.below(4) {
        0 => {}
        1 => s.push('x'),
        _ => s.push('r'),
    }
    new_terminal(s, rng)
}

/// kept waker clones: spawn c-scripts, tick, then wake / wdrop in every phase
fn fam_waker(rng: &mut Rng) -> Prog {
    let mut p = Prog::new(*rng.pick(&[1u32, 2, 3, 61, 61]));
    p.spawn(&c_script(rng));
    if rng.chance(1, 3) {
        let s = if rng.chance(1, 2) { c_script(rng) } else { gen_script(rng) };
        p.spawn(&s);
    }
    if rng.chance(1, 4) {
        match rng.below(4) {
            0 => p.hpoll(0, 0),
            1 => p.hend("hdetach", 0),
            2 => p.hend("hdrop", 0),
            _ => p.hend("hcancel", 0),
        }
    }
    p.tick();
    for _ in 0..rng.below(3) {
        p.tick();
    }
    let id = p.with_wakers().first().copied().unwrap_or(0);
    match rng.below(8) {
        0 => {
            // wake / tick until (plausibly) complete, wake after completion, then drop the clones
            for _ in 0..rng.range(1, 5) {
                p.wake(id);
                if rng.chance(1, 5) {
                    p.wake(id);
                }
                p.tick();
            }
            p.wake(id);
            if rng.chance(1, 2) {
                p.tick();
            }
            p.wdrop(id);
            p.wake(id);
        }
        1 => {
            // the kept clone becomes the last holder: handle gone, task over, then wdrop
            let op = *rng.pick(&["hdetach", "hdrop", "hcancel", "hdetach"]);
            p.hend(op, id);
            for _ in 0..rng.range(1, 4) {
                p.wake(id);
                p.tick();
            }
            for _ in 0..p.tasks[id].wakers + rng.below(2) as u32 {
                p.wdrop(id);
            }
        }
        2 => {
            // executor dropped while clones are kept: wake / wdrop / handle afterwards
            if rng.chance(1, 2) {
                p.hpoll(id, 0);
            }
            p.xdrop();
            for _ in 0..rng.range(1, 4) {
                match rng.below(4) {
                    0 | 1 => p.wake(id),
                    2 => p.wdrop(id),
                    _ => {
                        let w = p.pick_waker(id, rng);
                        p.hpoll(id, w)
                    }
                }
            }
            p.wdrop(id);
        }
        3 => {
            // drop every clone first, the task can never be woken again
            for _ in 0..p.tasks[id].wakers.max(1) {
                p.wdrop(id);
            }
            p.wake(id);
            p.tick();
            if rng.chance(1, 2) {
                p.hend(*rng.pick(&["hdrop", "hcancel", "hdetach"]), id);
                p.tick();
            }
        }
        4 => {
            // wake, then cancel before the tick that would have polled it
            p.wake(id);
            p.hend(*rng.pick(&["hdrop", "hcancel", "hdrop"]), id);
            if rng.chance(2, 3) {
                p.tick();
            }
            p.wake(id);
            p.wdrop(id);
        }
        5 => {
            // several clones of the same task alive at once, dropped one by one between wakes and ticks
            for _ in 0..rng.range(1, 3) {
                p.wake(id);
                p.tick();
            }
            while p.tasks[id].wakers > 0 {
                p.wdrop(id);
                match rng.below(4) {
                    0 => p.wake(id),
                    1 => p.tick(),
                    2 => {
                        p.wake(id);
                        p.tick();
                    }
                    _ => {}
                }
            }
        }
        _ => {}
    }
    for _ in 0..rng.below(7) {
        step(&mut p, rng, &PROF_WAKER, c_script);
    }
    p
}

/// join handles: park with a waker before the completing tick, then take / drop / detach / cancel
fn fam_join(rng: &mut Rng) -> Prog {
    let mut p = Prog::new(*rng.pick(&[1u32, 2, 3, 61, 61, 61]));
    let k = rng.range(1, 3) as usize;
    for _ in 0..k {
        p.spawn(&fin_script(rng));
    }
    let id = rng.below(k as u64) as usize;
    // some ticks that (plausibly) do not complete the target yet
    let need = p.tasks[id].script.len() as u64;
    for _ in 0..rng.below(need) {
        p.tick();
    }
    match rng.below(6) {
        0 => p.hpoll(id, 0),
        1 => {
            p.hpoll(id, 0);
            p.hpoll(id, 1);
        }
        2 => {
            p.hpoll(id, 0);
            p.hpoll(id, 0);
        }
        3 => {
            // several handles parked on the same waker / on different wakers
            let same = rng.chance(1, 2);
            for j in 0..k {
                p.hpoll(j, if same { 0 } else { j as u64 });
            }
        }
        4 => {
            p.hpoll(id, 1);
            p.tick();
            p.hpoll(id, 2);
        }
        _ => {}
    }
    // tick until (plausibly) complete; sometimes one short, sometimes a few more
    let mut guard = 0;
    while p.tasks[id].g == Guess::Running && guard < 8 {
        if p.tasks[id].wakers > 0 && !p.tasks[id].runnable {
            p.wake(id);
        }
        p.tick();
        guard += 1;
    }
    match rng.below(10) {
        0 => {}
        1 | 2 | 3 => {
            let w = p.pick_waker(id, rng);
            p.hpoll(id, w);
            if rng.chance(1, 3) {
                p.hpoll(id, w);
            }
        }
        4 => {
            p.hend("hdrop", id);
            p.hpoll(id, 0);
        }
        5 => p.hend("hdetach", id),
        6 => p.hend("hcancel", id),
        7 if rng.chance(1, 2) => p.hend("hcancel", id),
        7 => {
            p.xdrop();
            let w = p.pick_waker(id, rng);
            p.hpoll(id, w);
        }
        8 => {
            p.lines.push("woken".into());
            p.tick();
        }
        _ => {
            for j in 0..k {
                let w = p.pick_waker(j, rng);
                p.hpoll(j, w);
            }
        }
    }
    for _ in 0..rng.below(5) {
        step(&mut p, rng, &PROF_JOIN, fin_script);
    }
    p
}

/// hdrop / hdetach / hcancel / xdrop in every phase of a task, followed by handle and waker operations
fn fam_phase(rng: &mut Rng) -> Prog {
    let mut p = Prog::new(*rng.pick(&[1u32, 2, 3, 61, 61]));
    let phase = rng.below(4);
    let op = *rng.pick(&["hdrop", "hdetach", "hcancel", "xdrop"]);
    if rng.chance(1, 3) {
        p.spawn(&gen_script(rng));
    }
    let id = p.tasks.len();
    match phase {
        0 => {
            // before the first tick
            let s = if rng.chance(1, 2) { gen_script(rng) } else { fin_script(rng) };
            p.spawn(&s);
        }
        1 => {
            // between ticks while pending
            let mut s = String::from(*rng.pick(&["s", "c", "p", "ss", "sc", "cs", "cc"]));
            match rng.below(3) {
                0 => {}
                1 => s.push('x'),
                _ => s.push('r'),
            }
            p.spawn(&s);
            p.tick();
            if rng.chance(1, 3) {
                p.tick();
            }
        }
        2 => {
            // after completion, result not taken
            p.spawn(*rng.pick(&["r", "x", "sr", "sx", "ssr", "r", "R", "X", "C", "sR", "sC"]));
            let mut guard = 0;
            while p.tasks[id].g == Guess::Running && guard < 5 {
                p.tick();
                guard += 1;
            }
        }
        _ => {
            // after the executor was dropped
            let s = if rng.chance(1, 2) { c_script(rng) } else { gen_script(rng) };
            p.spawn(&s);
            for _ in 0..rng.below(3) {
                p.tick();
            }
            if rng.chance(1, 3) {
                p.hpoll(id, 0);
            }
            p.xdrop();
        }
    }
    if rng.chance(1, 3) && phase != 3 {
        let w = p.pick_waker(id, rng);
        p.hpoll(id, w);
    }
    if op == "xdrop" { p.xdrop() } else { p.hend(op, id) }
    // follow-ups on the same task
    for _ in 0..rng.range(1, 4) {
        match rng.below(8) {
            0 | 1 => p.tick(),
            2 => {
                let w = p.pick_waker(id, rng);
                p.hpoll(id, w)
            }
            3 => p.wake(id),
            4 => p.wdrop(id),
            5 => p.hend(*rng.pick(&["hdrop", "hdetach", "hcancel"]), id),
            6 => p.xdrop(),
            _ => p.stat(id),
        }
    }
    for _ in 0..rng.below(5) {
        step(&mut p, rng, &PROF_PHASE, gen_script);
    }
    p
}

/// small max_interval, several self-waking tasks: tick order, budget, prefetching hot iterator
fn fam_hot(rng: &mut Rng) -> Prog {
    let mut p = Prog::new(*rng.pick(&[1u32, 2, 2, 3, 3]));
    for _ in 0..rng.range(2, 4) {
        p.spawn(&s_script(rng));
    }
    for _ in 0..rng.range(6, 18) {
        step(&mut p, rng, &PROF_HOT, s_script);
    }
    p
}

fn fam_hostile(rng: &mut Rng) -> Prog {
    let mut p = Prog::new(*rng.pick(&[0u32, 1, 2, 4, 5, 61, 100]));
    for _ in 0..rng.range(3, 14) {
        step(&mut p, rng, &PROF_HOSTILE, gen_script);
    }
    p
}

/// a script with cross-thread wakes inside polls (`W`) and / or kept clones (`c`) for rwake
fn w_script(rng: &mut Rng) -> String {
    if rng.chance(1, 2) {
        return rng
            .pick(&["cWr", "cWWr", "Wr", "sWr", "cWx", "cW", "cWp", "WWr", "csWr", "cWcr", "cr", "ccr", "cpr", "cWpr", "Wcr", "cWs", "cWR", "WR", "cWC", "WX", "cR"])
            .to_string();
    }
    let mut s = String::new();
    if rng.chance(3, 4) {
        for _ in 0..*rng.pick(&[0u64, 0, 0, 1]) {
            s.push(*rng.pick(&['s', 'W']));
        }
        s.push('c');
    }
    for _ in 0..rng.below(4) {
        s.push(*rng.pick(&['W', 'W', 'c', 's', 'p']));
    }
    match rng.below(5) {
        0 => {}
        1 => s.push('x'),
        _ => s.push('r'),
    }
    if s.is_empty() { "W".into() } else { new_terminal(s, rng) }
}

/// handle dropped / cancelled on another thread in every phase of the task, then ticks
fn fam_remote_drop(rng: &mut Rng) -> Prog {
    let mut p = Prog::new(*rng.pick(&[1u32, 2, 61, 61]));
    if rng.chance(1, 3) {
        p.spawn(&gen_script(rng));
    }
    let id = p.tasks.len();
    let op = *rng.pick(&["rhdrop", "rhdrop", "rhcancel", "rhcancel", "hdrop", "hcancel"]);
    match rng.below(6) {
        0 => {
            // before the first tick (hot, never polled)
            p.spawn(*rng.pick(&["p", "sp", "cp", "r", "-", "ssr", "cr"]));
        }
        1 | 2 => {
            // pending and cold
            p.spawn(*rng.pick(&["p", "cp", "c", "pr", "cpr", "cr", "-"]));
            p.tick();
            if rng.chance(1, 3) {
                p.tick();
            }
        }
        3 => {
            // pending and hot: woke itself, or woken (locally / remotely) through a kept clone
            if rng.chance(1, 2) {
                p.spawn(*rng.pick(&["sp", "ssp", "sr", "ssr", "Wp", "sWr"]));
                p.tick();
            } else {
                p.spawn(*rng.pick(&["cp", "cr", "ccr", "cWr"]));
                p.tick();
                match rng.below(3) {
                    0 => p.wake(id),
                    1 => p.rwake(id),
                    _ => {
                        p.rwake(id);
                        p.rwake(id);
                    }
                }
            }
        }
        4 => {
            // after completion, result not taken
            p.spawn(*rng.pick(&["r", "x", "sr", "sx", "Wr", "R", "X", "C", "sR"]));
            let mut guard = 0;
            while p.tasks[id].g == Guess::Running && guard < 4 {
                p.tick();
                guard += 1;
            }
        }
        _ => {
            // after the executor was dropped
            p.spawn(*rng.pick(&["p", "cp", "r", "sp"]));
            for _ in 0..rng.below(2) {
                p.tick();
            }
            p.xdrop();
        }
    }
    if rng.chance(1, 4) {
        let w = p.pick_waker(id, rng);
        if rng.chance(1, 2) { p.hpoll(id, w) } else { p.rhpoll(id, w) }
    }
    if op.starts_with('r') { p.rhend(op, id) } else { p.hend(op, id) }
    for _ in 0..rng.below(4) {
        match rng.below(8) {
            0..=3 => p.tick(),
            4 => p.rwake(id),
            5 => p.rhpoll(id, 0),
            6 => p.rwdrop(id),
            _ => p.stat(id),
        }
    }
    for _ in 0..rng.below(3) {
        step(&mut p, rng, &PROF_REMOTE, gen_script);
    }
    p
}

/// wakers used on another thread: rwake / rwakeb of kept clones, `W` wakes inside polls
fn fam_remote_wake(rng: &mut Rng) -> Prog {
    let mut p = Prog::new(*rng.pick(&[1u32, 2, 3, 61, 61]));
    p.spawn(&w_script(rng));
    if rng.chance(1, 3) {
        p.spawn(&w_script(rng));
    }
    p.tick();
    if rng.chance(1, 4) {
        p.tick();
    }
    let id = p.with_wakers().first().copied().unwrap_or(0);
    match rng.below(8) {
        0 | 1 => {
            // remote wake BEFORE the tick whose poll contains a `W`: wake, poll with a wake inside, poll again
            p.rwake(id);
            p.tick();
            p.tick();
            if rng.chance(1, 2) {
                p.tick();
            }
        }
        2 => {
            // several remote wakes in a row (coalesced), then local
            for _ in 0..rng.range(2, 3) {
                p.rwake(id);
            }
            if rng.chance(1, 2) {
                p.wake(id);
            }
            p.tick();
            p.tick();
        }
        3 => {
            // local wake first, then remote
            p.wake(id);
            p.rwake(id);
            p.tick();
            p.rwake(id);
            p.tick();
        }
        4 => {
            // wake / tick until (plausibly) complete, then wake the completed task remotely
            for _ in 0..rng.range(1, 4) {
                if rng.chance(2, 3) { p.rwake(id) } else { p.rwakeb(id) }
                p.tick();
            }
            p.rwake(id);
            p.rwdrop(id);
        }
        5 => {
            // remote wake of a cancelled task
            p.hend(*rng.pick(&["hdrop", "hcancel"]), id);
            p.rwake(id);
            p.tick();
            p.rwake(id);
        }
        6 => {
            // blocking wakes
            p.rwakeb(id);
            if rng.chance(1, 2) {
                p.rwakeb(id);
            }
            p.tick();
        }
        _ => {}
    }
    for _ in 0..rng.below(5) {
        step(&mut p, rng, &PROF_REMOTE, w_script);
    }
    p
}

/// handle polled on another thread, mixed with local polls, before and after the completing tick
fn fam_remote_poll(rng: &mut Rng) -> Prog {
    let mut p = Prog::new(*rng.pick(&[1u32, 2, 61, 61, 61]));
    let k = rng.range(1, 2) as usize;
    for _ in 0..k {
        p.spawn(&fin_script(rng));
    }
    let id = rng.below(k as u64) as usize;
    let need = p.tasks[id].script.len() as u64;
    for _ in 0..rng.below(need) {
        p.tick();
    }
    match rng.below(5) {
        0 => p.rhpoll(id, 0),
        1 => {
            p.rhpoll(id, 0);
            p.rhpoll(id, 0);
        }
        2 => {
            p.hpoll(id, 0);
            p.rhpoll(id, 1);
        }
        3 => {
            p.rhpoll(id, 1);
            p.hpoll(id, 1);
            p.rhpoll(id, 2);
        }
        _ => {}
    }
    let mut guard = 0;
    while p.tasks[id].g == Guess::Running && guard < 8 {
        if p.tasks[id].wakers > 0 && !p.tasks[id].runnable {
            p.rwake(id);
        }
        p.tick();
        guard += 1;
    }
    match rng.below(7) {
        0 | 1 | 2 => {
            let w = p.pick_waker(id, rng);
            p.rhpoll(id, w);
            if rng.chance(1, 3) {
                p.rhpoll(id, w);
            }
        }
        3 => p.rhend("rhdrop", id),
        4 => p.rhend("rhcancel", id),
        5 => {
            p.xdrop();
            p.rhpoll(id, 0);
        }
        _ => {}
    }
    for _ in 0..rng.below(4) {
        step(&mut p, rng, &PROF_REMOTE, fin_script);
    }
    p
}

/// sync queue of 1 or 2 slots: refused operations (`full`), blocking wakes through a full queue
fn fam_small_queue(rng: &mut Rng) -> Prog {
    let mut p = Prog::new_q(*rng.pick(&[1u32, 2, 61, 61]), *rng.pick(&[1u32, 1, 2, 2, 0]));
    let k = rng.range(2, 3) as usize;
    for _ in 0..k {
        p.spawn(*rng.pick(&["cpr", "cpr", "cr", "ccr", "cWr", "cp", "cWWr", "c"]));
    }
    p.tick();
    if rng.chance(1, 3) {
        p.tick();
    }
    if rng.chance(2, 5) {
        // fill the queue with admitted remote wakes of distinct tasks, then a blocking wake of another task
        // has to go through the full queue (driver waker -> tick -> retry)
        let first = rng.below(k as u64) as usize;
        p.rwake(first);
        if rng.chance(1, 3) {
            p.rwake((first + 1) % k);
        }
        p.rwakeb((first + k - 1) % k);
        p.tick();
        p.tick();
    }
    for _ in 0..rng.range(1, 5) {
        let id = rng.below(k as u64) as usize;
        match rng.below(10) {
            0..=2 => p.rwake(id),
            3..=5 => p.rwakeb(id),
            6 | 7 => p.tick(),
            8 => p.rhend(*rng.pick(&["rhdrop", "rhcancel"]), id),
            _ => p.wake(id),
        }
    }
    p.tick();
    if rng.chance(1, 2) {
        p.tick();
    }
    for _ in 0..rng.below(3) {
        step(&mut p, rng, &PROF_REMOTE, w_script);
    }
    p
}

fn fam_remote_hostile(rng: &mut Rng) -> Prog {
    let mut p = Prog::new_q(*rng.pick(&[0u32, 1, 2, 61]), *rng.pick(&[0u32, 1, 2, 3, 64]));
    for _ in 0..rng.range(3, 10) {
        step(&mut p, rng, &PROF_RHOSTILE, w_script);
    }
    p
}

/// a task that makes itself hot during its final poll (R / X) while other tasks are hot behind it, followed by
/// something that is linked to the hot tail (self-wake, wake of a parked task, spawn, W), then more ticks;
/// also the variant where the finishing task is the only hot one
fn fam_requeue(rng: &mut Rng) -> Prog {
    let mut p = Prog::new(*rng.pick(&[2u32, 3, 4, 61, 61, 61]));
    // tasks parked with a kept clone (woken later)
    let parked = rng.below(3) as usize;
    for _ in 0..parked {
        p.spawn(*rng.pick(&["cp", "cr", "csr", "cs", "cR", "cc"]));
    }
    if parked > 0 {
        p.tick();
    }
    let fin = ["R", "R", "X", "sR", "sX", "ssR", "R"];
    let other = ["s", "sr", "ss", "sp", "sW", "p", "r", "Wr", "ssr", "sR", "sss", "c", "C"];
    if rng.chance(1, 4) {
        // the finishing task is the only hot one
        p.spawn(*rng.pick(&fin));
        p.tick();
    } else {
        let k = rng.range(2, 4) as usize;
        let at = rng.below(k as u64) as usize;
        for j in 0..k {
            if j == at || rng.chance(1, 5) { p.spawn(*rng.pick(&fin)) } else { p.spawn(*rng.pick(&other)) }
        }
        p.tick();
    }
    for _ in 0..rng.range(1, 4) {
        let ws = p.with_wakers();
        match rng.below(8) {
            0 | 1 if !ws.is_empty() => p.wake(*rng.pick(&ws)),
            2 if !ws.is_empty() => p.rwake(*rng.pick(&ws)),
            0..=3 => {
                let s = if rng.chance(1, 3) { rng.pick(&fin).to_string() } else { s_script(rng) };
                p.spawn(&s)
            }
            4 => {
                let hs = p.with_handle();
                if !hs.is_empty() {
                    let id = *rng.pick(&hs);
                    let w = p.pick_waker(id, rng);
                    p.hpoll(id, w)
                }
            }
            _ => p.tick(),
        }
    }
    p.tick();
    for _ in 0..rng.below(3) {
        p.tick();
    }
    for _ in 0..rng.below(3) {
        step(&mut p, rng, &PROF_HOT, s_script);
    }
    p
}

/// the original unstructured generator (kept as is)
fn fam_random(rng: &mut Rng, name: String) -> Case {
    let mut lines = vec![format!("new {}", rng.pick(&[1u32, 2, 3, 61]))];
    let mut ntasks = 0usize;
    let len = rng.range(3, 16);
    for _ in 0..len {
        let id = if ntasks > 0 { rng.below(ntasks as u64) as usize } else { 0 };
        let op = rng.below(20);
        let l = match op {
            0..=3 => {
                ntasks += 1;
                format!("spawn {}", gen_script(rng))
            }
            4..=8 => "tick".to_string(),
            9..=11 if ntasks > 0 => format!("hpoll {id} {}", rng.below(3)),
            12 if ntasks > 0 => format!("hdrop {id}"),
            13 if ntasks > 0 => format!("hdetach {id}"),
            14 if ntasks > 0 => format!("hcancel {id}"),
            15..=16 if ntasks > 0 => format!("wake {id}"),
            17 if ntasks > 0 => format!("wdrop {id}"),
            18 if rng.chance(1, 4) => "xdrop".to_string(),
            _ if ntasks > 0 => format!("stat {id}"),
            _ => "tick".to_string(),
        };
        lines.push(l);
    }
    for id in 0..ntasks {
        lines.push(format!("stat {id}"));
    }
    lines.push("woken".into());
    Case { name, lines: with_qdumps(lines, Dumps::All) }
}

// ---- exhaustive enumeration -------------------------------------------------------------------

/// Syntactic state of the enumeration (no semantics: only what the program text certainly implies).
#[derive(Clone, Copy)]
struct EnumSt {
    /// number of spawns so far (at most 2)
    nsp: usize,
    /// number of `c` in the script of task 0
    c0: u32,
    /// no `xdrop` yet
    alive: bool,
    /// handle i not yet certainly consumed (by hdrop / hdetach / hcancel)
    h: [bool; 2],
    /// a tick happened after the spawn of task 0 while the executor was alive
    tick0: bool,
    /// number of `wdrop 0` so far
    wd0: u32,
    /// some `hpoll` occurred (then waker 1 is not just a renaming of waker 0)
    wused: bool,
}

/// All programs of 1..=maxlen operations over the alphabet
/// {spawn s (s in `scripts`), tick, hpoll 0 0, hpoll 0 1, hpoll 1 0, hdrop 0, hdrop 1, hdetach 0, hcancel 0, wake 0,
/// wdrop 0, xdrop} that start with a spawn, spawn at most 2 tasks, and contain no operation that is *certainly*
/// `invalid` by syntax alone: task id not yet spawned; handle already consumed by hdrop/hdetach/hcancel;
/// spawn/tick/xdrop after xdrop; wake/wdrop of task 0 when its script has no `c`, or before the first tick after its
/// spawn, or after as many `wdrop 0` as its script has `c`. `hpoll 0 1` is only used after some other hpoll
/// (before, waker 1 is waker 0 renamed).
fn enumerate(maxlen: usize, n: u32, scripts: &[&str], prefix: &str, dumps: Dumps, out: &mut Vec<Case>) {
    let first = out.len();
    fn rec(left: usize, st: EnumSt, ops: &mut Vec<String>, n: u32, scripts: &[&str], prefix: &str, out: &mut Vec<Case>) {
        if st.nsp > 0 {
            let mut lines = Vec::with_capacity(ops.len() + 4);
            lines.push(format!("new {n}"));
            lines.extend(ops.iter().cloned());
            for id in 0..st.nsp {
                lines.push(format!("stat {id}"));
            }
            lines.push("woken".into());
            out.push(Case { name: format!("{prefix}-{}", out.len()), lines });
        }
        if left == 0 {
            return;
        }
        let go = |op: String, st2: EnumSt, ops: &mut Vec<String>, out: &mut Vec<Case>| {
            ops.push(op);
            rec(left - 1, st2, ops, n, scripts, prefix, out);
            ops.pop();
        };
        if st.alive && st.nsp < 2 {
            for s in scripts {
                let mut s2 = st;
                s2.nsp += 1;
                if st.nsp == 0 {
                    s2.c0 = s.chars().filter(|c| *c == 'c' || *c == 'C').count() as u32;
                    s2.h[0] = true;
                    s2.tick0 = false;
                } else {
                    s2.h[1] = true;
                }
                go(format!("spawn {s}"), s2, ops, out);
            }
        }
        if st.nsp == 0 {
            return;
        }
        if st.alive {
            go("tick".into(), EnumSt { tick0: true, ..st }, ops, out);
            go("xdrop".into(), EnumSt { alive: false, ..st }, ops, out);
        }
        if st.h[0] {
            go("hpoll 0 0".into(), EnumSt { wused: true, ..st }, ops, out);
            if st.wused {
                go("hpoll 0 1".into(), st, ops, out);
            }
            for op in ["hdrop 0", "hdetach 0", "hcancel 0"] {
                go(op.into(), EnumSt { h: [false, st.h[1]], ..st }, ops, out);
            }
        }
        if st.nsp == 2 && st.h[1] {
            go("hpoll 1 0".into(), EnumSt { wused: true, ..st }, ops, out);
            go("hdrop 1".into(), EnumSt { h: [st.h[0], false], ..st }, ops, out);
        }
        if st.c0 > st.wd0 && st.tick0 {
            go("wake 0".into(), st, ops, out);
            go("wdrop 0".into(), EnumSt { wd0: st.wd0 + 1, ..st }, ops, out);
        }
    }
    let st = EnumSt { nsp: 0, c0: 0, alive: true, h: [false, false], tick0: false, wd0: 0, wused: false };
    rec(maxlen, st, &mut vec![], n, scripts, prefix, out);
    for c in &mut out[first..] {
        c.lines = with_qdumps(std::mem::take(&mut c.lines), dumps);
    }
}

/// Syntactic state of the cross-thread enumeration.
#[derive(Clone, Copy)]
struct EnumR {
    nsp: usize,
    /// number of `c` in the script of task i
    c: [u32; 2],
    alive: bool,
    /// handle i not yet certainly consumed
    h: [bool; 2],
    /// a tick (explicit, or possibly inside a rwakeb) happened after the spawn of task i
    tick: [bool; 2],
    /// number of `rwdrop i` so far
    wd: [u32; 2],
}

/// All programs of 1..=maxlen operations over the alphabet {spawn s (s in `scripts`), tick, rwake 0, rwake 1, rwakeb 0,
/// rwakeb 1, wake 0, rwdrop 0, rhpoll 0 0, hpoll 0 1, rhdrop 0, rhcancel 0, hdrop 1, xdrop}, pruned like `enumerate`
/// (first a spawn, at most 2 spawns, nothing that is certainly `invalid` by syntax alone; `full` is not pruned).
fn enumerate_r(maxlen: usize, new: &str, scripts: &[&str], prefix: &str, dumps: Dumps, out: &mut Vec<Case>) {
    let first = out.len();
    fn rec(left: usize, st: EnumR, ops: &mut Vec<String>, new: &str, scripts: &[&str], prefix: &str, out: &mut Vec<Case>) {
        if st.nsp > 0 {
            let mut lines = Vec::with_capacity(ops.len() + 4);
            lines.push(new.to_string());
            lines.extend(ops.iter().cloned());
            for id in 0..st.nsp {
                lines.push(format!("stat {id}"));
            }
            lines.push("woken".into());
            out.push(Case { name: format!("{prefix}-{}", out.len()), lines });
        }
        if left == 0 {
            return;
        }
        let go = |op: String, st2: EnumR, ops: &mut Vec<String>, out: &mut Vec<Case>| {
            ops.push(op);
            rec(left - 1, st2, ops, new, scripts, prefix, out);
            ops.pop();
        };
        if st.alive && st.nsp < 2 {
            for s in scripts {
                let mut s2 = st;
                let i = st.nsp;
                s2.nsp += 1;
                s2.c[i] = s.chars().filter(|c| *c == 'c' || *c == 'C').count() as u32;
                s2.h[i] = true;
                s2.tick[i] = false;
                go(format!("spawn {s}"), s2, ops, out);
            }
        }
        if st.nsp == 0 {
            return;
        }
        let ticked = EnumR { tick: [true, st.nsp == 2 || st.tick[1]], ..st };
        if st.alive {
            go("tick".into(), ticked, ops, out);
            go("xdrop".into(), EnumR { alive: false, ..st }, ops, out);
        }
        if st.h[0] {
            go("rhpoll 0 0".into(), st, ops, out);
            go("hpoll 0 1".into(), st, ops, out);
            go("rhdrop 0".into(), EnumR { h: [false, st.h[1]], ..st }, ops, out);
            go("rhcancel 0".into(), EnumR { h: [false, st.h[1]], ..st }, ops, out);
        }
        if st.nsp == 2 && st.h[1] {
            go("hdrop 1".into(), EnumR { h: [st.h[0], false], ..st }, ops, out);
        }
        for i in 0..st.nsp {
            if st.c[i] > st.wd[i] && st.tick[i] {
                go(format!("rwake {i}"), st, ops, out);
                // may run a tick (only while the executor is alive)
                go(format!("rwakeb {i}"), if st.alive { ticked } else { st }, ops, out);
                if i == 0 {
                    go("wake 0".into(), st, ops, out);
                    go("rwdrop 0".into(), EnumR { wd: [st.wd[0] + 1, st.wd[1]], ..st }, ops, out);
                }
            }
        }
    }
    let st = EnumR { nsp: 0, c: [0, 0], alive: true, h: [false, false], tick: [false, false], wd: [0, 0] };
    rec(maxlen, st, &mut vec![], new, scripts, prefix, out);
    for c in &mut out[first..] {
        c.lines = with_qdumps(std::mem::take(&mut c.lines), dumps);
    }
}

const SCRIPTS_R: [&str; 4] = ["cWr", "cpr", "p", "Wr"];
const SCRIPTS_A: [&str; 4] = ["r", "sr", "cx", "p"];
const SCRIPTS_B: [&str; 4] = ["x", "ssr", "ccr", "cs"];
const SCRIPTS_C: [&str; 4] = ["R", "sR", "cC", "X"];

fn generate(tier: &str, rng: &mut Rng) -> Vec<Case> {
    let thorough = tier == "thorough";
    let mut cases = vec![];
    // 1. exhaustive slices
    if thorough {
        enumerate(7, 61, &SCRIPTS_A, "xa", Dumps::Sparse, &mut cases);
        enumerate(6, 1, &SCRIPTS_A, "xb", Dumps::Sparse, &mut cases);
        enumerate(6, 2, &SCRIPTS_A, "xc", Dumps::Sparse, &mut cases);
        enumerate(6, 61, &SCRIPTS_B, "xd", Dumps::Sparse, &mut cases);
        enumerate(5, 1, &SCRIPTS_B, "xe", Dumps::Sparse, &mut cases);
        enumerate(5, 2, &SCRIPTS_B, "xf", Dumps::Sparse, &mut cases);
        enumerate(5, 3, &SCRIPTS_B, "xg", Dumps::Sparse, &mut cases);
        enumerate(6, 61, &SCRIPTS_C, "xh", Dumps::Sparse, &mut cases);
        enumerate(5, 1, &SCRIPTS_C, "xi", Dumps::Sparse, &mut cases);
        enumerate(5, 2, &SCRIPTS_C, "xj", Dumps::Sparse, &mut cases);
        enumerate_r(6, "new 61", &SCRIPTS_R, "xr", Dumps::Sparse, &mut cases);
        enumerate_r(5, "new 61 1", &SCRIPTS_R, "xs", Dumps::Sparse, &mut cases);
        enumerate_r(5, "new 1 2", &SCRIPTS_R, "xt", Dumps::Sparse, &mut cases);
    } else {
        enumerate(4, 1, &SCRIPTS_A, "xa", Dumps::All, &mut cases);
        enumerate(3, 61, &SCRIPTS_A, "xb", Dumps::All, &mut cases);
        enumerate(3, 2, &SCRIPTS_C, "xh", Dumps::All, &mut cases);
        enumerate_r(3, "new 61", &SCRIPTS_R, "xr", Dumps::All, &mut cases);
        enumerate_r(3, "new 61 1", &SCRIPTS_R, "xs", Dumps::All, &mut cases);
    }
    // 2. generated programs
    let n = if thorough { 40_000 } else { 1_750 };
    for i in 0..n {
        let (fam, prog) = match rng.below(100) {
            0..=15 => {
                cases.push(fam_random(rng, format!("rnd{i}")));
                continue;
            }
            16..=21 => ("hostile", fam_hostile(rng)),
            22..=31 => ("waker", fam_waker(rng)),
            32..=41 => ("join", fam_join(rng)),
            42..=51 => ("phase", fam_phase(rng)),
            52..=59 => ("hot", fam_hot(rng)),
            60..=67 => ("requeue", fam_requeue(rng)),
            68..=75 => ("rdrop", fam_remote_drop(rng)),
            76..=85 => ("rwake", fam_remote_wake(rng)),
            86..=91 => ("rpoll", fam_remote_poll(rng)),
            92..=96 => ("smallq", fam_small_queue(rng)),
            _ => ("rhostile", fam_remote_hostile(rng)),
        };
        cases.push(prog.finish(format!("{fam}{i}")));
    }
    cases
}

fn main() {
    run_harness(
        generate,
        run_case,
        "cases: programs of local operations (spawn script, tick, hpoll, hdrop, hdetach, hcancel, wake, wdrop, xdrop, stat, woken; script letters p s c r x, and R = wake self then Ready, X = wake self then panic, C = keep a waker clone then Ready) and sequential cross-thread operations (rhpoll, rhdrop, rhcancel, rwake, rwakeb, rwdrop run on a helper thread that the main thread waits for; script letter W = a clone of the task waker is woken on a helper thread inside the poll; `new n q` sets sync_queue_size q; the executor always has a driver waker that, when armed by rwakeb, makes the main thread tick once). (a) exhaustive, local: every program of 1..L operations over {spawn s, tick, hpoll 0 0, hpoll 0 1, hpoll 1 0, hdrop 0, hdrop 1, hdetach 0, hcancel 0, wake 0, wdrop 0, xdrop} that starts with a spawn, spawns at most 2 tasks and has no operation that is invalid by syntax alone (unknown id, handle already consumed, dead executor, no waker clone possible); quick: scripts {r,sr,cx,p}, L=4 for max_interval 1, L=3 for 61; thorough: scripts {r,sr,cx,p}, L=7 for max_interval 61, L=6 for 1 and 2; scripts {x,ssr,ccr,cs}, L=6 for 61, L=5 for 1, 2, 3; scripts {R,sR,cC,X}, quick L=3 for max_interval 2, thorough L=6 for 61, L=5 for 1 and 2. (b) exhaustive, cross-thread, same pruning: alphabet {spawn s, tick, rwake 0, rwake 1, rwakeb 0, rwakeb 1, wake 0, rwdrop 0, rhpoll 0 0, hpoll 0 1, rhdrop 0, rhcancel 0, hdrop 1, xdrop}, scripts {cWr,cpr,p,Wr}; quick: L=3 for (max_interval 61, queue 64) and (61, 1); thorough: L=6 for (61, 64), L=5 for (61, 1) and (1, 2). (c) generated (quick 1750, thorough 40000; about a third of the r/x terminal letters are R/C/X): 16% unstructured random local programs; 6% hostile (ids out of range, consumed handles, wake/wdrop without clone, operations on a dropped executor, max_interval in {0,1,2,4,5,61,100}); 10% waker (scripts s*c..: wake/wdrop while pending, after completion, as last holder, after hdrop/hcancel, after xdrop); 10% join (handle parked with one/two/the same waker before the completing tick, then poll/drop/detach/cancel/xdrop); 10% phase (hdrop/hdetach/hcancel/xdrop before the first tick, while pending, after completion, after xdrop); 8% hot (max_interval 1..3, 2-6 mostly self-waking tasks, many ticks); 8% requeue (a task finishing with R/X while other tasks are hot behind it or as the only hot task, then self-wakes, wakes of parked tasks, spawns, W, more ticks; max_interval 2..4 and 61); 8% rdrop (handle dropped/cancelled on another thread before the first tick, while pending cold, while hot, after completion, after xdrop, then ticks); 10% rwake (scripts with c and W: rwake before the tick whose poll contains a W, several rwake in a row, rwake mixed with wake, rwake of completed/cancelled tasks, rwakeb, small max_interval); 6% rpoll (rhpoll mixed with hpoll, same/other waker, before and after the completing tick); 5% smallq (sync queue of 1 or 2 slots: rwake refused as full, rwakeb through a full queue, mixes); 3% rhostile (cross-thread operations with bad ids, consumed handles, dropped executor, queue sizes 0..3). The generator keeps a syntactic shadow (scripts, ticks, consumed handles) only to bias choices; it never judges outputs. A `qdump` line (hot and cold list of the real task queue as walked through the intrusive links via the compio_verif hook Executor::verif_queue_dump, plus the stored tails, keys mapped to task numbers) follows every operation line except new/stat/woken in the generated families, the quick exhaustive sets and before the trailing stat lines of every case; in the thorough exhaustive sets only tick / wake / rwake / rwakeb / hdrop / rhdrop / hcancel / rhcancel lines are followed by one. The queue well-formedness monitor runs after every operation line regardless. Every case ends with stat of every task and the wake log; after the last line the harness keeps ticking until the executor runs dry and no remotely woken task is owed a poll (starvation / lost-wake / reaping monitors) and then drops everything (drop-count monitors). distinct by text; non-trivial = some spawn succeeded and at least 4 lines",
    );
}
