//! C04 correspondence harness: single-threaded programs on the real `compio_executor::Executor`
//! with instrumented futures / outputs / wakers (see lean/Drivers/C04.lean for the operations).

use std::{
    cell::RefCell,
    collections::{HashMap, VecDeque},
    future::Future,
    pin::Pin,
    rc::Rc,
    sync::{Arc, Mutex},
    task::{Context, Poll, Wake, Waker},
};

use compio_executor::{Executor, ExecutorConfig, JoinError, JoinHandle};
use hx_common::*;

#[derive(Default)]
struct Counters {
    polls: Vec<u32>,
    fut_drops: Vec<u32>,
    res_taken: Vec<u32>,
    res_drops: Vec<u32>,
    /// waker clones captured by the futures (outcome `c`)
    wakers: Vec<Vec<Waker>>,
    /// id cancelled (handle dropped / cancel called) before completion
    cancelled: Vec<bool>,
    completed: Vec<bool>,
    polled_after_end: Vec<u32>,
}

type Sh = Rc<RefCell<Counters>>;

struct Out {
    id: usize,
    sh: Sh,
    taken: bool,
}

impl Drop for Out {
    fn drop(&mut self) {
        if !self.taken {
            self.sh.borrow_mut().res_drops[self.id] += 1;
        }
    }
}

struct Scripted {
    id: usize,
    script: VecDeque<char>,
    sh: Sh,
}

impl Future for Scripted {
    type Output = Out;

    fn poll(mut self: Pin<&mut Self>, cx: &mut Context<'_>) -> Poll<Out> {
        let id = self.id;
        POLL_LOG.with(|l| l.borrow_mut().push(id));
        {
            let mut c = self.sh.borrow_mut();
            c.polls[id] += 1;
            if c.cancelled[id] || c.completed[id] {
                c.polled_after_end[id] += 1;
            }
        }
        match self.script.pop_front() {
            None | Some('p') => Poll::Pending,
            Some('s') => {
                cx.waker().wake_by_ref();
                Poll::Pending
            }
            Some('c') => {
                let w = cx.waker().clone();
                self.sh.borrow_mut().wakers[id].push(w);
                Poll::Pending
            }
            Some('r') => {
                self.sh.borrow_mut().completed[id] = true;
                Poll::Ready(Out { id, sh: self.sh.clone(), taken: false })
            }
            Some('x') => {
                self.sh.borrow_mut().completed[id] = true;
                let payload = Out { id, sh: self.sh.clone(), taken: false };
                std::panic::panic_any(SendOut(payload))
            }
            Some(c) => panic!("bad script letter {c}"),
        }
    }
}

impl Drop for Scripted {
    fn drop(&mut self) {
        self.sh.borrow_mut().fut_drops[self.id] += 1;
    }
}

/// panic payloads must be `Send`; everything here stays on one thread
struct SendOut(Out);
unsafe impl Send for SendOut {}

struct CountWaker {
    id: usize,
    log: Arc<Mutex<Vec<usize>>>,
}

impl Wake for CountWaker {
    fn wake(self: Arc<Self>) {
        self.log.lock().unwrap().push(self.id);
    }
}

struct World {
    exe: Option<Executor>,
    sh: Sh,
    handles: Vec<Option<JoinHandle<Out>>>,
    jw: HashMap<usize, Arc<CountWaker>>,
    wake_log: Arc<Mutex<Vec<usize>>>,
    /// (task, waker id) pairs whose last poll returned Pending
    parked: Vec<Option<usize>>,
}

impl World {
    fn new(max_interval: u32) -> Self {
        let cfg = ExecutorConfig { max_interval, ..Default::default() };
        World {
            exe: Some(Executor::with_config(cfg)),
            sh: Rc::new(RefCell::new(Counters::default())),
            handles: vec![],
            jw: HashMap::new(),
            wake_log: Arc::new(Mutex::new(vec![])),
            parked: vec![],
        }
    }

    fn waker(&mut self, w: usize) -> Waker {
        let log = self.wake_log.clone();
        Waker::from(self.jw.entry(w).or_insert_with(|| Arc::new(CountWaker { id: w, log })).clone())
    }
}

fn exec_line(w: &mut World, line: &str, ex: &mut Exec) -> String {
    let t: Vec<&str> = line.split_whitespace().collect();
    let idarg = |i: usize| -> usize { t[i].parse().unwrap() };
    match t[0] {
        "spawn" => {
            let Some(exe) = &w.exe else { return "invalid".into() };
            let id = w.handles.len();
            {
                let mut c = w.sh.borrow_mut();
                c.polls.push(0);
                c.fut_drops.push(0);
                c.res_taken.push(0);
                c.res_drops.push(0);
                c.wakers.push(vec![]);
                c.cancelled.push(false);
                c.completed.push(false);
                c.polled_after_end.push(0);
            }
            let script: VecDeque<char> = if t[1] == "-" { VecDeque::new() } else { t[1].chars().collect() };
            let h = exe.spawn(Scripted { id, script, sh: w.sh.clone() });
            w.handles.push(Some(h));
            w.parked.push(None);
            format!("id {id}")
        }
        "tick" => {
            let Some(exe) = &w.exe else { return "invalid".into() };
            let before: Vec<u32> = w.sh.borrow().polls.clone();
            // order of polls: record via a per-tick sequence — polls are counted; to get the order we
            // compare counters after each... the futures cannot know the order cheaply, so log it:
            POLL_LOG.with(|l| l.borrow_mut().clear());
            let hot = exe.tick();
            let _ = before;
            let log = POLL_LOG.with(|l| l.borrow().clone());
            let s: Vec<String> = log.iter().map(|i| i.to_string()).collect();
            format!("polled {} hot={}", if s.is_empty() { "-".into() } else { s.join(",") }, hot as u8)
        }
        "hpoll" => {
            let (id, wk) = (idarg(1), idarg(2));
            if id >= w.handles.len() || w.handles[id].is_none() {
                return "invalid".into();
            }
            let waker = w.waker(wk);
            let mut cx = Context::from_waker(&waker);
            let mut h = w.handles[id].take().unwrap();
            let r = Pin::new(&mut h).poll(&mut cx);
            match r {
                Poll::Pending => {
                    w.handles[id] = Some(h);
                    w.parked[id] = Some(wk);
                    "pending".into()
                }
                Poll::Ready(res) => {
                    w.parked[id] = None;
                    drop(h);
                    match res {
                        Ok(mut out) => {
                            out.taken = true;
                            w.sh.borrow_mut().res_taken[id] += 1;
                            if out.id != id {
                                ex.fail("C04:wrong-output", format!("handle {id} received the output of task {}", out.id));
                            }
                            "ok".into()
                        }
                        Err(JoinError::Panicked(p)) => {
                            match p.downcast::<SendOut>() {
                                Ok(mut so) => {
                                    so.0.taken = true;
                                    w.sh.borrow_mut().res_taken[id] += 1;
                                    if so.0.id != id {
                                        ex.fail("C04:wrong-output", format!("handle {id} received the panic of task {}", so.0.id));
                                    }
                                }
                                Err(_) => ex.fail("C04:foreign-panic", format!("handle {id}: unexpected panic payload")),
                            }
                            "panicked".into()
                        }
                        Err(JoinError::Cancelled) => "cancelled".into(),
                    }
                }
            }
        }
        "hdrop" | "hdetach" | "hcancel" => {
            let id = idarg(1);
            if id >= w.handles.len() || w.handles[id].is_none() {
                return "invalid".into();
            }
            match t[0] {
                "hdrop" => {
                    let done = w.sh.borrow().completed[id];
                    if !done {
                        w.sh.borrow_mut().cancelled[id] = true;
                    }
                    drop(w.handles[id].take());
                    w.parked[id] = None;
                }
                "hdetach" => {
                    w.handles[id].take().unwrap().detach();
                    w.parked[id] = None;
                }
                _ => {
                    // first half of `JoinHandle::cancel(self).await`: poll the cancel future once with a
                    // noop waker is not possible without consuming the handle, so drive it explicitly:
                    // `cancel()` = task.cancel(false) then await self. We emulate by polling the async fn
                    // to its first suspension and keeping it would change the handle type; instead mark
                    // and use the public API in one go.
                    let done = w.sh.borrow().completed[id];
                    if !done {
                        w.sh.borrow_mut().cancelled[id] = true;
                    }
                    let h = w.handles[id].take().unwrap();
                    let mut fut = Box::pin(h.cancel());
                    let waker = Waker::noop();
                    let mut cx = Context::from_waker(waker);
                    let r = fut.as_mut().poll(&mut cx);
                    w.parked[id] = None;
                    return match r {
                        Poll::Ready(Some(mut out)) => {
                            out.taken = true;
                            w.sh.borrow_mut().res_taken[id] += 1;
                            "ok some".into()
                        }
                        Poll::Ready(None) => "ok none".into(),
                        Poll::Pending => {
                            ex.fail("C04:cancel-pending", format!("JoinHandle::cancel of task {id} returned Pending"));
                            "ok pending".into()
                        }
                    };
                }
            }
            "ok".into()
        }
        "wake" => {
            let id = idarg(1);
            let c = w.sh.borrow();
            if id >= c.wakers.len() || c.wakers[id].is_empty() {
                return "invalid".into();
            }
            let wk = c.wakers[id][0].clone();
            drop(c);
            wk.wake(); // a fresh clone is consumed: net effect of wake_by_ref on the kept clone
            "ok".into()
        }
        "wdrop" => {
            let id = idarg(1);
            let mut c = w.sh.borrow_mut();
            if id >= c.wakers.len() || c.wakers[id].is_empty() {
                return "invalid".into();
            }
            let wk = c.wakers[id].pop();
            drop(c);
            drop(wk);
            "ok".into()
        }
        "xdrop" => {
            if w.exe.is_none() {
                return "invalid".into();
            }
            {
                let mut c = w.sh.borrow_mut();
                for i in 0..c.cancelled.len() {
                    if !c.completed[i] {
                        c.cancelled[i] = true;
                    }
                }
            }
            drop(w.exe.take());
            "ok".into()
        }
        "stat" => {
            let id = idarg(1);
            let c = w.sh.borrow();
            if id >= c.polls.len() {
                return "invalid".into();
            }
            // which join waker does the task still hold a clone of?
            let mut held: Vec<usize> = w.jw.iter().filter(|(_, a)| Arc::strong_count(a) > 1).map(|(k, _)| *k).collect();
            held.sort();
            let _ = held;
            format!(
                "polls={} futDrops={} delivered={}",
                c.polls[id], c.fut_drops[id], c.res_taken[id] + c.res_drops[id]
            )
        }
        "woken" => {
            let l = w.wake_log.lock().unwrap();
            let s: Vec<String> = l.iter().map(|i| i.to_string()).collect();
            format!("woken {}", if s.is_empty() { "-".into() } else { s.join(",") })
        }
        _ => panic!("bad op {line}"),
    }
}

thread_local! {
    static POLL_LOG: RefCell<Vec<usize>> = const { RefCell::new(vec![]) };
}

fn run_case(case: &Case) -> Exec {
    let mut ex = Exec::new();
    let mut world: Option<World> = None;
    for line in &case.lines {
        let t: Vec<&str> = line.split_whitespace().collect();
        if t[0] == "new" {
            // finalise a previous world first
            world = Some(World::new(t[1].parse().unwrap()));
            ex.out.push("ok".into());
            continue;
        }
        let w = world.as_mut().expect("case must start with `new`");
        let o = match catch(|| exec_line(w, line, &mut ex)) {
            Ok(o) => o,
            Err(m) => {
                ex.fail("C04:panic", format!("{line}: {m}"));
                "panic".into()
            }
        };
        ex.tag(format!("op:{}:{}", t[0], o.split(' ').next().unwrap()));
        ex.out.push(o);
    }
    // finalisation + implementation-only monitors
    if let Some(mut w) = world {
        // delivery: a handle parked with waker k whose task has completed must have been woken
        {
            let c = w.sh.borrow();
            let log = w.wake_log.lock().unwrap();
            for (id, p) in w.parked.iter().enumerate() {
                if let Some(k) = p {
                    if c.completed[id] && !log.contains(k) {
                        ex.fail("C04:join-not-woken", format!("task {id} completed, handle parked with waker {k}, never woken"));
                    }
                }
            }
        }
        // release everything: handles, waker clones, executor
        for h in w.handles.iter_mut() {
            drop(h.take());
        }
        let wk: Vec<Vec<Waker>> = std::mem::take(&mut w.sh.borrow_mut().wakers);
        drop(wk);
        drop(w.exe.take());
        let c = w.sh.borrow();
        for id in 0..c.polls.len() {
            if c.fut_drops[id] != 1 {
                ex.fail("C04:future-drop-count", format!("task {id}: future dropped {} times", c.fut_drops[id]));
            }
            let delivered = c.res_taken[id] + c.res_drops[id];
            if c.completed[id] && delivered != 1 {
                ex.fail("C04:result-count", format!("task {id}: result taken {} + dropped {} != 1", c.res_taken[id], c.res_drops[id]));
            }
            if !c.completed[id] && delivered != 0 {
                ex.fail("C04:result-without-completion", format!("task {id}"));
            }
            if c.polled_after_end[id] != 0 {
                ex.fail("C04:polled-after-end", format!("task {id} polled {} times after completion/cancellation", c.polled_after_end[id]));
            }
        }
        drop(c);
        // every join waker clone given to the executor has been released
        for (k, a) in &w.jw {
            if Arc::strong_count(a) != 1 {
                ex.fail("C04:join-waker-leak", format!("waker {k} still has {} owners after everything was dropped", Arc::strong_count(a)));
            }
        }
    }
    ex.nontrivial = case.lines.len() >= 4;
    ex
}

fn gen_script(rng: &mut Rng) -> String {
    let n = rng.below(5);
    let mut s = String::new();
    for _ in 0..n {
        s.push(*rng.pick(&['p', 's', 's', 'c', 'p']));
    }
    match rng.below(6) {
        0 => {}
        1 => s.push('x'),
        _ => s.push('r'),
    }
    if s.is_empty() { "-".into() } else { s }
}

fn generate(tier: &str, rng: &mut Rng) -> Vec<Case> {
    let n = if tier == "thorough" { 30_000 } else { 2_500 };
    let mut cases = vec![];
    for i in 0..n {
        let mut lines = vec![format!("new {}", rng.pick(&[1u32, 2, 3, 61]))];
        let mut ntasks = 0usize;
        let len = rng.range(3, 16);
        for _ in 0..len {
            let id = if ntasks > 0 { rng.below(ntasks as u64) as usize } else { 0 };
            let op = rng.below(20);
            let l = match op {
                0..=3 => {
                    ntasks += 1;
                    format!("spawn {}", gen_script(rng))
                }
                4..=8 => "tick".to_string(),
                9..=11 if ntasks > 0 => format!("hpoll {id} {}", rng.below(3)),
                12 if ntasks > 0 => format!("hdrop {id}"),
                13 if ntasks > 0 => format!("hdetach {id}"),
                14 if ntasks > 0 => format!("hcancel {id}"),
                15..=16 if ntasks > 0 => format!("wake {id}"),
                17 if ntasks > 0 => format!("wdrop {id}"),
                18 if rng.chance(1, 4) => "xdrop".to_string(),
                _ if ntasks > 0 => format!("stat {id}"),
                _ => "tick".to_string(),
            };
            lines.push(l);
        }
        for id in 0..ntasks {
            lines.push(format!("stat {id}"));
        }
        lines.push("woken".into());
        cases.push(Case { name: format!("g{i}"), lines });
    }
    cases
}

fn main() {
    run_harness(
        generate,
        run_case,
        "cases: one executor (max_interval in {1,2,3,61}) and a random program of spawn(script)/tick/handle poll,drop,detach,cancel/waker wake,drop/executor drop, then stat of every task; distinct by text; non-trivial = at least 4 operations",
    );
}
