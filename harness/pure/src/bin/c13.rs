//! C13 correspondence harness: framers + `Framed` stream/sink + ancillary codecs
//! of the real compio-io, driven by text operations (see lean/Drivers/C13.lean).

use std::collections::VecDeque;

use compio_buf::{BufResult, IoBuf, IoBufExt, IoBufMut, SetLenExt, bytes::Bytes};
use compio_io::{
    AsyncRead, AsyncWrite,
    framed::{
        Framed,
        frame::{AnyDelimited, CharDelimited, Framer, LengthDelimited, NoopFramer},
    },
};
use futures_util::{SinkExt, StreamExt};
use hx_common::*;

#[path = "c13/cmsg.rs"]
mod cmsg;

/// Read-side codec of the harness: the identity on bytes, except that a payload starting with
/// 0xEE is REJECTED (a decodable frame whose content the codec refuses, like invalid JSON in a
/// well-formed frame). The stream must yield the error for that frame and carry on.
#[derive(Clone, Copy)]
struct RejectingCodec;

const REJECT: &str = "harness-codec-reject";

impl<B: IoBuf> compio_io::framed::codec::Decoder<Bytes, B> for RejectingCodec {
    type Error = std::io::Error;

    fn decode(&mut self, buf: &compio_buf::Slice<B>) -> Result<Bytes, Self::Error> {
        let b: &[u8] = buf.as_init();
        if b.first() == Some(&0xEE) {
            Err(std::io::Error::new(std::io::ErrorKind::InvalidData, REJECT))
        } else {
            Ok(Bytes::from(b.to_vec()))
        }
    }
}

/// Write-side codec of the `sink` operation: the identity on bytes, except that an item starting
/// with 0xEF is REFUSED after half of it has already been written into the buffer (like a serializer
/// failing on a late field). Nothing of a refused item may ever reach the writer.
impl<B: IoBufMut> compio_io::framed::codec::Encoder<Bytes, B> for RejectingCodec {
    type Error = std::io::Error;

    fn encode(&mut self, item: Bytes, buf: &mut B) -> Result<(), Self::Error> {
        use std::io::Write;
        use compio_buf::IoBufMutExt;
        let mut w = buf.as_writer();
        if item.first() == Some(&0xEF) {
            w.write_all(&item[..item.len().div_ceil(2)])?;
            return Err(std::io::Error::new(std::io::ErrorKind::InvalidData, REJECT));
        }
        w.write_all(&item)?;
        Ok(())
    }
}

#[derive(Clone, Debug)]
enum Frag {
    Data(Vec<u8>),
    Zero,
    Err,
}

struct ScriptReader {
    script: VecDeque<Frag>,
    /// number of bytes of a fragment that did not fit the offered capacity (delivered next)
    split: usize,
}

impl AsyncRead for ScriptReader {
    async fn read<B: IoBufMut>(&mut self, mut buf: B) -> BufResult<usize, B> {
        match self.script.pop_front() {
            None | Some(Frag::Zero) => BufResult(Ok(0), buf),
            Some(Frag::Err) => BufResult(Err(std::io::Error::other("scripted")), buf),
            Some(Frag::Data(d)) => {
                let dst = buf.as_uninit();
                let n = d.len().min(dst.len());
                for i in 0..n {
                    dst[i].write(d[i]);
                }
                if n < d.len() {
                    self.split += 1;
                    self.script.push_front(Frag::Data(d[n..].to_vec()));
                }
                unsafe { buf.advance_to(n) };
                BufResult(Ok(n), buf)
            }
        }
    }
}

/// writer accepting at most `max` bytes per call, recording everything
struct RecWriter {
    got: std::rc::Rc<std::cell::RefCell<Vec<u8>>>,
    max: usize,
}

impl AsyncWrite for RecWriter {
    async fn write<T: IoBuf>(&mut self, buf: T) -> BufResult<usize, T> {
        let s = buf.as_init();
        let n = s.len().min(self.max);
        self.got.borrow_mut().extend_from_slice(&s[..n]);
        BufResult(Ok(n), buf)
    }

    async fn flush(&mut self) -> std::io::Result<()> {
        Ok(())
    }

    async fn shutdown(&mut self) -> std::io::Result<()> {
        Ok(())
    }
}

#[derive(Clone, Debug)]
enum FramerSpec {
    Ld(usize, bool),
    Any(Vec<u8>),
    /// (code point, constructed through `Default::default()` instead of `new()`)
    Char(u32, bool),
    /// `LengthDelimited::default()`
    LdDefault,
    Noop,
}

fn parse_framer(s: &str) -> FramerSpec {
    let parts: Vec<&str> = s.split(':').collect();
    match parts[0] {
        "ld" => FramerSpec::Ld(parts[1].parse().unwrap(), parts[2] == "1"),
        "any" => FramerSpec::Any(unhex(parts[1])),
        "char" => FramerSpec::Char(parts[1].parse().unwrap(), false),
        "chard" => FramerSpec::Char(parts[1].parse().unwrap(), true),
        "ldd" => FramerSpec::LdDefault,
        "noop" => FramerSpec::Noop,
        _ => panic!("framer {s}"),
    }
}

/// run `f` with the real framer object described by `spec`
macro_rules! with_framer {
    ($spec:expr, $f:ident, $body:expr) => {
        match $spec {
            FramerSpec::Ld(lfl, be) => {
                #[allow(unused_mut)]
                let mut $f = LengthDelimited::new()
                    .set_length_field_len(*lfl)
                    .set_length_field_is_big_endian(*be);
                $body
            }
            FramerSpec::Any(d) => {
                let d: &'static [u8] = Box::leak(d.clone().into_boxed_slice());
                #[allow(unused_mut)]
                let mut $f = AnyDelimited::new(d);
                $body
            }
            FramerSpec::Char(10, false) => {
                #[allow(unused_mut)]
                let mut $f = CharDelimited::<'\n'>::new();
                $body
            }
            FramerSpec::Char(10, true) => {
                #[allow(unused_mut)]
                let mut $f = <CharDelimited<'\n'> as Default>::default();
                $body
            }
            FramerSpec::Char(0xE9, false) => {
                #[allow(unused_mut)]
                let mut $f = CharDelimited::<'é'>::new();
                $body
            }
            FramerSpec::Char(0xE9, true) => {
                #[allow(unused_mut)]
                let mut $f = <CharDelimited<'é'> as Default>::default();
                $body
            }
            FramerSpec::Char(0x211D, false) => {
                #[allow(unused_mut)]
                let mut $f = CharDelimited::<'ℝ'>::new();
                $body
            }
            FramerSpec::Char(0x211D, true) => {
                #[allow(unused_mut)]
                let mut $f = <CharDelimited<'ℝ'> as Default>::default();
                $body
            }
            FramerSpec::Char(0x1F600, false) => {
                #[allow(unused_mut)]
                let mut $f = CharDelimited::<'😀'>::new();
                $body
            }
            FramerSpec::Char(0x1F600, true) => {
                #[allow(unused_mut)]
                let mut $f = <CharDelimited<'😀'> as Default>::default();
                $body
            }
            FramerSpec::Char(c, _) => panic!("unsupported char {c}"),
            FramerSpec::LdDefault => {
                #[allow(unused_mut)]
                let mut $f = LengthDelimited::default();
                $body
            }
            FramerSpec::Noop => {
                #[allow(unused_mut)]
                let mut $f = NoopFramer::new();
                $body
            }
        }
    };
}

fn do_enclose(spec: &FramerSpec, payload: Vec<u8>) -> String {
    match catch(|| {
        with_framer!(spec, f, {
            let mut buf = payload;
            Framer::<Vec<u8>>::enclose(&mut f, &mut buf);
            buf
        })
    }) {
        Ok(b) => hex(&b),
        Err(_) => "panic".into(),
    }
}

/// generator helper: the real `enclose`, or the raw payload if the real code panics (the case then
/// still reaches `exec`, where the panic is reported through a monitor)
fn enclose_or_raw(spec: &FramerSpec, payload: Vec<u8>) -> Vec<u8> {
    let r = do_enclose(spec, payload.clone());
    if r == "panic" { payload } else { unhex(&r) }
}

fn do_extract(spec: &FramerSpec, buf: Vec<u8>) -> String {
    match catch(|| {
        with_framer!(spec, f, {
            let s = buf.slice(..);
            match Framer::<Vec<u8>>::extract(&mut f, &s) {
                Ok(None) => "none".to_string(),
                Ok(Some(fr)) => {
                    // Frame fields are private: recover them through the public API
                    let len = fr.len();
                    let probe: Vec<u8> = (0..s.len().max(1)).map(|i| i as u8).collect();
                    let _ = probe;
                    format!("frame {}", describe_frame(&fr, len))
                }
                Err(_) => "err".to_string(),
            }
        })
    }) {
        Ok(s) => s,
        Err(_) => "panic".into(),
    }
}

/// `Frame` only exposes `len()` and `slice()`; Debug prints the three fields.
fn describe_frame(fr: &compio_io::framed::frame::Frame, _len: usize) -> String {
    let d = format!("{fr:?}");
    let num = |key: &str| -> usize {
        let i = d.find(key).expect("field") + key.len();
        d[i..].trim_start_matches([':', ' ']).chars().take_while(|c| c.is_ascii_digit()).collect::<String>().parse().unwrap()
    };
    format!("{} {} {}", num("prefix"), num("payload"), num("suffix"))
}

fn run_stream(spec: &FramerSpec, frags: Vec<Frag>, budget: usize, ex: &mut Exec) -> String {
    let r = catch(|| {
        with_framer!(spec, f, {
            let reader = ScriptReader { script: frags.into(), split: 0 };
            let mut framed = Framed::new::<Bytes, Bytes>(RejectingCodec, f).with_reader(reader);
            let mut out = String::new();
            let mut polls = 0usize;
            futures_executor::block_on(async {
                loop {
                    if polls >= budget {
                        out.push_str("fuel");
                        break;
                    }
                    polls += 1;
                    match framed.next().await {
                        Some(Ok(item)) => {
                            out.push_str("item:");
                            out.push_str(&hex(&item));
                            out.push(' ');
                        }
                        Some(Err(e)) if e.get_ref().map(|m| m.to_string()) == Some(REJECT.to_string()) => {
                            // the codec refused this frame: the stream goes on with the next one
                            out.push_str("decerr ");
                        }
                        Some(Err(_)) => {
                            out.push_str("err");
                            break;
                        }
                        None => {
                            out.push_str("done");
                            break;
                        }
                    }
                }
            });
            out
        })
    });
    match r {
        Ok(s) => {
            if s.ends_with("fuel") {
                ex.fail("C13:endless-stream", format!("stream did not end within {budget} polls"));
            }
            s
        }
        Err(m) => {
            ex.fail("C13:stream-panic", m);
            "panic".into()
        }
    }
}

/// `codec` operation: the SHIPPED codecs (framed/codec/serde_json.rs, framed/codec/bytes.rs) under the
/// real `Framed::poll_next`. The probe only records the payload handed to the codec and the codec's
/// verdict, then returns what the real codec returned.
struct JsonProbe {
    inner: compio_io::framed::codec::serde_json::SerdeJsonCodec,
    seen: std::rc::Rc<std::cell::RefCell<Vec<(Vec<u8>, Option<serde_json::Value>)>>>,
}

impl<B: IoBuf> compio_io::framed::codec::Decoder<serde_json::Value, B> for JsonProbe {
    type Error = compio_io::framed::codec::serde_json::SerdeJsonCodecError;

    fn decode(&mut self, buf: &compio_buf::Slice<B>) -> Result<serde_json::Value, Self::Error> {
        let payload: Vec<u8> = buf.as_init().to_vec();
        self.seen.borrow_mut().push((payload, None));
        let r = compio_io::framed::codec::Decoder::<serde_json::Value, B>::decode(&mut self.inner, buf);
        if let Ok(v) = &r {
            self.seen.borrow_mut().last_mut().unwrap().1 = Some(v.clone());
        }
        r
    }
}

struct BytesProbe {
    inner: compio_io::framed::codec::bytes::BytesCodec,
    seen: std::rc::Rc<std::cell::RefCell<Vec<(Vec<u8>, Option<Vec<u8>>)>>>,
}

impl<B: IoBuf> compio_io::framed::codec::Decoder<Bytes, B> for BytesProbe {
    type Error = std::io::Error;

    fn decode(&mut self, buf: &compio_buf::Slice<B>) -> Result<Bytes, Self::Error> {
        let payload: Vec<u8> = buf.as_init().to_vec();
        self.seen.borrow_mut().push((payload, None));
        let r = compio_io::framed::codec::Decoder::<Bytes, B>::decode(&mut self.inner, buf);
        if let Ok(v) = &r {
            self.seen.borrow_mut().last_mut().unwrap().1 = Some(v.to_vec());
        }
        r
    }
}

/// output: `item:<payload hex>` for every frame handed to the codec (decoded or refused: the
/// stream goes on either way), `err` for an I/O / framing error, `done`.
fn run_codec_stream(codec: &str, spec: &FramerSpec, frags: Vec<Frag>, budget: usize, line: &str, ex: &mut Exec) -> String {
    let json_seen = std::rc::Rc::new(std::cell::RefCell::new(vec![]));
    let bytes_seen = std::rc::Rc::new(std::cell::RefCell::new(vec![]));
    let (js, bs) = (json_seen.clone(), bytes_seen.clone());
    let is_json = codec == "json";
    let r = catch(move || {
        with_framer!(spec, f, {
            let reader = ScriptReader { script: frags.into(), split: 0 };
            let mut out = String::new();
            let mut polls = 0usize;
            macro_rules! drive {
                ($framed:expr, $seen:expr, $is_decode_err:expr) => {{
                    let mut framed = $framed;
                    futures_executor::block_on(async {
                        loop {
                            if polls >= budget {
                                out.push_str("fuel");
                                break;
                            }
                            polls += 1;
                            let before = $seen.borrow().len();
                            let r = framed.next().await;
                            let handed = $seen.borrow().len() > before;
                            match r {
                                Some(Ok(_)) => {
                                    let p = $seen.borrow().last().map(|x| x.0.clone()).unwrap_or_default();
                                    out.push_str(&format!("item:{} ", hex(&p)));
                                }
                                Some(Err(e)) if handed && $is_decode_err(&e) => {
                                    let p = $seen.borrow().last().map(|x| x.0.clone()).unwrap_or_default();
                                    out.push_str(&format!("item:{} ", hex(&p)));
                                }
                                Some(Err(_)) => {
                                    out.push_str("err");
                                    break;
                                }
                                None => {
                                    out.push_str("done");
                                    break;
                                }
                            }
                        }
                    });
                }};
            }
            if is_json {
                let c = JsonProbe { inner: compio_io::framed::codec::serde_json::SerdeJsonCodec::new(), seen: js.clone() };
                drive!(
                    Framed::new::<serde_json::Value, serde_json::Value>(c, f).with_reader(reader),
                    js,
                    |e: &compio_io::framed::codec::serde_json::SerdeJsonCodecError| matches!(
                        e,
                        compio_io::framed::codec::serde_json::SerdeJsonCodecError::SerdeJsonError(_)
                    )
                );
            } else {
                let c = BytesProbe { inner: compio_io::framed::codec::bytes::BytesCodec::new(), seen: bs.clone() };
                drive!(Framed::new::<Bytes, Bytes>(c, f).with_reader(reader), bs, |_e: &std::io::Error| false);
            }
            out
        })
    });
    match r {
        Ok(s) => {
            if s.ends_with("fuel") {
                ex.fail("C13:endless-stream", format!("{line}: stream did not end within {budget} polls"));
            }
            // implementation-only oracle: the codec's verdict on every payload it was handed
            let mut okn = 0;
            let mut errn = 0;
            for (p, got) in json_seen.borrow().iter() {
                let want: Option<serde_json::Value> = serde_json::from_slice(p).ok();
                if *got != want {
                    ex.fail("C13:codec-verdict", format!("{line}: json payload {} decoded to {got:?}, serde_json says {want:?}", hex(p)));
                }
                if want.is_some() { okn += 1 } else { errn += 1 }
                if p.len() < 3 {
                    ex.tag("codec:json:tiny-payload");
                }
            }
            for (p, got) in bytes_seen.borrow().iter() {
                if got.as_deref() != Some(&p[..]) {
                    ex.fail("C13:codec-verdict", format!("{line}: bytes payload {} decoded to {got:?}", hex(p)));
                }
                okn += 1;
            }
            ex.tag(format!("codec:{codec}:ok={}:rejected={}", okn.min(3), errn.min(3)));
            s
        }
        Err(m) => {
            // no documented panic on this path: hostile bytes must give frames or errors
            ex.fail("C13:codec-panic", format!("{line}: {m}"));
            "panic".into()
        }
    }
}

fn frag_by_sizes(data: &[u8], sizes: &[usize]) -> Vec<Vec<u8>> {
    let mut out = vec![];
    let mut i = 0;
    for &s in sizes {
        if i >= data.len() {
            break;
        }
        let n = s.min(data.len() - i);
        out.push(data[i..i + n].to_vec());
        i += n;
    }
    // the rest in pieces of 16 bytes: `Framed` reserves 16 bytes before every read, so a
    // fragment of at most 16 bytes is always delivered by exactly one read call
    while i < data.len() {
        let n = 16.min(data.len() - i);
        out.push(data[i..i + n].to_vec());
        i += n;
    }
    out
}

/// inner-future delay: answers `Pending` `n` times, then `Ready`
struct PendN(usize);

impl std::future::Future for PendN {
    type Output = ();

    fn poll(mut self: std::pin::Pin<&mut Self>, cx: &mut std::task::Context<'_>) -> std::task::Poll<()> {
        if self.0 == 0 {
            std::task::Poll::Ready(())
        } else {
            self.0 -= 1;
            cx.waker().wake_by_ref();
            std::task::Poll::Pending
        }
    }
}

#[derive(Default)]
struct SinkLog {
    buffered: Vec<u8>,
    delivered: Vec<u8>,
    flushes: usize,
    shutdowns: usize,
}

/// buffering writer for the `sink` operation: `write` only stores, `flush`/`shutdown` deliver; every
/// operation first pends as often as the delay offered by the sink call that polls it first
struct DelayW {
    log: std::rc::Rc<std::cell::RefCell<SinkLog>>,
    delay: std::rc::Rc<std::cell::Cell<usize>>,
}

impl AsyncWrite for DelayW {
    async fn write<T: IoBuf>(&mut self, buf: T) -> BufResult<usize, T> {
        PendN(self.delay.get()).await;
        let n = buf.as_init().len();
        self.log.borrow_mut().buffered.extend_from_slice(buf.as_init());
        BufResult(Ok(n), buf)
    }

    async fn flush(&mut self) -> std::io::Result<()> {
        PendN(self.delay.get()).await;
        let mut l = self.log.borrow_mut();
        l.flushes += 1;
        let b = std::mem::take(&mut l.buffered);
        l.delivered.extend(b);
        Ok(())
    }

    async fn shutdown(&mut self) -> std::io::Result<()> {
        PendN(self.delay.get()).await;
        let mut l = self.log.borrow_mut();
        l.shutdowns += 1;
        let b = std::mem::take(&mut l.buffered);
        l.delivered.extend(b);
        Ok(())
    }
}

/// run a script of raw `Sink` calls (`r<d>` poll_ready, `s<hex>` start_send, `f<d>` poll_flush,
/// `c<d>` poll_close) against the real `Framed`; monitors: a `Ready` flush/close has delivered
/// everything accepted so far (and close has shut the writer down), bytes are never lost or reordered
fn run_sink(spec: &FramerSpec, script: &[String], line: &str, ex: &mut Exec) -> String {
    use futures_util::Sink;
    use std::{pin::Pin, task::{Context, Poll}};
    let log = std::rc::Rc::new(std::cell::RefCell::new(SinkLog::default()));
    let delay = std::rc::Rc::new(std::cell::Cell::new(0usize));
    let mut res = String::new();
    let mut sent: Vec<u8> = vec![];
    let mut fails: Vec<(&'static str, String)> = vec![];
    let r = catch(|| {
        with_framer!(spec, f, {
            let w = DelayW { log: log.clone(), delay: delay.clone() };
            let mut framed = Framed::new::<Bytes, Bytes>(RejectingCodec, f).with_writer(w);
            let waker = futures_util::task::noop_waker();
            let mut cx = Context::from_waker(&waker);
            for call in script {
                let (k, arg) = call.split_at(1);
                let before_shutdowns = log.borrow().shutdowns;
                let r = std::panic::catch_unwind(std::panic::AssertUnwindSafe(|| match k {
                    "s" | "e" => {
                        let p = unhex(arg);
                        Pin::new(&mut framed).start_send(Bytes::from(p)).map(|_| Poll::Ready(()))
                    }
                    _ => {
                        delay.set(arg.parse().unwrap());
                        let r = match k {
                            "r" => Pin::new(&mut framed).poll_ready(&mut cx),
                            "f" => Pin::new(&mut framed).poll_flush(&mut cx),
                            "c" => Pin::new(&mut framed).poll_close(&mut cx),
                            _ => panic!("bad sink call {call}"),
                        };
                        match r {
                            Poll::Ready(Ok(())) => Ok(Poll::Ready(())),
                            Poll::Ready(Err(e)) => Err(e),
                            Poll::Pending => Ok(Poll::Pending),
                        }
                    }
                }));
                match r {
                    Err(_) => {
                        res.push('X');
                        break;
                    }
                    Ok(Err(_)) => {
                        res.push('E');
                        if k != "e" {
                            fails.push(("C13:sink-error", format!("{line}: call #{} `{call}` failed although neither codec nor writer fail", res.len())));
                            break;
                        }
                    }
                    Ok(Ok(Poll::Pending)) => res.push('P'),
                    Ok(Ok(Poll::Ready(()))) => {
                        res.push('R');
                        if k == "s" {
                            sent.extend(enclose_or_raw(spec, unhex(arg)));
                        }
                        if k == "e" {
                            fails.push(("C13:sink-refused-item-accepted", format!("{line}: call #{} `{call}`: the codec refused the item but start_send answered Ok", res.len())));
                        }
                        let l = log.borrow();
                        if (k == "f" || k == "c") && (l.delivered != sent || !l.buffered.is_empty()) {
                            fails.push((
                                "C13:sink-ready-not-delivered",
                                format!("{line}: call #{} `{call}` answered Ready with delivered={} buffered={} of sent={} (flushes={} shutdowns={})",
                                    res.len(), hex(&l.delivered), hex(&l.buffered), hex(&sent), l.flushes, l.shutdowns),
                            ));
                        }
                        if k == "c" && l.shutdowns != before_shutdowns + 1 {
                            fails.push(("C13:sink-close-no-shutdown", format!("{line}: call #{} `{call}` answered Ready, writer shutdowns {} -> {}", res.len(), before_shutdowns, l.shutdowns)));
                        }
                    }
                }
            }
        })
    });
    if r.is_err() {
        fails.push(("C13:sink-panic", format!("{line}: panic outside a sink call")));
    }
    let l = log.borrow();
    let mut seen = l.delivered.clone();
    seen.extend_from_slice(&l.buffered);
    if !sent.starts_with(&seen) && !res.ends_with('X') {
        fails.push(("C13:sink-bytes", format!("{line}: writer saw {} which is not a prefix of the accepted frames {}", hex(&seen), hex(&sent))));
    }
    for (sig, d) in fails {
        ex.fail(sig, d);
    }
    ex.tag(format!("sink:{}:{}", res.chars().filter(|c| *c == 'P').count().min(3), if res.ends_with('X') { "panic" } else { "ok" }));
    format!("{res} | {} {} {} {}", hex(&l.delivered), hex(&l.buffered), l.flushes, l.shutdowns)
}

/// encode the frames through the real `Sink` into a recording writer taking `wmax` bytes per call
fn sink_encode(spec: &FramerSpec, frames: &[Vec<u8>], wmax: usize) -> Result<Vec<u8>, String> {
    catch(|| {
        with_framer!(spec, f, {
            let got = std::rc::Rc::new(std::cell::RefCell::new(vec![]));
            let w = RecWriter { got: got.clone(), max: wmax };
            let mut framed = Framed::new::<Bytes, Bytes>(RejectingCodec, f).with_writer(w);
            futures_executor::block_on(async {
                for fr in frames {
                    let r = framed.send(Bytes::from(fr.clone())).await;
                    // an item starting 0xEF is refused by the codec (after partial output): the
                    // send fails, the sink stays usable and nothing of the item is transmitted
                    assert_eq!(r.is_err(), fr.first() == Some(&0xEF), "send result");
                }
                framed.close().await.expect("close");
            });
            let v = got.borrow().clone();
            v
        })
    })
}

fn list_of(s: &str) -> Vec<String> {
    if s == "." { vec![] } else { s.split(',').map(|x| x.to_string()).collect() }
}

fn exec_line(line: &str, ex: &mut Exec) -> String {
    let w: Vec<&str> = line.split_whitespace().collect();
    match w[0] {
        "enclose" => {
            let spec = parse_framer(w[1]);
            ex.tag(format!("op:enclose:{}", w[1].split(':').next().unwrap()));
            let r = do_enclose(&spec, unhex(w[2]));
            if r == "panic" {
                ex.fail("C13:enclose-panic", line.to_string());
            }
            r
        }
        "extract" => {
            let spec = parse_framer(w[1]);
            let r = do_extract(&spec, unhex(w[2]));
            ex.tag(format!("extract:{}:{}", w[1].split(':').next().unwrap(), r.split(' ').next().unwrap()));
            if r == "panic" {
                ex.fail("C13:extract-panic", line.to_string());
            }
            r
        }
        "rt" => {
            // rt <framer> <frames> <sizes> <wmax>: encode through the Sink, cut, decode through the Stream
            let spec = parse_framer(w[1]);
            let frames: Vec<Vec<u8>> = list_of(w[2]).iter().map(|h| unhex(h)).collect();
            let sizes: Vec<usize> = list_of(w[3]).iter().map(|s| s.parse().unwrap()).collect();
            let wmax: usize = w[4].parse().unwrap();
            let wf = w[5] == "wf";
            let enc = match sink_encode(&spec, &frames, wmax) {
                Ok(e) => e,
                Err(m) => {
                    ex.fail("C13:sink-panic", m);
                    return "panic".into();
                }
            };
            let frags: Vec<Frag> = frag_by_sizes(&enc, &sizes).into_iter().map(Frag::Data).collect();
            ex.tag(format!("rt:{}:frames={}:frags={}", w[1].split(':').next().unwrap(), frames.len().min(5), frags.len().min(9)));
            let budget = enc.len() + 2;
            let out = run_stream(&spec, frags, budget, ex);
            // property monitor (implementation-only oracle): well-formed frames round-trip exactly
            if wf {
                let mut expect = String::new();
                for f in &frames {
                    if f.first() == Some(&0xEF) {
                        continue; // refused by the encoder: never transmitted
                    }
                    if f.first() == Some(&0xEE) {
                        expect.push_str("decerr ");
                    } else {
                        expect.push_str("item:");
                        expect.push_str(&hex(f));
                        expect.push(' ');
                    }
                }
                expect.push_str("done");
                if out != expect {
                    ex.fail("C13:roundtrip", format!("{line} => {out}, expected {expect}"));
                }
            }
            format!("{} | {}", hex(&enc), out)
        }
        "stream" => {
            let spec = parse_framer(w[1]);
            let frags: Vec<Frag> = list_of(w[2])
                .iter()
                .map(|f| match f.as_str() {
                    "E" => Frag::Err,
                    "Z" => Frag::Zero,
                    h => Frag::Data(unhex(h)),
                })
                .collect();
            let total: usize = frags.iter().map(|f| if let Frag::Data(d) = f { d.len() } else { 0 }).sum();
            let out = run_stream(&spec, frags, total + 2, ex);
            ex.tag(format!("stream:{}:{}", w[1].split(':').next().unwrap(), out.rsplit(' ').next().unwrap()));
            out
        }
        "codec" => {
            // codec <json|bytes> <framer> <frags>: hostile / tiny payloads through the shipped codecs
            let spec = parse_framer(w[2]);
            let frags: Vec<Frag> = list_of(w[3])
                .iter()
                .map(|f| match f.as_str() {
                    "E" => Frag::Err,
                    "Z" => Frag::Zero,
                    h => Frag::Data(unhex(h)),
                })
                .collect();
            let total: usize = frags.iter().map(|f| if let Frag::Data(d) = f { d.len() } else { 0 }).sum();
            run_codec_stream(w[1], &spec, frags, total + 2, line, ex)
        }
        "sink" => {
            let spec = parse_framer(w[1]);
            run_sink(&spec, &list_of(w[2]), line, ex)
        }
        "cmsg" => cmsg::exec(&w[1..], line, ex),
        _ => panic!("bad op {line}"),
    }
}

fn hexlist(v: &[Vec<u8>]) -> String {
    if v.is_empty() { ".".into() } else { v.iter().map(|b| hex(b)).collect::<Vec<_>>().join(",") }
}

fn numlist(v: &[usize]) -> String {
    if v.is_empty() { ".".into() } else { v.iter().map(|b| b.to_string()).collect::<Vec<_>>().join(",") }
}

fn gen_framer(rng: &mut Rng) -> (String, FramerSpec) {
    match rng.below(10) {
        0..=4 if rng.chance(1, 12) => ("ldd".into(), FramerSpec::LdDefault),
        0..=4 => {
            let lfl = rng.range(1, 8) as usize;
            let be = rng.chance(1, 2);
            (format!("ld:{}:{}", lfl, be as u8), FramerSpec::Ld(lfl, be))
        }
        5..=6 => {
            let n = rng.range(1, 3) as usize;
            let d = rng.bytes_from(n, b"ab\n");
            (format!("any:{}", hex(&d)), FramerSpec::Any(d))
        }
        7..=8 => {
            let c = *rng.pick(&[10u32, 0xE9, 0x211D, 0x1F600]);
            if rng.chance(1, 3) {
                (format!("chard:{c}"), FramerSpec::Char(c, true))
            } else {
                (format!("char:{c}"), FramerSpec::Char(c, false))
            }
        }
        _ => ("noop".into(), FramerSpec::Noop),
    }
}

fn delim_of(spec: &FramerSpec) -> Option<Vec<u8>> {
    match spec {
        FramerSpec::Any(d) => Some(d.clone()),
        FramerSpec::Char(c, _) => Some(char::from_u32(*c).unwrap().to_string().into_bytes()),
        _ => None,
    }
}

/// well-formedness exactly as stated in Props/C13: the frame survives the framer
fn wellformed(spec: &FramerSpec, p: &[u8]) -> bool {
    match spec {
        FramerSpec::Ld(lfl, _) => *lfl >= 8 || (p.len() as u128) < (1u128 << (8 * lfl)),
        FramerSpec::LdDefault => (p.len() as u128) < (1u128 << 32),
        FramerSpec::Any(_) | FramerSpec::Char(..) => {
            let d = delim_of(spec).unwrap();
            let mut s = p.to_vec();
            s.extend_from_slice(&d);
            s.windows(d.len()).position(|w| w == &d[..]) == Some(p.len())
        }
        FramerSpec::Noop => false,
    }
}

fn generate(tier: &str, rng: &mut Rng) -> Vec<Case> {
    let n = if tier == "thorough" { 40_000 } else { 3_000 };
    let mut cases = vec![];
    for i in 0..n {
        let mut lines = vec![];
        let (fs, spec) = gen_framer(rng);
        match rng.below(13) {
            0 => {
                let p = { let k = rng.below(40) as usize; rng.bytes(k) };
                lines.push(format!("enclose {fs} {}", hex(&p)));
            }
            9 => {
                // raw Sink calls over a buffering writer whose operations pend: mostly protocol-conforming
                // (poll_ready until Ready before start_send), sometimes arbitrary
                let mut calls: Vec<String> = vec![];
                let conforming = rng.chance(4, 5);
                let n = rng.range(1, 7);
                for _ in 0..n {
                    let d = *rng.pick(&[0usize, 0, 0, 1, 2, 3]);
                    match rng.below(6) {
                        0..=2 => {
                            if conforming {
                                for _ in 0..=d {
                                    calls.push(format!("r{d}"));
                                }
                            } else if rng.chance(1, 2) {
                                calls.push(format!("r{d}"));
                            }
                            let k = rng.below(6) as usize;
                            let mut p = rng.bytes_from(k, b"abcxyz\x00\x01");
                            if rng.chance(1, 5) {
                                // an item the codec refuses after partial output
                                p.insert(0, 0xEF);
                                calls.push(format!("e{}", hex(&p)));
                                if conforming {
                                    calls.push("r0".into());
                                    p[0] = b'q';
                                    calls.push(format!("s{}", hex(&p)));
                                }
                            } else {
                                calls.push(format!("s{}", hex(&p)));
                            }
                        }
                        3..=4 => {
                            let reps = if conforming { 2 * d + 2 } else { rng.range(1, 3) as usize };
                            for _ in 0..reps {
                                calls.push(format!("f{d}"));
                            }
                        }
                        _ => {
                            let reps = if conforming { 2 * d + 2 } else { rng.range(1, 3) as usize };
                            for _ in 0..reps {
                                calls.push(format!("c{d}"));
                            }
                        }
                    }
                }
                lines.push(format!("sink {fs} {}", calls.join(",")));
            }
            1..=2 => {
                // extract on hostile / near-valid bytes
                let mut b = if rng.chance(1, 2) {
                    let p = rng.bytes_from_upto(20, b"ab\n\xc3\xa9\x00\x01\xff");
                    enclose_or_raw(&spec, p)
                } else {
                    rng.bytes_from_upto(24, b"ab\n\x00\x00\x00\x01\x02\xff\xff")
                };
                if rng.chance(1, 3) && !b.is_empty() {
                    let k = rng.below(b.len() as u64) as usize;
                    b.truncate(k);
                }
                if rng.chance(1, 3) {
                    b.extend({ let k = rng.below(6) as usize; rng.bytes(k) });
                }
                if let FramerSpec::Ld(lfl, _) = &spec {
                    // attacker-chosen huge length fields (the overflow corner of finding F7a)
                    if rng.chance(1, 5) {
                        b = vec![0xff; *lfl];
                        if rng.chance(1, 2) && *lfl > 0 {
                            let i = rng.below(*lfl as u64) as usize;
                            b[i] = *rng.pick(&[0xf0u8, 0xfe, 0x7f, 0x00]);
                        }
                        b.extend({ let k = rng.below(4) as usize; rng.bytes(k) });
                    }
                }
                lines.push(format!("extract {fs} {}", hex(&b)));
            }
            3..=7 => {
                // round trip of a frame list under a fragmentation
                let nf = rng.below(6) as usize;
                let mut frames = vec![];
                for _ in 0..nf {
                    let len = match rng.below(8) {
                        0 => 0,
                        1 => rng.range(200, 300) as usize,
                        _ => rng.below(24) as usize,
                    };
                    let mut p = rng.bytes_from(len, b"abcxyz\n\xc3\xa9\xe2\x84\x9d\x00");
                    if rng.chance(1, 8) && !p.is_empty() {
                        p[0] = 0xEE; // a frame the codec will reject
                    } else if rng.chance(1, 10) && !p.is_empty() {
                        p[0] = 0xEF; // an item the encoder refuses after partial output
                    }
                    if matches!(spec, FramerSpec::Any(_) | FramerSpec::Char(..)) && !wellformed(&spec, &p) && rng.chance(9, 10) {
                        // mostly valid inputs: drop the delimiter bytes from the payload
                        let d = delim_of(&spec).unwrap();
                        p.retain(|b| !d.contains(b));
                    }
                    frames.push(p);
                }
                let wf = frames.iter().all(|p| wellformed(&spec, p));
                let total_guess: usize = frames.iter().map(|f| f.len() + 8).sum();
                let sizes: Vec<usize> = match rng.below(4) {
                    0 => vec![1; total_guess],
                    1 => vec![],
                    _ => {
                        let max = *rng.pick(&[1usize, 2, 3, 7, 16, 16]);
                        (0..total_guess).map(|_| rng.range(1, max as u64) as usize).collect()
                    }
                };
                let wmax = *rng.pick(&[1usize, 3, 1 << 20]);
                lines.push(format!(
                    "rt {fs} {} {} {} {}",
                    hexlist(&frames),
                    numlist(&sizes),
                    wmax,
                    if wf { "wf" } else { "any" }
                ));
            }
            8 => {
                // hostile stream with transient errors and zero reads
                let nfr = rng.below(8) as usize;
                let mut frs = vec![];
                for _ in 0..nfr {
                    frs.push(match rng.below(10) {
                        0 => "E".to_string(),
                        1 => "Z".to_string(),
                        _ => {
                            let k = rng.range(1, 12) as usize;
                            hex(&rng.bytes_from(k, b"ab\n\x00\x00\x01\x02\x03\xff\xc3\xa9"))
                        }
                    });
                }
                lines.push(format!("stream {fs} {}", if frs.is_empty() { ".".into() } else { frs.join(",") }));
            }
            11..=12 => {
                // the shipped codecs on tiny / hostile / valid payloads, framed by the real framer,
                // delivered in random fragments with occasional I/O errors and zero reads
                let codec = if rng.chance(2, 3) { "json" } else { "bytes" };
                const DOCS: [&[u8]; 22] = [
                    b"", b"7", b"42", b"\"\"", b"[]", b"{}", b"x", b"\xef\xbb", b"\xef\xbb\xbf7", b"\xef\xbb\xbf", b"null",
                    b"true", b"{\"a\":1}", b"[1,2]", b"\"ab\"", b"-1.5", b" 1", b"1 ", b"{", b"\xee", b"0", b"[[]]",
                ];
                let nd = rng.range(1, 5) as usize;
                let mut wire = vec![];
                for _ in 0..nd {
                    let p = if rng.chance(1, 6) {
                        let k = rng.below(4) as usize;
                        rng.bytes(k)
                    } else {
                        rng.pick(&DOCS).to_vec()
                    };
                    wire.extend(enclose_or_raw(&spec, p));
                }
                let mut frs = vec![];
                let mut i = 0;
                let max = *rng.pick(&[1usize, 2, 3, 16, 64]);
                while i < wire.len() {
                    match rng.below(12) {
                        0 => frs.push("E".to_string()),
                        1 => frs.push("Z".to_string()),
                        _ => {
                            let k = (rng.range(1, max as u64) as usize).min(wire.len() - i);
                            frs.push(hex(&wire[i..i + k]));
                            i += k;
                        }
                    }
                }
                lines.push(format!("codec {codec} {fs} {}", if frs.is_empty() { ".".into() } else { frs.join(",") }));
            }
            _ => {
                lines.extend(cmsg::generate(rng));
            }
        }
        cases.push(Case { name: format!("g{i}"), lines });
    }
    if tier == "thorough" {
        // exhaustive fragmentations of short encodings
        let mut k = 0;
        for (fs, frames) in [
            ("ld:2:1", vec![b"ab".to_vec(), vec![], b"xyz".to_vec()]),
            ("ld:1:0", vec![b"abcd".to_vec(), b"e".to_vec()]),
            ("any:0a", vec![b"ab".to_vec(), vec![], b"xyz".to_vec()]),
            ("char:8477", vec![b"ab".to_vec(), b"q".to_vec()]),
            ("any:6162", vec![b"a".to_vec(), b"b".to_vec(), b"ba".to_vec()]),
        ] {
            let spec = parse_framer(fs);
            let enc: usize = frames
                .iter()
                .map(|p| enclose_or_raw(&spec, p.clone()).len())
                .sum();
            let wf = frames.iter().all(|p| wellformed(&spec, p));
            for comp in compositions(enc) {
                cases.push(Case {
                    name: format!("x{k}"),
                    lines: vec![format!(
                        "rt {fs} {} {} {} {}",
                        hexlist(&frames),
                        numlist(&comp),
                        1 << 20,
                        if wf { "wf" } else { "any" }
                    )],
                });
                k += 1;
            }
        }
    }
    cases
}

fn main() {
    run_harness(
        generate,
        |case| {
            let mut ex = Exec::new();
            for l in &case.lines {
                let o = exec_line(l, &mut ex);
                ex.out.push(o);
            }
            // non-trivial: at least one frame extracted, a round trip with >= 2 fragments, or an error/hostile outcome
            ex.nontrivial = ex.out.iter().any(|o| o.contains("item:") || o.starts_with("frame") || o.contains("err") || o.starts_with("cm "));
            ex
        },
        "cases: framer parameters x (enclose | extract on hostile/near-valid bytes | sink->fragmentation->stream round trip | hostile stream with errors/zero reads | cmsg build/iterate/hostile); distinct by case text; non-trivial = yields a frame/item, an error, or a control message",
    );
}
