//! control-message (cmsg) operations of the C13 harness: real `AncillaryBuf`/`AncillaryBuilder`/`AncillaryIter`.

use compio_io::ancillary::{AncillaryBuf, AncillaryData, AncillaryIter, CodecError};
use hx_common::*;

#[repr(C, align(8))]
struct Aligned([u8; 2048]);

const SIZES: [usize; 9] = [1, 2, 3, 4, 5, 8, 12, 16, 20];
const CAPS: [usize; 21] = [16, 17, 20, 23, 24, 25, 28, 31, 32, 36, 40, 44, 47, 48, 52, 60, 64, 68, 96, 100, 128];

#[derive(Clone)]
struct Msg {
    level: i32,
    ty: i32,
    data: Vec<u8>,
    /// the payload encoder of this message refuses (returns `CodecError::Other` before writing anything)
    refuse: bool,
}

/// a payload type with validation in `encode` (a user-defined `AncillaryData`): same size and
/// bytes as `[u8; N]`, but the encoder can refuse. A refused push must leave the builder unchanged.
struct Picky<const N: usize> {
    data: [u8; N],
    refuse: bool,
}

impl<const N: usize> AncillaryData for Picky<N> {
    const SIZE: usize = N;

    fn encode(&self, buffer: &mut [std::mem::MaybeUninit<u8>]) -> Result<(), CodecError> {
        if self.refuse {
            return Err(CodecError::other("harness-encoder-refused"));
        }
        if buffer.len() < N {
            return Err(CodecError::BufferTooSmall);
        }
        for (d, s) in buffer.iter_mut().zip(self.data) {
            *d = std::mem::MaybeUninit::new(s);
        }
        Ok(())
    }

    fn decode(buffer: &[u8]) -> Result<Self, CodecError> {
        let data: [u8; N] = buffer.get(..N).ok_or(CodecError::BufferTooSmall)?.try_into().unwrap();
        Ok(Picky { data, refuse: false })
    }
}

fn parse_msgs(s: &str) -> Vec<Msg> {
    if s == "." {
        return vec![];
    }
    s.split(',')
        .map(|m| {
            let p: Vec<&str> = m.split(':').collect();
            Msg { level: p[0].parse().unwrap(), ty: p[1].parse().unwrap(), data: unhex(p[2]), refuse: p.get(3) == Some(&"R") }
        })
        .collect()
}

macro_rules! with_size {
    ($n:expr, $N:ident, $body:expr) => {
        match $n {
            1 => { const $N: usize = 1; $body }
            2 => { const $N: usize = 2; $body }
            3 => { const $N: usize = 3; $body }
            4 => { const $N: usize = 4; $body }
            5 => { const $N: usize = 5; $body }
            8 => { const $N: usize = 8; $body }
            12 => { const $N: usize = 12; $body }
            16 => { const $N: usize = 16; $body }
            20 => { const $N: usize = 20; $body }
            n => panic!("unsupported data size {n}"),
        }
    };
}

macro_rules! with_cap {
    ($n:expr, $N:ident, $body:expr) => {
        match $n {
            16 => { const $N: usize = 16; $body }
            17 => { const $N: usize = 17; $body }
            20 => { const $N: usize = 20; $body }
            23 => { const $N: usize = 23; $body }
            24 => { const $N: usize = 24; $body }
            25 => { const $N: usize = 25; $body }
            28 => { const $N: usize = 28; $body }
            31 => { const $N: usize = 31; $body }
            32 => { const $N: usize = 32; $body }
            36 => { const $N: usize = 36; $body }
            40 => { const $N: usize = 40; $body }
            44 => { const $N: usize = 44; $body }
            47 => { const $N: usize = 47; $body }
            48 => { const $N: usize = 48; $body }
            52 => { const $N: usize = 52; $body }
            60 => { const $N: usize = 60; $body }
            64 => { const $N: usize = 64; $body }
            68 => { const $N: usize = 68; $body }
            96 => { const $N: usize = 96; $body }
            100 => { const $N: usize = 100; $body }
            128 => { const $N: usize = 128; $body }
            n => panic!("unsupported capacity {n}"),
        }
    };
}

fn decode_as(r: &compio_io::ancillary::AncillaryRef<'_>, n: usize) -> String {
    with_size!(n, N, {
        match r.data::<[u8; N]>() {
            Ok(a) => format!("ok:{}", hex(&a)),
            Err(CodecError::BufferTooSmall) => "small".to_string(),
            Err(_) => "other".to_string(),
        }
    })
}

/// iterate a buffer placed at the start of a larger, 8-aligned allocation (so that an
/// over-long read of a defective decoder stays inside the allocation and is observable, not UB)
fn iterate(buf: &[u8], decode: Option<usize>) -> String {
    let mut al = Box::new(Aligned([0u8; 2048]));
    al.0[..buf.len()].copy_from_slice(buf);
    // poison after the buffer so that an out-of-range read is visible in the output
    for b in &mut al.0[buf.len()..buf.len() + 64] {
        *b = 0xEE;
    }
    let slice = &al.0[..buf.len()];
    let mut out = vec![];
    let it = unsafe { AncillaryIter::new(slice) };
    for (i, r) in it.enumerate() {
        if i > 4096 {
            out.push("endless".to_string());
            break;
        }
        let mut s = format!("{}:{}:{}", r.level(), r.ty(), r.len());
        match decode {
            Some(n) => {
                s.push(':');
                s.push_str(&decode_as(&r, n));
            }
            None => {}
        }
        out.push(s);
    }
    if out.is_empty() { ".".into() } else { out.join(";") }
}

fn build(cap: usize, msgs: &[Msg]) -> (Vec<String>, Vec<u8>) {
    with_cap!(cap, C, {
        let mut buf = AncillaryBuf::<C>::new();
        let mut res = vec![];
        {
            let mut b = buf.builder();
            for m in msgs {
                let r = with_size!(m.data.len(), N, {
                    let arr: [u8; N] = m.data.clone().try_into().unwrap();
                    if m.refuse {
                        b.push(m.level, m.ty, &Picky::<N> { data: arr, refuse: true })
                    } else {
                        b.push(m.level, m.ty, &arr)
                    }
                });
                res.push(match r {
                    Ok(()) => "ok".to_string(),
                    Err(CodecError::BufferTooSmall) => "small".to_string(),
                    Err(_) if m.refuse => "refused".to_string(),
                    Err(_) => "other".to_string(),
                });
            }
        }
        (res, buf.to_vec())
    })
}

pub fn exec(w: &[&str], line: &str, ex: &mut Exec) -> String {
    match w[0] {
        "build" => {
            let cap: usize = w[1].parse().unwrap();
            let msgs = parse_msgs(w[2]);
            let r = catch(|| {
                let (res, bytes) = build(cap, &msgs);
                // iterate, decoding each message with its own data size
                let mut al = Box::new(Aligned([0u8; 2048]));
                al.0[..bytes.len()].copy_from_slice(&bytes);
                let mut items = vec![];
                if bytes.len() >= 16 {
                    let it = unsafe { AncillaryIter::new(&al.0[..bytes.len()]) };
                    for r in it {
                        let n = r.len().saturating_sub(16);
                        let d = if SIZES.contains(&n) { decode_as(&r, n) } else { "?".into() };
                        items.push(format!("{}:{}:{}:{}", r.level(), r.ty(), r.len(), d));
                    }
                }
                (res, bytes, items)
            });
            match r {
                Ok((res, bytes, items)) => {
                    // monitor: accepted messages come back, in order, unchanged
                    let expect: Vec<String> = msgs
                        .iter()
                        .zip(&res)
                        .filter(|(_, r)| *r == "ok")
                        .map(|(m, _)| format!("{}:{}:{}:ok:{}", m.level, m.ty, 16 + m.data.len(), hex(&m.data)))
                        .collect();
                    if items != expect {
                        ex.fail("C13:cmsg-roundtrip", format!("{line}: got {items:?} expected {expect:?}"));
                    }
                    // monitor: "any list of messages that fits the buffer": when the CMSG_SPACE of all
                    // messages whose encoder does not refuse fits the capacity, none is turned away
                    let need: usize = msgs.iter().filter(|m| !m.refuse).map(|m| m.data.len().div_ceil(8) * 8 + 16).sum();
                    if need <= cap && msgs.iter().zip(&res).any(|(m, r)| !m.refuse && r != "ok") {
                        ex.fail("C13:cmsg-fit-rejected", format!("{line}: {need} bytes needed, capacity {cap}, results {res:?}"));
                    }
                    // monitor: a push whose encoder refuses reports the error (never ok)
                    if msgs.iter().zip(&res).any(|(m, r)| m.refuse && r == "ok") {
                        ex.fail("C13:cmsg-refused-accepted", format!("{line}: results {res:?}"));
                    }
                    if res.iter().any(|r| r == "refused") {
                        ex.tag(format!("cmsg:build:refused:then-ok={}", {
                            let first = res.iter().position(|r| r == "refused").unwrap();
                            res[first..].iter().filter(|r| *r == "ok").count().min(2)
                        }));
                    }
                    ex.tag(format!("cmsg:build:ok={}:small={}", expect.len().min(4), res.iter().filter(|r| *r == "small").count().min(3)));
                    format!(
                        "cm {} | {} | {}",
                        if res.is_empty() { ".".into() } else { res.join(",") },
                        hex(&bytes),
                        if items.is_empty() { ".".into() } else { items.join(";") }
                    )
                }
                Err(m) => {
                    // documented panic: capacity below CMSG_SPACE(0) never happens for CAPS; anything else is a failure
                    ex.fail("C13:cmsg-build-panic", format!("{line}: {m}"));
                    "panic".into()
                }
            }
        }
        "iter" => {
            let buf = unhex(w[1]);
            match catch(|| iterate(&buf, None)) {
                Ok(s) => {
                    if s.contains("endless") {
                        ex.fail("C13:cmsg-endless", line.to_string());
                    }
                    ex.tag("cmsg:iter");
                    format!("cm {s}")
                }
                Err(_) => {
                    if buf.len() >= 16 {
                        ex.fail("C13:cmsg-iter-panic", line.to_string());
                    }
                    ex.tag("cmsg:iter:short-panic");
                    "panic".into()
                }
            }
        }
        "decode" => {
            // valid-layout buffer (built by the builder), every message decoded as [u8; n]
            let buf = unhex(w[1]);
            let n: usize = w[2].parse().unwrap();
            match catch(|| iterate(&buf, Some(n))) {
                Ok(s) => {
                    // monitor: a decode must not read outside the message it belongs to
                    for item in s.split(';') {
                        let p: Vec<&str> = item.split(':').collect();
                        if p.len() >= 5 && p[3] == "ok" {
                            let avail = p[2].parse::<usize>().unwrap().saturating_sub(16);
                            if avail < n {
                                ex.fail(
                                    "F7b:cmsg-decode-overread",
                                    format!("{line}: message with {avail} data bytes decoded as {n} bytes: {item}"),
                                );
                            }
                        }
                    }
                    ex.tag(format!("cmsg:decode:{}", if s.contains("small") { "small" } else { "ok" }));
                    format!("cm {s}")
                }
                Err(_) => {
                    if buf.len() >= 16 {
                        ex.fail("C13:cmsg-decode-panic", line.to_string());
                    }
                    "panic".into()
                }
            }
        }
        _ => panic!("bad cmsg op {line}"),
    }
}

pub fn generate(rng: &mut Rng) -> Vec<String> {
    let mut lines = vec![];
    let cap = *rng.pick(&CAPS);
    let nm = rng.below(5) as usize;
    let msgs: Vec<Msg> = (0..nm)
        .map(|_| Msg {
            level: *rng.pick(&[0i32, 1, 41, -1, i32::MAX, i32::MIN]),
            ty: *rng.pick(&[0i32, 1, 2, 8, 50, -7]),
            data: {
                let n = *rng.pick(&SIZES);
                rng.bytes(n)
            },
            refuse: false,
        })
        .collect();
    let mut msgs = msgs;
    let with_refusals = rng.chance(1, 3);
    if with_refusals {
        for m in msgs.iter_mut() {
            m.refuse = rng.chance(1, 3);
        }
    }
    let ms = if msgs.is_empty() {
        ".".to_string()
    } else {
        msgs.iter().map(|m| format!("{}:{}:{}{}", m.level, m.ty, hex(&m.data), if m.refuse { ":R" } else { "" })).collect::<Vec<_>>().join(",")
    };
    match rng.below(4) {
        0 | 1 => lines.push(format!("cmsg build {cap} {ms}")),
        2 => {
            // the generator uses the real builder to obtain valid layouts; if that panics the
            // case degrades to a plain `build` operation, which reports the panic through a monitor
            let Ok((_, bytes)) = catch(|| build(cap, &msgs)) else {
                lines.push(format!("cmsg build {cap} {ms}"));
                return lines;
            };
            let n = *rng.pick(&SIZES);
            lines.push(format!("cmsg decode {} {n}", hex(&bytes)));
        }
        _ => {
            // hostile bytes for the header traversal: valid buffer with mutated length fields, or noise
            let Ok((_, mut bytes)) = catch(|| build(cap, &msgs)) else {
                lines.push(format!("cmsg build {cap} {ms}"));
                return lines;
            };
            if bytes.is_empty() || rng.chance(1, 3) {
                bytes = vec![0u8; *rng.pick(&[0usize, 8, 15, 16, 17, 24, 40, 64])];
            }
            for _ in 0..rng.below(4) {
                if bytes.is_empty() {
                    break;
                }
                let i = rng.below(bytes.len() as u64) as usize;
                bytes[i] = *rng.pick(&[0u8, 1, 15, 16, 17, 24, 0xff]);
            }
            // keep every cmsg_len field below 2^56 so that CMSG_ALIGN cannot overflow (unsafe-contract corner)
            let mut k = 7;
            while k < bytes.len() {
                bytes[k] = 0;
                k += 8;
            }
            lines.push(format!("cmsg iter {}", hex(&bytes)));
        }
    }
    lines
}
