//! C10, pool buffers: the real `compio_driver::BufferRef` (compio-driver/src/buffer_pool.rs) taken from the
//! buffer pool of a real `Proactor` (polling driver), driven by text programs:
//!
//!   pool <full_cap> <hex: full_cap bytes stored in the allocation before the program>
//!   psetlen n | padvto n | padv n | pclear | psetcap c | pwithcap c | pfill <hex>
//!
//! Output per line: `i=<off>+<len> u=<off>+<len> m=<whole allocation>`; `pfill` beyond the writable region is
//! refused as `contract` (both sides), `set_len` beyond `u32::MAX` is the `debug_assert!` (`panic`).
//! Monitors (implementation only): `C10:pool-contract` — both regions start at the base of the allocation,
//! `as_init().len() <= as_uninit().len() <= full_cap`; `C10:pool-capacity` — `set_capacity(c)`,
//! `c != 0`, leaves a writable region of `min(c, full_cap)` bytes and never changes a byte;
//! `C10:pool-fill` — a recorded fill makes exactly the written bytes visible at offset 0 and touches nothing else.

use std::cell::RefCell;
use std::collections::HashMap;
use std::num::NonZeroU16;

use compio_buf::{IoBuf, IoBufMut, SetLen, SetLenExt};
use compio_driver::{BufferRef, Proactor, ProactorBuilder};
use hx_common::*;

thread_local! {
    static PROACTORS: RefCell<HashMap<usize, Proactor>> = RefCell::new(HashMap::new());
}

fn take_buffer(full_cap: usize) -> Option<BufferRef> {
    PROACTORS.with(|p| {
        let mut p = p.borrow_mut();
        if !p.contains_key(&full_cap) {
            let pr = ProactorBuilder::new()
                .buffer_pool_size(NonZeroU16::new(2).unwrap())
                .buffer_pool_buffer_len(full_cap)
                .build()
                .ok()?;
            p.insert(full_cap, pr);
        }
        let pool = p.get_mut(&full_cap)?.buffer_pool().ok()?;
        match pool.pop() {
            Ok(b) => Some(b),
            Err(_) => pool.take(0).ok().flatten().or_else(|| pool.take(1).ok().flatten()),
        }
    })
}

struct PoolM {
    buf: BufferRef,
    base: *const u8,
    full: usize,
}

impl PoolM {
    fn mem(&self) -> Vec<u8> {
        // the whole allocation was initialised when the case started
        unsafe { std::slice::from_raw_parts(self.base, self.full) }.to_vec()
    }

    /// (as_init offset, len), (as_uninit offset, len)
    fn ranges(&mut self) -> ((usize, usize), (usize, usize)) {
        let i = {
            let s = self.buf.as_init();
            ((s.as_ptr() as usize).wrapping_sub(self.base as usize), s.len())
        };
        let u = {
            let s = self.buf.as_uninit();
            ((s.as_ptr() as usize).wrapping_sub(self.base as usize), s.len())
        };
        (i, u)
    }

    fn state(&mut self, ex: &mut Exec, ctx: &str) -> String {
        let (i, u) = self.ranges();
        let mut bad = vec![];
        if i.0 != 0 || u.0 != 0 {
            bad.push(format!("regions do not start at the base of the allocation (as_init {}+{}, as_uninit {}+{})", i.0, i.1, u.0, u.1));
        }
        if i.1 > u.1 {
            bad.push(format!("initialised length {} exceeds the capacity {} (as_init is not a prefix of as_uninit)", i.1, u.1));
        }
        if u.1 > self.full {
            bad.push(format!("capacity {} exceeds the pool's buffer length {}", u.1, self.full));
        }
        if !bad.is_empty() {
            ex.fail("C10:pool-contract", format!("{ctx}: {}", bad.join("; ")));
        }
        format!("i={}+{} u={}+{} m={}", i.0, i.1, u.0, u.1, hex(&self.mem()))
    }
}

pub fn exec(case: &Case, ex: &mut Exec) {
    let mut m: Option<PoolM> = None;
    for l in &case.lines {
        let o = match catch(|| step(&mut m, l, ex)) {
            Ok(o) => o,
            Err(msg) => {
                ex.fail("C10:panic", format!("{l}: {msg}"));
                "harness-panic".into()
            }
        };
        if o == "panic" || o == "contract" {
            ex.nontrivial = true;
        }
        ex.out.push(o);
    }
}

fn step(m: &mut Option<PoolM>, line: &str, ex: &mut Exec) -> String {
    let w: Vec<&str> = line.split_whitespace().collect();
    if let ["pool", full, h] = w[..] {
        *m = None;
        let (Ok(full), mem) = (full.parse::<usize>(), unhex(h)) else { return "bad-op".into() };
        if full == 0 || full > 4096 || mem.len() != full {
            return "bad-op".into();
        }
        let Some(mut buf) = take_buffer(full) else { return "pool-unavailable".into() };
        let base = (&*buf as &[u8]).as_ptr();
        {
            let u = buf.as_uninit();
            if u.len() != full || u.as_ptr() as *const u8 != base {
                ex.fail("C10:pool-contract", format!("{line}: a fresh pool buffer reports a writable region of {} bytes, pool buffer length {full}", u.len()));
                return "pool-broken".into();
            }
            for (d, s) in u.iter_mut().zip(&mem) {
                d.write(*s);
            }
        }
        ex.tag(format!("pool:{}", if full <= 4 { "small" } else { "large" }));
        let mut pm = PoolM { buf, base, full };
        let s = pm.state(ex, line);
        *m = Some(pm);
        return s;
    }
    let Some(pm) = m.as_mut() else { return "dead".into() };
    match w[..] {
        ["psetlen", n] | ["padvto", n] | ["padv", n] => {
            let Ok(n) = n.parse::<usize>() else { return "bad-op".into() };
            let r = match w[0] {
                "psetlen" => catch(|| unsafe { pm.buf.set_len(n) }),
                "padvto" => catch(|| unsafe { pm.buf.advance_to(n) }),
                _ => catch(|| unsafe { pm.buf.advance(n) }),
            };
            if r.is_err() {
                ex.tag("pool-setlen-panic");
                return "panic".into();
            }
            ex.tag(w[0].to_string());
            pm.state(ex, line)
        }
        ["pclear"] => {
            pm.buf.clear();
            ex.tag("pclear");
            let s = pm.state(ex, line);
            if pm.buf.as_init().len() != 0 {
                ex.fail("C10:pool-contract", format!("{line}: clear() leaves {} initialised bytes", pm.buf.as_init().len()));
            }
            s
        }
        ["psetcap", c] | ["pwithcap", c] => {
            let Ok(c) = c.parse::<usize>() else { return "bad-op".into() };
            let before = pm.mem();
            let (bi, bu) = pm.ranges();
            if w[0] == "psetcap" {
                pm.buf.set_capacity(c);
            } else {
                // `with_capacity` consumes the buffer: swap a second pool buffer in and out is not possible, so move it
                // through `Option`
                let PoolM { buf, base, full } = m.take().unwrap();
                let buf = buf.with_capacity(c);
                *m = Some(PoolM { buf, base, full });
            }
            let pm = m.as_mut().unwrap();
            ex.tag(if c == 0 { "pool-cap-0" } else if c < bi.1 { "pool-cap-below-len" } else if c > pm.full { "pool-cap-above-full" } else { "pool-cap" });
            let (ai, au) = pm.ranges();
            let mut bad = vec![];
            if c != 0 && c <= u32::MAX as usize && au.1 != c.min(pm.full) {
                bad.push(format!("writable region is {} bytes, expected min({c}, {})", au.1, pm.full));
            }
            if c == 0 && (au.1 != bu.1 || ai.1 != bi.1) {
                bad.push(format!("capacity 0 is documented as a no-op, but cap {} -> {}, len {} -> {}", bu.1, au.1, bi.1, ai.1));
            }
            if ai.1 > bi.1 {
                bad.push(format!("initialised length grew {} -> {}", bi.1, ai.1));
            }
            if pm.mem() != before {
                bad.push("the allocation's content changed".to_string());
            }
            if !bad.is_empty() {
                ex.fail("C10:pool-capacity", format!("{line}: {}", bad.join("; ")));
            }
            pm.state(ex, line)
        }
        ["pfill", h] => {
            let data = unhex(h);
            let k = data.len();
            let before = pm.mem();
            let (bi, bu) = pm.ranges();
            if k > bu.1 || bu.1 > pm.full || bu.0 != 0 {
                ex.tag("pool-fill-contract");
                return "contract".into();
            }
            {
                let dst = pm.buf.as_uninit();
                for (i, b) in data.iter().enumerate() {
                    dst[i].write(*b);
                }
            }
            unsafe { pm.buf.advance_to(k) };
            ex.tag("pfill");
            ex.nontrivial = true;
            let mut expect = before.clone();
            expect[..k].copy_from_slice(&data);
            let mut bad = vec![];
            if pm.mem() != expect {
                bad.push(format!("allocation {} expected {}", hex(&pm.mem()), hex(&expect)));
            }
            let init = pm.buf.as_init().to_vec();
            if init.len() != bi.1.max(k) {
                bad.push(format!("initialised length {} expected max({}, {k})", init.len(), bi.1));
            } else if init[..] != expect[..init.len()] {
                bad.push(format!("as_init shows {} expected {}", hex(&init), hex(&expect[..init.len()])));
            }
            if !bad.is_empty() {
                ex.fail("C10:pool-fill", format!("{line}: {}", bad.join("; ")));
            }
            pm.state(ex, line)
        }
        _ => "bad-op".into(),
    }
}

pub fn generate(tier: &str, rng: &mut Rng, cases: &mut Vec<Case>) {
    let thorough = tier == "thorough";
    // exhaustive: full_cap 1..=3 (4 thorough), every pair (thorough: triple) of operations with small parameters
    let maxf = if thorough { 4 } else { 3 };
    for full in 1..=maxf {
        let mem: Vec<u8> = (0..full).map(|j| 0xa0 + j as u8).collect();
        let mut ops: Vec<String> = vec!["pclear".into()];
        for n in 0..=full + 1 {
            ops.push(format!("psetlen {n}"));
            ops.push(format!("padvto {n}"));
            ops.push(format!("padv {n}"));
            ops.push(format!("psetcap {n}"));
            ops.push(format!("pwithcap {n}"));
            let d: Vec<u8> = (0..n).map(|j| 0x30 + j as u8).collect();
            ops.push(format!("pfill {}", hex(&d)));
        }
        let head = format!("pool {full} {}", hex(&mem));
        let mut idx = 0;
        for a in &ops {
            for b in &ops {
                if thorough && full <= 2 {
                    for c in &ops {
                        cases.push(Case { name: format!("poolx-{full}-{idx}"), lines: vec![head.clone(), a.clone(), b.clone(), c.clone()] });
                        idx += 1;
                    }
                } else {
                    cases.push(Case { name: format!("poolx-{full}-{idx}"), lines: vec![head.clone(), a.clone(), b.clone()] });
                    idx += 1;
                }
            }
        }
    }
    // random programs
    let n = if thorough { 6_000 } else { 400 };
    for i in 0..n {
        let full = *rng.pick(&[1usize, 2, 3, 5, 8, 16, 64]);
        let mem: Vec<u8> = (0..full).map(|_| 0x80 + rng.below(0x40) as u8).collect();
        let mut lines = vec![format!("pool {full} {}", hex(&mem))];
        for _ in 0..rng.range(2, 10) {
            let hostile = rng.chance(1, 15);
            let n = if hostile { *rng.pick(&[u32::MAX as usize, u32::MAX as usize + 1, (1usize << 32) + 3, full + 1, 2 * full + 1]) } else { rng.range(0, full as u64 + 1) as usize };
            lines.push(match rng.below(10) {
                0 | 1 => format!("psetlen {n}"),
                2 => format!("padvto {n}"),
                3 => format!("padv {n}"),
                4 => "pclear".to_string(),
                5 | 6 => format!("psetcap {n}"),
                7 => format!("pwithcap {n}"),
                _ => {
                    let k = if hostile { full + 1 } else { rng.range(0, full as u64) as usize };
                    let d: Vec<u8> = (0..k).map(|_| 0x20 + rng.below(0x50) as u8).collect();
                    format!("pfill {}", hex(&d))
                }
            });
        }
        cases.push(Case { name: format!("pool-{i}"), lines });
    }
}
