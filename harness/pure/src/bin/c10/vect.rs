//! vectored programs (filled in below)
use hx_common::*;

pub fn generate(_tier: &str, _rng: &mut Rng, _cases: &mut Vec<Case>) {}

pub fn exec(case: &Case, ex: &mut Exec) {
    for _ in &case.lines {
        ex.out.push("bad-op".into());
    }
}
