//! Vectored programs of the C10 harness: the real `IoVectoredBuf` / `IoVectoredBufMut` / `SetLen` impls of
//! containers of buffers (Vec, arrays, ArrayVec, SmallVec, tuple chains), `VectoredSlice` (`slice`,
//! `slice_mut`, nested twice), `VectoredBufIter` (`owned_iter`) and `advance_vec_to`.
//! Members are `Box<dyn DynView>` (real roots, optionally under one real `Slice` / `Uninit` layer).

use std::ops::Bound;

use compio_buf::{
    IntoInner, IoBuf, IoBufExt, IoBufMut, IoBufMutExt, IoVectoredBuf, IoVectoredBufMut, SetLen, SetLenExt,
    VectoredBufIter, VectoredSlice, arrayvec::ArrayVec, smallvec::SmallVec,
};
use hx_common::*;

use super::{BV, DynView, RootInfo, mk_root};

// ---------------------------------------------------------------------------------------------
// type-erased vectored buffers
// ---------------------------------------------------------------------------------------------

type Items = Result<Vec<(usize, usize)>, ()>;

pub trait VecOps {
    fn items_s(&self) -> Items;
    fn items_u(&mut self) -> Items;
    fn total_len(&self) -> Result<usize, ()>;
    fn total_cap(&mut self) -> Result<usize, ()>;
    fn set_len(&mut self, n: usize) -> Result<(), ()>;
    fn advance_vec_to(&mut self, n: usize) -> Result<(), ()>;
    fn write(&mut self, data: &[u8]) -> Result<(), ()>;
    /// `None` = not supported at this nesting depth (the box is returned)
    fn slice(self: Box<Self>, b: usize, by_cap: bool) -> Result<Result<Box<dyn VecOps>, ()>, Box<dyn VecOps>>;
    fn peel(self: Box<Self>) -> Box<dyn VecOps>;
    fn owned_iter(self: Box<Self>) -> Result<Result<Box<dyn IterOps>, Box<dyn VecOps>>, ()>;
    fn depth(&self) -> usize;
    /// sum of the `begin()`s of the `VectoredSlice` layers
    fn begin_sum(&self) -> usize;
}

pub trait IterOps {
    fn init(&self) -> Result<(usize, usize), ()>;
    fn uninit(&mut self) -> Result<(usize, usize), ()>;
    fn set_len(&mut self, n: usize) -> Result<(), ()>;
    fn advance_to(&mut self, n: usize) -> Result<(), ()>;
    fn write(&mut self, data: &[u8]);
    fn next(self: Box<Self>) -> Result<Box<dyn IterOps>, Box<dyn VecOps>>;
    fn inner(self: Box<Self>) -> Box<dyn VecOps>;
}

struct L<V, const D: usize>(V);
struct I<V, const D: usize>(VectoredBufIter<V>);

fn g_items_s<V: IoVectoredBuf>(v: &V) -> Items {
    catch(|| v.iter_slice().map(|s| (s.as_ptr() as usize, s.len())).collect()).map_err(|_| ())
}

fn g_items_u<V: IoVectoredBufMut>(v: &mut V) -> Items {
    catch(|| v.iter_uninit_slice().map(|s| (s.as_ptr() as usize, s.len())).collect()).map_err(|_| ())
}

fn g_write<V: IoVectoredBufMut>(v: &mut V, data: &[u8]) -> Result<(), ()> {
    catch(|| {
        let mut rest = data;
        let mut it = v.iter_uninit_slice();
        while !rest.is_empty() {
            let Some(s) = it.next() else { break };
            let n = s.len().min(rest.len());
            for i in 0..n {
                s[i].write(rest[i]);
            }
            rest = &rest[n..];
        }
    })
    .map_err(|_| ())
}

macro_rules! vec_ops_common {
    () => {
        fn items_s(&self) -> Items {
            g_items_s(&self.0)
        }

        fn items_u(&mut self) -> Items {
            g_items_u(&mut self.0)
        }

        fn total_len(&self) -> Result<usize, ()> {
            catch(|| self.0.total_len()).map_err(|_| ())
        }

        fn total_cap(&mut self) -> Result<usize, ()> {
            catch(|| self.0.total_capacity()).map_err(|_| ())
        }

        fn set_len(&mut self, n: usize) -> Result<(), ()> {
            catch(|| unsafe { SetLen::set_len(&mut self.0, n) }).map_err(|_| ())
        }

        fn advance_vec_to(&mut self, n: usize) -> Result<(), ()> {
            catch(|| unsafe { self.0.advance_vec_to(n) }).map_err(|_| ())
        }

        fn write(&mut self, data: &[u8]) -> Result<(), ()> {
            g_write(&mut self.0, data)
        }
    };
}

macro_rules! iter_ops_common {
    () => {
        fn init(&self) -> Result<(usize, usize), ()> {
            catch(|| {
                let s = self.0.as_init();
                (s.as_ptr() as usize, s.len())
            })
            .map_err(|_| ())
        }

        fn uninit(&mut self) -> Result<(usize, usize), ()> {
            catch(|| {
                let s = self.0.as_uninit();
                (s.as_ptr() as usize, s.len())
            })
            .map_err(|_| ())
        }

        fn set_len(&mut self, n: usize) -> Result<(), ()> {
            catch(|| unsafe { SetLen::set_len(&mut self.0, n) }).map_err(|_| ())
        }

        fn advance_to(&mut self, n: usize) -> Result<(), ()> {
            catch(|| unsafe { self.0.advance_to(n) }).map_err(|_| ())
        }

        fn write(&mut self, data: &[u8]) {
            let s = self.0.as_uninit();
            for (i, b) in data.iter().enumerate() {
                s[i].write(*b);
            }
        }
    };
}

macro_rules! owned_iter_impl {
    ($d:literal) => {
        fn owned_iter(self: Box<Self>) -> Result<Result<Box<dyn IterOps>, Box<dyn VecOps>>, ()> {
            match catch(move || self.0.owned_iter()) {
                Ok(Ok(it)) => Ok(Ok(Box::new(I::<_, $d>(it)))),
                Ok(Err(v)) => Ok(Err(Box::new(L::<_, $d>(v)))),
                Err(_) => Err(()),
            }
        }
    };
}

macro_rules! iter_next_impl {
    ($d:literal) => {
        fn next(self: Box<Self>) -> Result<Box<dyn IterOps>, Box<dyn VecOps>> {
            match self.0.next() {
                Ok(it) => Ok(Box::new(I::<_, $d>(it))),
                Err(v) => Err(Box::new(L::<_, $d>(v))),
            }
        }

        fn inner(self: Box<Self>) -> Box<dyn VecOps> {
            Box::new(L::<_, $d>(self.0.into_inner()))
        }
    };
}

macro_rules! slice_impl {
    ($d:literal) => {
        fn slice(self: Box<Self>, b: usize, by_cap: bool) -> Result<Result<Box<dyn VecOps>, ()>, Box<dyn VecOps>> {
            let r = catch(move || if by_cap { self.0.slice_mut(b) } else { self.0.slice(b) });
            Ok(match r {
                Ok(s) => Ok(Box::new(L::<_, $d>(s)) as Box<dyn VecOps>),
                Err(_) => Err(()),
            })
        }
    };
}

impl<V: Nest2> VecOps for L<V, 0> {
    vec_ops_common!();

    slice_impl!(1);

    owned_iter_impl!(0);

    fn peel(self: Box<Self>) -> Box<dyn VecOps> {
        self
    }

    fn depth(&self) -> usize {
        0
    }

    fn begin_sum(&self) -> usize {
        0
    }
}

/// containers for which a second `VectoredSlice` layer is instantiated (keeps the build small)
pub trait Nest2: IoVectoredBufMut + Sized {
    fn nest(s: VectoredSlice<VectoredSlice<Self>>) -> Option<Box<dyn VecOps>> {
        let _ = s;
        None
    }
    const NEST: bool = false;
}

macro_rules! nest_yes {
    ($($t:ty),*) => {$(
        impl Nest2 for $t {
            fn nest(s: VectoredSlice<VectoredSlice<Self>>) -> Option<Box<dyn VecOps>> {
                Some(Box::new(L::<_, 2>(s)))
            }
            const NEST: bool = true;
        }
    )*};
}
macro_rules! nest_no {
    ($($t:ty),*) => {$( impl Nest2 for $t {} )*};
}
nest_yes!(Vec<BV>, (BV,), (BV, (BV,)), (BV, (BV, (BV,))));
nest_no!(SmallVec<[BV; 2]>, ArrayVec<BV, 4>, [BV; 0], [BV; 2], [BV; 3], (), (BV, ()), (BV, (BV, ())));

impl<W: Nest2> VecOps for L<VectoredSlice<W>, 1> {
    vec_ops_common!();

    fn slice(self: Box<Self>, b: usize, by_cap: bool) -> Result<Result<Box<dyn VecOps>, ()>, Box<dyn VecOps>> {
        if !W::NEST {
            return Err(self);
        }
        let r = catch(move || if by_cap { self.0.slice_mut(b) } else { self.0.slice(b) });
        Ok(match r {
            Ok(s) => Ok(W::nest(s).unwrap()),
            Err(_) => Err(()),
        })
    }

    owned_iter_impl!(1);

    fn peel(self: Box<Self>) -> Box<dyn VecOps> {
        Box::new(L::<_, 0>(self.0.into_inner()))
    }

    fn depth(&self) -> usize {
        1
    }

    fn begin_sum(&self) -> usize {
        self.0.begin()
    }
}

impl<W: Nest2> VecOps for L<VectoredSlice<VectoredSlice<W>>, 2> {
    vec_ops_common!();

    owned_iter_impl!(2);

    fn slice(self: Box<Self>, _b: usize, _by_cap: bool) -> Result<Result<Box<dyn VecOps>, ()>, Box<dyn VecOps>> {
        Err(self)
    }

    fn peel(self: Box<Self>) -> Box<dyn VecOps> {
        Box::new(L::<_, 1>(self.0.into_inner()))
    }

    fn depth(&self) -> usize {
        2
    }

    fn begin_sum(&self) -> usize {
        self.0.begin() + self.0.as_inner().begin()
    }
}

impl<V: Nest2> IterOps for I<V, 0> {
    iter_ops_common!();

    iter_next_impl!(0);
}

impl<W: Nest2> IterOps for I<VectoredSlice<W>, 1> {
    iter_ops_common!();

    iter_next_impl!(1);
}

impl<W: Nest2> IterOps for I<VectoredSlice<VectoredSlice<W>>, 2> {
    iter_ops_common!();

    iter_next_impl!(2);
}

// ---------------------------------------------------------------------------------------------
// construction
// ---------------------------------------------------------------------------------------------

pub struct Member {
    obj: *mut dyn DynView,
    ri: RootInfo,
}

fn parse_member(s: &str) -> Option<Result<(BV, RootInfo), ()>> {
    let p: Vec<&str> = s.split(':').collect();
    if p.len() != 3 && p.len() != 4 {
        return None;
    }
    let len = p[1].parse::<usize>().ok()?;
    let mem = unhex(p[2]);
    let mut root = mk_root(p[0], len, &mem)?;
    let ri = RootInfo::of(&mut root, mem.len());
    if p.len() == 3 {
        return Some(Ok((root, ri)));
    }
    let view = p[3];
    if view == "u" {
        return Some(catch(move || Box::new(root.uninit()) as BV).map(|v| (v, ri)).map_err(|_| ()));
    }
    let rest = view.strip_prefix('s')?;
    let (b, e) = rest.split_once('.')?;
    let b = b.parse::<usize>().ok()?;
    let e = if e == "-" { None } else { Some(e.parse::<usize>().ok()?) };
    let range = (Bound::Included(b), e.map(Bound::Excluded).unwrap_or(Bound::Unbounded));
    Some(catch(move || Box::new(root.slice(range)) as BV).map(|v| (v, ri)).map_err(|_| ()))
}

fn build(kind: &str, ms: Vec<BV>) -> Option<Box<dyn VecOps>> {
    let n = ms.len();
    let mut it = ms.into_iter();
    let mut nx = move || it.next().unwrap();
    Some(match (kind, n) {
        ("vec", 0..=4) => Box::new(L::<_, 0>((0..n).map(|_| nx()).collect::<Vec<BV>>())),
        ("smallvec", 0..=4) => Box::new(L::<_, 0>((0..n).map(|_| nx()).collect::<SmallVec<[BV; 2]>>())),
        ("arrayvec", 0..=4) => Box::new(L::<_, 0>((0..n).map(|_| nx()).collect::<ArrayVec<BV, 4>>())),
        ("arr", 0) => Box::new(L::<_, 0>([] as [BV; 0])),
        ("arr", 2) => Box::new(L::<_, 0>([nx(), nx()])),
        ("arr", 3) => Box::new(L::<_, 0>([nx(), nx(), nx()])),
        ("tuple1", 1) => Box::new(L::<_, 0>((nx(),))),
        ("tuple1", 2) => Box::new(L::<_, 0>((nx(), (nx(),)))),
        ("tuple1", 3) => Box::new(L::<_, 0>((nx(), (nx(), (nx(),))))),
        ("tuple0", 0) => Box::new(L::<_, 0>(())),
        ("tuple0", 1) => Box::new(L::<_, 0>((nx(), ()))),
        ("tuple0", 2) => Box::new(L::<_, 0>((nx(), (nx(), ())))),
        _ => return None,
    })
}

// ---------------------------------------------------------------------------------------------
// the machine
// ---------------------------------------------------------------------------------------------

enum VSt {
    Dead,
    Vec(Box<dyn VecOps>),
    /// iterator, current member index, begin_sum of the sliced buffer it iterates, index of the first member it yields
    Iter(Box<dyn IterOps>, usize, usize, usize),
}

pub struct VMachine {
    st: VSt,
    members: Vec<Member>,
    /// at some point of the program the members were not packed (full*, partial?, empty*): the vectored
    /// calls, which mix initialised-byte positions with capacity positions, are then known to misrecord (V3)
    ever_unpacked: bool,
}

#[derive(Clone, Debug, PartialEq)]
struct RootsObs {
    lens: Vec<usize>,
    mems: Vec<Vec<u8>>,
}

#[derive(Clone, Debug)]
struct VObs {
    s: Result<Vec<(usize, usize, usize)>, ()>,
    u: Result<Vec<(usize, usize, usize)>, ()>,
    tl: Result<usize, ()>,
    tc: Result<usize, ()>,
    roots: RootsObs,
}

fn show_items(r: &Result<Vec<(usize, usize, usize)>, ()>) -> String {
    match r {
        Err(()) => "panic".into(),
        Ok(v) if v.is_empty() => "-".into(),
        Ok(v) => v.iter().map(|(j, o, l)| format!("{j}:{o}+{l}")).collect::<Vec<_>>().join(","),
    }
}

fn show_nat(r: &Result<usize, ()>) -> String {
    match r {
        Ok(n) => n.to_string(),
        Err(()) => "panic".into(),
    }
}

impl VMachine {
    pub fn new() -> Self {
        VMachine { st: VSt::Dead, members: vec![], ever_unpacked: false }
    }

    fn roots(&self) -> RootsObs {
        RootsObs {
            lens: self.members.iter().map(|m| unsafe { (*m.obj).root_len() }).collect(),
            mems: self.members.iter().map(|m| m.ri.mem()).collect(),
        }
    }

    fn show_roots(&self) -> String {
        let r = self.roots();
        if r.lens.is_empty() {
            return "-".into();
        }
        r.lens.iter().zip(&r.mems).map(|(l, m)| format!("{l}:{}", hex(m))).collect::<Vec<_>>().join("|")
    }

    /// per member of the base container: (initialised length, capacity) of the member *view*
    fn base_shape(&self) -> Vec<Option<(usize, usize)>> {
        self.members
            .iter()
            .map(|m| {
                let li = catch(|| unsafe { (*m.obj).as_init().len() }).ok()?;
                let ci = catch(|| unsafe { (*m.obj).as_uninit().len() }).ok()?;
                Some((li, ci))
            })
            .collect()
    }

    /// some member is a view that ends before its root's initialised part does (e.g. `buf.slice(0..5)` of a
    /// longer buffer): a raw `set_len` on it truncates the root
    fn any_bounded_member(&self) -> bool {
        self.members.iter().any(|m| {
            catch(|| unsafe {
                let s = (*m.obj).as_init();
                m.ri.off(s.as_ptr()) + s.len() < (*m.obj).root_len()
            })
            .unwrap_or(false)
        })
    }

    fn pre(&self) -> Pre {
        let shape = self.base_shape();
        let reused = self.members.iter().any(|m| unsafe { (*m.obj).reused_uninit() });
        let eligible = !self.ever_unpacked
            && is_packed(&shape)
            && shape.iter().all(|s| s.is_some())
            && !reused
            && !self.any_bounded_member();
        Pre { shape, roots: self.roots(), eligible }
    }

    /// **Distribution oracle** (implementation only): after a total of `n_total` bytes (capacity space, counted
    /// from member 0 of the base container) has been recorded on packed fresh members and `n_total` is not below
    /// what was initialised before, member `i` must hold exactly `min(cap_i, n_total - sum of earlier caps)`
    /// bytes (so the total is `n_total`), and — when the bytes were written by the harness (`written` = member,
    /// root offset, length) — every byte that became visible must be one of the written ones.
    fn check_distribution(&self, ex: &mut Exec, ctx: &str, pre: &Pre, n_total: usize, written: Option<&[(usize, usize, usize)]>) {
        if !pre.eligible {
            return;
        }
        let shape: Vec<(usize, usize)> = pre.shape.iter().map(|s| s.unwrap()).collect();
        let (lens, caps): (usize, usize) = (shape.iter().map(|x| x.0).sum(), shape.iter().map(|x| x.1).sum());
        if n_total < lens || n_total > caps {
            return;
        }
        ex.tag("distribution-checked");
        let after = self.base_shape();
        let mut bad = vec![];
        let mut acc = 0usize;
        let mut want_all = vec![];
        for (i, (_, c)) in shape.iter().enumerate() {
            let want = (*c).min(n_total.saturating_sub(acc));
            acc += c;
            want_all.push(want);
            match after[i] {
                Some((li, _)) if li == want => {}
                other => bad.push(format!("member {i} (cap {c}) holds {:?} bytes, expected {want}", other.map(|x| x.0))),
            }
        }
        if let Some(written) = written {
            let roots = self.roots();
            for i in 0..shape.len() {
                for pos in pre.roots.lens[i]..roots.lens[i] {
                    if !written.iter().any(|(j, off, l)| *j == i && *off <= pos && pos < off + l) {
                        bad.push(format!("member {i}: never-written byte at root offset {pos} became visible"));
                        break;
                    }
                }
            }
        }
        if !bad.is_empty() {
            ex.fail(
                "C10:vectored-distribution",
                format!("{ctx}: recording a total of {n_total} over members (len, cap) {:?}, expected lens {:?}: {}", shape, want_all, bad.join("; ")),
            );
        }
    }

    /// total capacity of the base container (None if a member's as_uninit panics)
    fn base_cap(&self) -> Option<usize> {
        self.base_shape().iter().map(|s| s.map(|x| x.1)).sum()
    }

    /// attach member indices (the last `count` members are the ones yielded) and make offsets root-relative
    fn rel(&self, items: Items) -> Result<Vec<(usize, usize, usize)>, ()> {
        let items = items?;
        let n = self.members.len();
        if items.len() > n {
            return Err(());
        }
        let first = n - items.len();
        Ok(items.iter().enumerate().map(|(t, (p, l))| (first + t, self.members[first + t].ri.off(*p as *const u8), *l)).collect())
    }

    fn vobs(&mut self) -> VObs {
        let VSt::Vec(v) = &mut self.st else { unreachable!() };
        let (s, u, tl, tc) = (v.items_s(), v.items_u(), v.total_len(), v.total_cap());
        VObs { s: self.rel(s), u: self.rel(u), tl, tc, roots: self.roots() }
    }

    fn monitor_bounds(&self, ex: &mut Exec, o: &VObs, ctx: &str) {
        for (j, (l, m)) in o.roots.lens.iter().zip(&o.roots.mems).enumerate() {
            if *l > m.len() {
                ex.fail("C10:bounds", format!("{ctx}: member {j} root len {l} > cap {}", m.len()));
            }
        }
        if let Ok(s) = &o.s {
            for (j, off, l) in s {
                if off + l > o.roots.lens[*j] {
                    ex.fail("C10:bounds", format!("{ctx}: iter_slice item {j}:{off}+{l} outside initialised root 0..{}", o.roots.lens[*j]));
                }
            }
        }
        if let Ok(u) = &o.u {
            for (j, off, l) in u {
                if off + l > o.roots.mems[*j].len() {
                    ex.fail("C10:bounds", format!("{ctx}: iter_uninit_slice item {j}:{off}+{l} outside allocation 0..{}", o.roots.mems[*j].len()));
                }
            }
        }
    }

    fn vline(&mut self, ex: &mut Exec, ctx: &str) -> String {
        let o = self.vobs();
        self.monitor_bounds(ex, &o, ctx);
        format!("s={} u={} t={}/{} r={}", show_items(&o.s), show_items(&o.u), show_nat(&o.tl), show_nat(&o.tc), self.show_roots())
    }

    fn iobs(&mut self) -> (Result<(usize, usize, usize), ()>, Result<(usize, usize, usize), ()>) {
        let VSt::Iter(it, idx, ..) = &mut self.st else { unreachable!() };
        let idx = *idx;
        let i = it.init();
        let u = it.uninit();
        let ri = &self.members[idx].ri;
        (i.map(|(p, l)| (idx, ri.off(p as *const u8), l)), u.map(|(p, l)| (idx, ri.off(p as *const u8), l)))
    }

    fn iline(&mut self, ex: &mut Exec, ctx: &str) -> String {
        let (i, u) = self.iobs();
        let roots = self.roots();
        if let Ok((j, off, l)) = i {
            if off + l > roots.lens[j] {
                ex.fail("C10:bounds", format!("{ctx}: iterator as_init {j}:{off}+{l} outside initialised root 0..{}", roots.lens[j]));
            }
        }
        if let Ok((j, off, l)) = u {
            if off + l > roots.mems[j].len() {
                ex.fail("C10:bounds", format!("{ctx}: iterator as_uninit {j}:{off}+{l} outside allocation"));
            }
        }
        let sh = |r: Result<(usize, usize, usize), ()>| match r {
            Ok((j, o, l)) => format!("{j}:{o}+{l}"),
            Err(()) => "panic".into(),
        };
        format!("i={} u={} r={}", sh(i), sh(u), self.show_roots())
    }

    pub fn apply(&mut self, line: &str, ex: &mut Exec) -> String {
        let w: Vec<&str> = line.split_whitespace().collect();
        if w.len() == 3 && w[0] == "vroot" {
            self.st = VSt::Dead;
            self.members.clear();
            self.ever_unpacked = false;
            let parts: Vec<&str> = if w[2] == "-" { vec![] } else { w[2].split(';').collect() };
            let mut ms: Vec<BV> = vec![];
            let mut ris: Vec<RootInfo> = vec![];
            let mut panicked = false;
            for p in &parts {
                match parse_member(p) {
                    None => return "bad-op".into(),
                    Some(Ok((m, ri))) => {
                        ms.push(m);
                        ris.push(ri);
                    }
                    Some(Err(())) => panicked = true,
                }
            }
            let ok_kind = match w[1] {
                "vec" | "smallvec" | "arrayvec" => parts.len() <= 4,
                "arr" => matches!(parts.len(), 0 | 2 | 3),
                "tuple1" => (1..=3).contains(&parts.len()),
                "tuple0" => parts.len() <= 2,
                _ => false,
            };
            if !ok_kind {
                return "bad-op".into();
            }
            if panicked {
                return "panic".into();
            }
            for (m, ri) in ms.iter_mut().zip(ris) {
                let obj: *mut dyn DynView = &mut **m;
                ri.monitor(ex, line);
                self.members.push(Member { obj, ri });
            }
            ex.tag(format!("vroot:{}", w[1]));
            ex.tag(format!("members:{}", ms.len()));
            let Some(v) = build(w[1], ms) else { return "bad-op".into() };
            self.st = VSt::Vec(v);
            return self.vline(ex, line);
        }
        if !matches!(self.st, VSt::Dead) && !is_packed(&self.base_shape()) {
            if !self.ever_unpacked {
                ex.tag("unpacked-members");
            }
            self.ever_unpacked = true;
        }
        match &self.st {
            VSt::Dead => "dead".into(),
            VSt::Vec(_) => self.apply_vec(&w, line, ex),
            VSt::Iter(..) => self.apply_iter(&w, line, ex),
        }
    }

    fn apply_vec(&mut self, w: &[&str], line: &str, ex: &mut Exec) -> String {
        match w {
            ["vfill", h] => {
                let data = unhex(h);
                let k = data.len();
                let before = self.vobs();
                let shape = self.base_shape();
                let reused = self.members.iter().any(|m| unsafe { (*m.obj).reused_uninit() });
                let bounded_before = self.any_bounded_member();
                let pre = self.pre();
                let VSt::Vec(v) = &mut self.st else { unreachable!() };
                let bsum = v.begin_sum();
                let Ok(tc) = before.tc else {
                    self.st = VSt::Dead;
                    return "panic".into();
                };
                if k > tc {
                    ex.tag("vfill-contract");
                    return "contract".into();
                }
                // a VectoredSlice whose begin lies beyond the end turns an in-contract set_len into one beyond
                // the capacity (UB for Vec / SmallVec members of a `(T,)` tuple): never issued
                if shape.iter().map(|s| s.map(|x| x.1)).sum::<Option<usize>>().map(|bc| v.begin_sum() + k > bc).unwrap_or(true) {
                    ex.tag("oob-begin");
                    return "oob".into();
                }
                if v.write(&data).is_err() || v.advance_vec_to(k).is_err() {
                    self.st = VSt::Dead;
                    ex.tag("vfill-panic");
                    return "panic".into();
                }
                ex.tag(if k == 0 { "vfill-0" } else { "vfill" });
                // ---- vectored fill law (implementation-only oracle) ----
                let after = self.roots();
                let mut bad = vec![];
                if let Ok(u) = &before.u {
                    let mut expect = before.roots.mems.clone();
                    let mut rest = &data[..];
                    for (j, off, l) in u {
                        if rest.is_empty() {
                            break;
                        }
                        let n = (*l).min(rest.len());
                        expect[*j][*off..*off + n].copy_from_slice(&rest[..n]);
                        if after.lens[*j] < off + n {
                            bad.push(format!("{n} bytes written to member {j} at {off}..{} but its root len is {}", off + n, after.lens[*j]));
                        }
                        rest = &rest[n..];
                    }
                    if expect != after.mems {
                        bad.push("root memories differ from the expected splice".to_string());
                    }
                }
                for (j, (a, b)) in after.lens.iter().zip(&before.roots.lens).enumerate() {
                    if a < b {
                        bad.push(format!("member {j} root len shrank {b} -> {a}"));
                    }
                }
                if !bad.is_empty() {
                    let packed = !self.ever_unpacked;
                    let bounded = bounded_before;
                    let sig = if reused {
                        "F6:uninit-second-fill"
                    } else if !packed {
                        "C10-V3:unpacked-members"
                    } else if bounded {
                        "C10-V2:bounded-member-truncated"
                    } else {
                        "C10:vfill-law"
                    };
                    ex.tag("vfill-law-broken");
                    ex.fail(sig, format!("{line} on s={} u={} shape={:?}: {}", show_items(&before.s), show_items(&before.u), shape, bad.join("; ")));
                }
                // recorded (advance_vec_to calls set_len) iff k exceeds the view's total_len
                if let (Ok(tl), Ok(u)) = (&before.tl, &before.u) {
                    if k > *tl {
                        let mut written = vec![];
                        let mut rest = k;
                        for (j, off, l) in u {
                            if rest == 0 {
                                break;
                            }
                            let n = (*l).min(rest);
                            written.push((*j, *off, n));
                            rest -= n;
                        }
                        // bytes between the initialised prefix and a slice that starts beyond it are the
                        // caller's business: only a view starting inside the prefix must expose nothing unwritten
                        let lens: usize = pre.shape.iter().map(|s| s.map(|x| x.0).unwrap_or(0)).sum();
                        let w = if bsum <= lens { Some(&written[..]) } else { None };
                        self.check_distribution(ex, line, &pre, bsum + k, w);
                    }
                }
                self.vline(ex, line)
            }
            ["vsetlen", n] | ["vadvto", n] => {
                let Ok(n) = n.parse::<usize>() else { return "bad-op".into() };
                let base_cap = self.base_cap();
                let pre = self.pre();
                let VSt::Vec(v) = &mut self.st else { unreachable!() };
                let bsum = v.begin_sum();
                let tl_before = v.total_len();
                let Ok(tc) = v.total_cap() else {
                    self.st = VSt::Dead;
                    return "panic".into();
                };
                if n > tc {
                    return "contract".into();
                }
                if base_cap.map(|bc| v.begin_sum() + n > bc).unwrap_or(true) {
                    ex.tag("oob-begin");
                    return "oob".into();
                }
                let r = if w[0] == "vsetlen" { v.set_len(n) } else { v.advance_vec_to(n) };
                if r.is_err() {
                    self.st = VSt::Dead;
                    ex.tag("vsetlen-panic");
                    return "panic".into();
                }
                ex.tag(w[0].to_string());
                if w[0] == "vsetlen" || tl_before.map(|tl| n > tl).unwrap_or(false) {
                    self.check_distribution(ex, line, &pre, bsum + n, None);
                }
                self.vline(ex, line)
            }
            ["vslice", b] | ["vslicemut", b] => {
                let Ok(b) = b.parse::<usize>() else { return "bad-op".into() };
                let VSt::Vec(v) = std::mem::replace(&mut self.st, VSt::Dead) else { unreachable!() };
                match v.slice(b, w[0] == "vslicemut") {
                    Err(v) => {
                        self.st = VSt::Vec(v);
                        "bad-op".into()
                    }
                    Ok(Err(())) => "panic".into(),
                    Ok(Ok(s)) => {
                        ex.tag(w[0].to_string());
                        self.st = VSt::Vec(s);
                        self.vline(ex, line)
                    }
                }
            }
            ["vpeel"] => {
                let VSt::Vec(v) = std::mem::replace(&mut self.st, VSt::Dead) else { unreachable!() };
                self.st = VSt::Vec(v.peel());
                self.vline(ex, line)
            }
            ["viter"] => {
                let VSt::Vec(v) = std::mem::replace(&mut self.st, VSt::Dead) else { unreachable!() };
                let n = self.members.len();
                let count = v.items_s().map(|i| i.len()).unwrap_or(0);
                let bsum = v.begin_sum();
                match v.owned_iter() {
                    Err(()) => "panic".into(),
                    Ok(Err(v)) => {
                        self.st = VSt::Vec(v);
                        format!("empty {}", self.vline(ex, line))
                    }
                    Ok(Ok(it)) => {
                        ex.tag("viter");
                        self.st = VSt::Iter(it, n - count, bsum, n - count);
                        self.iline(ex, line)
                    }
                }
            }
            ["end"] => {
                let r = format!("roots {}", self.show_roots());
                self.st = VSt::Dead;
                r
            }
            _ => "bad-op".into(),
        }
    }

    fn apply_iter(&mut self, w: &[&str], line: &str, ex: &mut Exec) -> String {
        match w {
            ["ifill", h] => {
                let data = unhex(h);
                let k = data.len();
                let (bi, bu) = self.iobs();
                let before = self.roots();
                let shape = self.base_shape();
                let ever_unpacked = self.ever_unpacked;
                let reused = self.members.iter().any(|m| unsafe { (*m.obj).reused_uninit() });
                let bounded_before = self.any_bounded_member();
                let base_cap = self.base_cap();
                let pre = self.pre();
                let VSt::Iter(it, idx, bsum, first) = &mut self.st else { unreachable!() };
                let idx = *idx;
                let bsum_v = *bsum;
                // current capacities of the members the iterator has passed
                let earlier: usize = shape[*first..idx].iter().map(|s| s.map(|x| x.1).unwrap_or(0)).sum();
                let Ok((j, off, c)) = bu else {
                    self.st = VSt::Dead;
                    return "panic".into();
                };
                if k > c {
                    return "contract".into();
                }
                if base_cap.map(|bc| *bsum + earlier + k > bc).unwrap_or(true) {
                    return "oob".into();
                }
                if bi.is_err() {
                    self.st = VSt::Dead;
                    return "panic".into();
                }
                it.write(&data);
                if it.advance_to(k).is_err() {
                    self.st = VSt::Dead;
                    return "panic".into();
                }
                ex.tag(if k == 0 { "ifill-0" } else { "ifill" });
                // ---- iterator fill law: only member j changes, exactly the written bytes, and they are initialised ----
                let after = self.roots();
                let mut expect = before.clone();
                expect.mems[j][off..off + k].copy_from_slice(&data);
                let mut bad = vec![];
                if after.mems != expect.mems {
                    bad.push("root memories differ from the expected splice".to_string());
                }
                if k > 0 && after.lens[j] < off + k {
                    bad.push(format!("{k} bytes written to member {j} at {off}.. but its root len is {}", after.lens[j]));
                }
                for (m, (a, b)) in after.lens.iter().zip(&before.lens).enumerate() {
                    if a < b {
                        bad.push(format!("member {m} root len shrank {b} -> {a}"));
                    }
                    if m != j && a != b {
                        bad.push(format!("member {m} (not the current one) changed its len {b} -> {a}"));
                    }
                }
                if !bad.is_empty() {
                    // VectoredBufIter::set_len hands `total_filled + filled` to the container, which distributes it
                    // by capacity from member 0: wrong as soon as earlier members have capacity that was not
                    // recorded through this iterator, or the position is filled a second time
                    let earlier_cap: usize = shape[..idx].iter().map(|s| s.map(|x| x.1).unwrap_or(1)).sum();
                    let refilled = matches!((bi, bu), (Ok((_, oi, _)), Ok((_, ou, _))) if oi != ou);
                    let sig = if reused {
                        "F6:uninit-second-fill"
                    } else if bounded_before {
                        "C10-V2:bounded-member-truncated"
                    } else if earlier_cap > 0 || refilled {
                        "C10-V1:viter-accounting"
                    } else if ever_unpacked {
                        "C10-V3:unpacked-members"
                    } else {
                        "C10:viter-law"
                    };
                    ex.tag("ifill-law-broken");
                    ex.fail(sig, format!("{line} at member {idx}, shape={shape:?}: {}", bad.join("; ")));
                }
                // the iterator's own accounting is exact while no capacity lies before the current position and
                // the position has not been recorded before; recorded iff k exceeds the iterator's buf_len
                if let (Ok((_, oi, li)), Ok((_, ou, _))) = (bi, bu) {
                    let no_earlier_cap = shape[..idx].iter().all(|s| matches!(s, Some((_, 0))));
                    if no_earlier_cap && oi == ou && k > li {
                        let lens: usize = pre.shape.iter().map(|s| s.map(|x| x.0).unwrap_or(0)).sum();
                        let wr = [(j, off, k)];
                        self.check_distribution(ex, line, &pre, bsum_v + k, if bsum_v <= lens { Some(&wr[..]) } else { None });
                    }
                }
                self.iline(ex, line)
            }
            ["isetlen", n] | ["iadvto", n] => {
                let Ok(n) = n.parse::<usize>() else { return "bad-op".into() };
                let base_cap = self.base_cap();
                let shape = self.base_shape();
                let pre = self.pre();
                let (bi, bu) = self.iobs();
                let VSt::Iter(it, idx, bsum, first) = &mut self.st else { unreachable!() };
                let earlier: usize = shape[*first..*idx].iter().map(|s| s.map(|x| x.1).unwrap_or(0)).sum();
                let (idx_v, bsum_v) = (*idx, *bsum);
                let Ok((_, c)) = it.uninit() else {
                    self.st = VSt::Dead;
                    return "panic".into();
                };
                if n > c {
                    return "contract".into();
                }
                if base_cap.map(|bc| *bsum + earlier + n > bc).unwrap_or(true) {
                    return "oob".into();
                }
                let r = if w[0] == "isetlen" { it.set_len(n) } else { it.advance_to(n) };
                if r.is_err() {
                    self.st = VSt::Dead;
                    return "panic".into();
                }
                ex.tag(w[0].to_string());
                if let (Ok((_, oi, li)), Ok((_, ou, _))) = (bi, bu) {
                    let no_earlier_cap = shape[..idx_v].iter().all(|s| matches!(s, Some((_, 0))));
                    if no_earlier_cap && oi == ou && (w[0] == "isetlen" || n > li) {
                        self.check_distribution(ex, line, &pre, bsum_v + n, None);
                    }
                }
                self.iline(ex, line)
            }
            ["inext"] => {
                let VSt::Iter(it, idx, bsum, first) = std::mem::replace(&mut self.st, VSt::Dead) else { unreachable!() };
                match it.next() {
                    Ok(it) => {
                        ex.tag("inext");
                        self.st = VSt::Iter(it, idx + 1, bsum, first);
                        self.iline(ex, line)
                    }
                    Err(v) => {
                        ex.tag("iter-done");
                        self.st = VSt::Vec(v);
                        format!("done {}", self.vline(ex, line))
                    }
                }
            }
            ["iinner"] => {
                let VSt::Iter(it, ..) = std::mem::replace(&mut self.st, VSt::Dead) else { unreachable!() };
                self.st = VSt::Vec(it.inner());
                self.vline(ex, line)
            }
            _ => "bad-op".into(),
        }
    }

    pub fn alive(&self) -> bool {
        !matches!(self.st, VSt::Dead)
    }

    pub fn in_iter(&self) -> bool {
        matches!(self.st, VSt::Iter(..))
    }

    pub fn depth(&self) -> usize {
        match &self.st {
            VSt::Vec(v) => v.depth(),
            _ => 0,
        }
    }

    pub fn totals(&mut self) -> (usize, usize) {
        match &mut self.st {
            VSt::Vec(v) => (v.total_len().unwrap_or(0), v.total_cap().unwrap_or(0)),
            VSt::Iter(it, ..) => (it.init().map(|x| x.1).unwrap_or(0), it.uninit().map(|x| x.1).unwrap_or(0)),
            VSt::Dead => (0, 0),
        }
    }
}

/// what is known before a recording call, for the distribution oracle
struct Pre {
    shape: Vec<Option<(usize, usize)>>,
    roots: RootsObs,
    /// members packed (now and always before), fresh (no re-used Uninit), none end-bounded inside its root:
    /// the situation in which vectored recording is specified (and proved) to be exact
    eligible: bool,
}

/// packed: full members, then at most one partial member, then empty members
fn is_packed(shape: &[Option<(usize, usize)>]) -> bool {
    let mut seen_partial = false;
    for s in shape {
        let Some((li, ci)) = s else { return false };
        if seen_partial {
            if *li != 0 {
                return false;
            }
        } else if li < ci {
            seen_partial = true;
        }
    }
    true
}

// ---------------------------------------------------------------------------------------------
// exec / generate
// ---------------------------------------------------------------------------------------------

/// `VMachine::apply` that can never take the process down (see `safe_apply` in c10.rs)
pub fn safe_vapply(m: &mut VMachine, line: &str, ex: &mut Exec) -> String {
    match catch(|| m.apply(line, ex)) {
        Ok(o) => o,
        Err(msg) => {
            ex.fail("C10:panic", format!("{line}: panic outside the modelled panics: {msg}"));
            *m = VMachine::new();
            "harness-panic".into()
        }
    }
}

pub fn exec(case: &Case, ex: &mut Exec) {
    let mut m = VMachine::new();
    let mut recorded = false;
    let mut viewed = false;
    for l in &case.lines {
        let o = safe_vapply(&mut m, l, ex);
        if (l.starts_with("vfill ") || l.starts_with("ifill ")) && (o.starts_with("s=") || o.starts_with("i=")) {
            recorded = true;
        }
        if m.depth() > 0 || m.in_iter() {
            viewed = true;
        }
        if o == "panic" || o == "harness-panic" {
            ex.nontrivial = true;
        }
        ex.out.push(o);
    }
    if recorded || viewed {
        ex.nontrivial = true;
    }
}

const MKINDS: [&str; 9] = ["vec", "bytesmut", "arr", "boxed", "arrayvec", "smallvec", "sref", "refvec", "boxvec"];

fn gen_member(rng: &mut Rng, packed_role: Option<u8>) -> String {
    let kind = *rng.pick(&MKINDS);
    let cap = match kind {
        "smallvec" => rng.range(8, 10) as usize,
        _ => rng.range(0, 6) as usize,
    };
    let len = match (kind, packed_role) {
        ("arr" | "boxed" | "sref", _) => cap,
        (_, Some(0)) => cap,
        (_, Some(2)) => 0,
        _ => rng.range(0, cap as u64) as usize,
    };
    let base = rng.below(200) as u8;
    let mem: Vec<u8> = (0..cap).map(|i| base.wrapping_add(i as u8)).collect();
    let mut s = format!("{kind}:{len}:{}", hex(&mem));
    match rng.below(12) {
        0 => s.push_str(":u"),
        1 => {
            let b = rng.range(0, len as u64) as usize;
            s.push_str(&format!(":s{b}.-"));
        }
        2 => {
            let b = rng.range(0, len as u64) as usize;
            let e = rng.range(b as u64, cap as u64 + 1) as usize;
            s.push_str(&format!(":s{b}.{e}"));
        }
        _ => {}
    }
    s
}

fn fresh(rng: &mut Rng, k: usize) -> Vec<u8> {
    (0..k).map(|_| 0xE0 + rng.below(32) as u8).collect()
}

fn gen_vprogram(rng: &mut Rng) -> Vec<String> {
    let vk = *rng.pick(&["vec", "vec", "arr", "arrayvec", "smallvec", "tuple1", "tuple0"]);
    // three and more members with small unequal capacities are the interesting distributions
    let n = match vk {
        "tuple1" => *rng.pick(&[1u64, 2, 3, 3, 3]),
        "tuple0" => rng.range(0, 2),
        "arr" => *rng.pick(&[0u64, 2, 3, 3, 3]),
        _ => *rng.pick(&[0u64, 1, 2, 3, 3, 3, 4, 4, 4]),
    } as usize;
    // mostly packed shapes (full*, partial?, empty*), sometimes arbitrary
    let packed = rng.chance(3, 4);
    let split = rng.range(0, n as u64) as usize;
    let ms: Vec<String> = (0..n)
        .map(|i| {
            let role = if !packed { None } else if i < split { Some(0) } else if i == split { Some(1) } else { Some(2) };
            gen_member(rng, role)
        })
        .collect();
    let mut lines = vec![format!("vroot {vk} {}", if ms.is_empty() { "-".to_string() } else { ms.join(";") })];
    let mut m = VMachine::new();
    let mut scratch = Exec::new();
    safe_vapply(&mut m, &lines[0], &mut scratch);
    let n_ops = rng.range(1, 7);
    for _ in 0..n_ops {
        if !m.alive() {
            break;
        }
        let (tl, tc) = m.totals();
        let hostile = rng.chance(1, 15);
        let l = if m.in_iter() {
            match rng.below(10) {
                0..=4 => {
                    // mostly fill the member completely (the usage the iterator supports), sometimes partially
                    let k = if rng.chance(2, 3) { tc } else { rng.range(0, tc as u64) as usize } + hostile as usize;
                    format!("ifill {}", hex(&fresh(rng, k)))
                }
                5 => format!("isetlen {}", rng.range(0, tc as u64)),
                6 => format!("iadvto {}", rng.range(0, tc as u64)),
                7..=8 => "inext".to_string(),
                _ => "iinner".to_string(),
            }
        } else {
            match rng.below(20) {
                0..=7 => {
                    let k = if hostile { tc + 1 } else if rng.chance(1, 5) { tc } else { rng.range(0, tc as u64) as usize };
                    format!("vfill {}", hex(&fresh(rng, k)))
                }
                // mostly growing totals (what drivers record), sometimes shrinking ones
                8 | 9 => {
                    let lo = if rng.chance(2, 3) { tl.min(tc) } else { 0 };
                    let n = rng.range(lo as u64, tc as u64 + hostile as u64);
                    format!("{} {n}", if rng.chance(1, 2) { "vsetlen" } else { "vadvto" })
                }
                10..=12 if m.depth() < 2 => {
                    let hi = if rng.chance(4, 5) { tl } else { tc };
                    format!("vslicemut {}", rng.range(0, hi as u64 + hostile as u64))
                }
                13..=14 if m.depth() < 2 => format!("vslice {}", rng.range(0, tl as u64 + hostile as u64)),
                15 => "vpeel".to_string(),
                16..=18 => "viter".to_string(),
                _ => {
                    let k = rng.range(0, tc as u64) as usize;
                    format!("vfill {}", hex(&fresh(rng, k)))
                }
            }
        };
        if std::env::var_os("C10_VERBOSE").is_some() {
            eprintln!("GEN {:?} + {l}", lines);
        }
        safe_vapply(&mut m, &l, &mut scratch);
        lines.push(l);
    }
    if m.in_iter() {
        let l = "iinner".to_string();
        safe_vapply(&mut m, &l, &mut scratch);
        lines.push(l);
    }
    lines.push("end".into());
    lines
}

pub fn generate(tier: &str, rng: &mut Rng, cases: &mut Vec<Case>) {
    let n = if tier == "thorough" { 40_000 } else { 2_000 };
    for i in 0..n {
        cases.push(Case { name: format!("vprog-{i}"), lines: gen_vprogram(rng) });
    }
    // exhaustive: three small Vec members, every packed shape, every recorded total not below the initialised
    // length, through set_len / advance_vec_to / a vectored fill / slice_mut + fill, list and tuple containers
    let cmax = if tier == "thorough" { 3 } else { 2 };
    let mut id3 = 0;
    for vk in ["vec", "tuple1", "arrayvec"] {
        for caps in (0..(cmax + 1usize).pow(3)).map(|x| [x % (cmax + 1), x / (cmax + 1) % (cmax + 1), x / (cmax + 1) / (cmax + 1)]) {
            for p in 0..3 {
                for l in 0..=caps[p] {
                    if l == caps[p] && p < 2 {
                        continue; // the same shape as (p + 1, 0)
                    }
                    let lens: Vec<usize> = (0..3).map(|i| if i < p { caps[i] } else if i == p { l } else { 0 }).collect();
                    let total_cap: usize = caps.iter().sum();
                    let total_len: usize = lens.iter().sum();
                    let members: Vec<String> = (0..3)
                        .map(|i| format!("vec:{}:{}", lens[i], hex(&(0..caps[i]).map(|b| (0x10 * (i + 1) + b) as u8).collect::<Vec<u8>>())))
                        .collect();
                    let root = format!("vroot {vk} {}", members.join(";"));
                    for n in total_len..=total_cap {
                        let mut progs: Vec<Vec<String>> = vec![
                            vec![format!("vsetlen {n}")],
                            vec![format!("vadvto {n}")],
                            vec![format!("vfill {}", hex(&vec![0xEE; n]))],
                        ];
                        if n > total_len {
                            progs.push(vec![format!("vslicemut {total_len}"), format!("vfill {}", hex(&vec![0xED; n - total_len]))]);
                        }
                        for prog in progs {
                            let mut lines = vec![root.clone()];
                            lines.extend(prog);
                            lines.push("end".into());
                            cases.push(Case { name: format!("vex3-{id3}"), lines });
                            id3 += 1;
                        }
                    }
                }
            }
        }
    }
    // exhaustive: two small Vec members (all shapes), one vectored fill of every length, list and tuple containers
    let max = if tier == "thorough" { 3 } else { 2 };
    let mut id = 0;
    for vk in ["vec", "tuple1", "tuple0"] {
        for c0 in 0..=max {
            for l0 in 0..=c0 {
                for c1 in 0..=max {
                    for l1 in 0..=c1 {
                        let m0: Vec<u8> = (0..c0).map(|i| 0x10 + i as u8).collect();
                        let m1: Vec<u8> = (0..c1).map(|i| 0x20 + i as u8).collect();
                        for k in 0..=(c0 + c1) {
                            for b in 0..=(if k == 0 { c0 + c1 } else { 0 }) {
                                let mut lines = vec![format!("vroot {vk} vec:{l0}:{};vec:{l1}:{}", hex(&m0), hex(&m1))];
                                if b > 0 {
                                    lines.push(format!("vslicemut {b}"));
                                    lines.push(format!("vfill {}", hex(&vec![0xEE; (c0 + c1 - b).min(2)])));
                                } else {
                                    lines.push(format!("vfill {}", hex(&vec![0xEE; k])));
                                }
                                lines.push("end".into());
                                cases.push(Case { name: format!("vex-{id}"), lines });
                                id += 1;
                            }
                        }
                    }
                }
            }
        }
    }
}
