//! Read-only roots (`IoBuf` only): `Rc<[u8]>`, `Arc<Vec<u8>>`, `String`, `&'static str`, `&'static [u8]`,
//! `bytes::Bytes`, `Rc<Box<[u8]>>` — under real `Slice` layers (`slice`, `flatten`, `into_inner`), `Reader`, and
//! `Slice<Bytes>::slice_bytes`. Programs start with `roroot <kind> <hex>`.

use std::{io::Read, ops::Bound, rc::Rc, sync::Arc};

use compio_buf::{IntoInner, IoBuf, IoBufExt, Reader, Slice, bytes::Bytes};
use hx_common::*;

pub trait DynRo: IoBuf {
    fn peel(self: Box<Self>) -> BR;
    fn depth(&self) -> usize;
}

pub type BR = Box<dyn DynRo>;

impl DynRo for Slice<BR> {
    fn peel(self: Box<Self>) -> BR {
        (*self).into_inner()
    }

    fn depth(&self) -> usize {
        self.as_inner().depth() + 1
    }
}

macro_rules! ro_root {
    ($($t:ty),*) => {$(
        impl DynRo for $t {
            fn peel(self: Box<Self>) -> BR { self }
            fn depth(&self) -> usize { 0 }
        }
    )*};
}
ro_root!(Rc<[u8]>, Arc<Vec<u8>>, String, &'static str, &'static [u8], Bytes, Rc<Box<[u8]>>, Arc<String>);

fn mk_ro(kind: &str, mem: &[u8]) -> Option<BR> {
    Some(match kind {
        "rc" => Box::new(Rc::<[u8]>::from(mem)),
        "arcvec" => Box::new(Arc::new(mem.to_vec())),
        "rcbox" => Box::new(Rc::new(mem.to_vec().into_boxed_slice())),
        "bytes" => Box::new(Bytes::copy_from_slice(mem)),
        "sslice" => {
            let r: &'static [u8] = Box::leak(mem.to_vec().into_boxed_slice());
            Box::new(r)
        }
        "string" => Box::new(String::from_utf8(mem.to_vec()).ok().filter(|_| mem.is_ascii())?),
        "arcstring" => Box::new(Arc::new(String::from_utf8(mem.to_vec()).ok().filter(|_| mem.is_ascii())?)),
        "str" => {
            let s: &'static str = Box::leak(String::from_utf8(mem.to_vec()).ok().filter(|_| mem.is_ascii())?.into_boxed_str());
            Box::new(s)
        }
        _ => return None,
    })
}

enum St {
    Dead,
    Buf(BR),
    Reader(Reader<BR>),
}

pub struct RoMachine {
    st: St,
    root_ptr: usize,
    mem: Vec<u8>,
    /// expected (offset, length) of the current view, maintained from the documented meaning of `slice`
    expect: Vec<(usize, usize)>,
}

fn parse_end(s: &str) -> Option<Option<usize>> {
    if s == "-" { Some(None) } else { s.parse().ok().map(Some) }
}

fn range_of(b: usize, e: Option<usize>) -> (Bound<usize>, Bound<usize>) {
    (Bound::Included(b), e.map(Bound::Excluded).unwrap_or(Bound::Unbounded))
}

impl RoMachine {
    pub fn new() -> Self {
        RoMachine { st: St::Dead, root_ptr: 0, mem: vec![], expect: vec![] }
    }

    fn obs(&self, v: &BR) -> Result<(usize, usize), ()> {
        catch(|| {
            let s = (**v).as_init();
            ((s.as_ptr() as usize).wrapping_sub(self.root_ptr), s.len())
        })
        .map_err(|_| ())
    }

    fn line(&mut self, ex: &mut Exec, ctx: &str) -> String {
        let St::Buf(v) = &self.st else { unreachable!() };
        match self.obs(v) {
            Err(()) => {
                ex.fail("C10:ro-view", format!("{ctx}: as_init panics"));
                "i=panic".into()
            }
            Ok((o, l)) => {
                // monitor: inside the root, and exactly the sub-range the slice calls describe
                if o.checked_add(l).map(|e| e > self.mem.len()).unwrap_or(true) {
                    ex.fail("C10:bounds", format!("{ctx}: as_init {o}+{l} outside the root of {} bytes", self.mem.len()));
                    return format!("i={o}+{l} c=?");
                }
                if self.expect.last() != Some(&(o, l)) {
                    ex.fail("C10:ro-view", format!("{ctx}: as_init is {o}+{l}, the slice calls describe {:?}", self.expect.last()));
                }
                let St::Buf(v) = &self.st else { unreachable!() };
                let content = (**v).as_init().to_vec();
                format!("i={o}+{l} c={}", hex(&content))
            }
        }
    }

    pub fn apply(&mut self, line: &str, ex: &mut Exec) -> String {
        let w: Vec<&str> = line.split_whitespace().collect();
        if w.len() == 3 && w[0] == "roroot" {
            let mem = unhex(w[2]);
            self.st = St::Dead;
            let Some(v) = mk_ro(w[1], &mem) else { return "bad-op".into() };
            self.root_ptr = (*v).as_init().as_ptr() as usize;
            self.expect = vec![(0, mem.len())];
            self.mem = mem;
            ex.tag(format!("roroot:{}", w[1]));
            self.st = St::Buf(v);
            return self.line(ex, line);
        }
        match std::mem::replace(&mut self.st, St::Dead) {
            St::Dead => "dead".into(),
            St::Reader(mut r) => match &w[..] {
                ["read", n] => {
                    let Ok(n) = n.parse::<usize>() else {
                        self.st = St::Reader(r);
                        return "bad-op".into();
                    };
                    let before = r.as_remaining().to_vec();
                    let mut dst = vec![0u8; n];
                    let out = match catch(|| r.read(&mut dst)) {
                        Ok(Ok(k)) => {
                            dst.truncate(k);
                            if k != n.min(before.len()) || dst[..] != before[..k] || r.as_remaining() != &before[k..] {
                                ex.fail("C10:reader", format!("{line}: delivered {} of remaining {}", hex(&dst), hex(&before)));
                            }
                            ex.tag("ro-read");
                            let rem = r.as_remaining();
                            let o = (rem.as_ptr() as usize).wrapping_sub(self.root_ptr);
                            if let Some(e) = self.expect.last_mut() {
                                *e = (e.0 + k, e.1 - k);
                            }
                            format!("read:{} p={} i={}+{}", hex(&dst), r.progress(), o, rem.len())
                        }
                        _ => "panic".into(),
                    };
                    self.st = St::Reader(r);
                    out
                }
                ["remaining"] => {
                    self.st = St::Buf(Box::new(r.into_remaining()));
                    self.line(ex, line)
                }
                _ => {
                    self.st = St::Reader(r);
                    "bad-op".into()
                }
            },
            St::Buf(v) => match &w[..] {
                ["slice", b, e] => {
                    let (Ok(b), Some(e)) = (b.parse::<usize>(), parse_end(e)) else {
                        self.st = St::Buf(v);
                        return "bad-op".into();
                    };
                    let (o, l) = *self.expect.last().unwrap();
                    let in_range = b <= l && e.map(|e| b <= e).unwrap_or(true);
                    match catch(move || Box::new(v.slice(range_of(b, e))) as BR) {
                        Ok(s) => {
                            ex.tag("ro-slice");
                            if !in_range {
                                ex.fail("C10:ro-view", format!("{line}: out-of-range slice did not panic"));
                            }
                            let end = e.unwrap_or(l).min(l);
                            self.expect.push((o + b, end.saturating_sub(b)));
                            self.st = St::Buf(s);
                            self.line(ex, line)
                        }
                        Err(msg) => {
                            if in_range {
                                ex.fail("C10:ctor-panic", format!("{line}: in-range slice panicked: {msg}"));
                            }
                            "panic".into()
                        }
                    }
                }
                ["peel"] => {
                    if v.depth() > 0 {
                        self.expect.pop();
                    }
                    self.st = St::Buf(v.peel());
                    self.line(ex, line)
                }
                ["reader"] => match catch(move || v.into_reader()) {
                    Ok(r) => {
                        ex.tag("ro-reader");
                        let (o, l) = *self.expect.last().unwrap();
                        self.expect.push((o, l));
                        let rem = r.as_remaining();
                        let out = format!("reader p={} i={}+{}", r.progress(), (rem.as_ptr() as usize).wrapping_sub(self.root_ptr), rem.len());
                        self.st = St::Reader(r);
                        out
                    }
                    Err(_) => "panic".into(),
                },
                ["end"] => {
                    let mut v = v;
                    while v.depth() > 0 {
                        v = v.peel();
                    }
                    let c = (*v).as_init().to_vec();
                    if c != self.mem {
                        ex.fail("C10:ro-view", format!("{line}: root content changed"));
                    }
                    format!("root {}", hex(&c))
                }
                _ => {
                    self.st = St::Buf(v);
                    "bad-op".into()
                }
            },
        }
    }
}

/// `Slice<Bytes>::slice_bytes` (concrete type, no boxing): the returned `Bytes` derefs to the same bytes as the slice
fn slice_bytes_line(w: &[&str], line: &str, ex: &mut Exec) -> String {
    let mem = unhex(w[1]);
    let (Ok(b), Some(e)) = (w[2].parse::<usize>(), parse_end(w[3])) else { return "bad-op".into() };
    let bytes = Bytes::copy_from_slice(&mem);
    match catch(move || {
        let s = bytes.slice(range_of(b, e));
        let sb = s.slice_bytes();
        (s.as_init().to_vec(), sb.to_vec(), sb.as_ptr() == s.as_init().as_ptr())
    }) {
        Ok((a, c, same_ptr)) => {
            ex.tag("slice-bytes");
            if a != c || (!a.is_empty() && !same_ptr) {
                ex.fail("C10:ro-view", format!("{line}: slice_bytes() = {} but the slice shows {}", hex(&c), hex(&a)));
            }
            format!("sb {}", hex(&c))
        }
        Err(_) => "panic".into(),
    }
}

pub fn exec(case: &Case, ex: &mut Exec) {
    let mut m = RoMachine::new();
    for l in &case.lines {
        let w: Vec<&str> = l.split_whitespace().collect();
        let o = if w.len() == 4 && w[0] == "slicebytes" {
            catch(|| slice_bytes_line(&w, l, ex)).unwrap_or_else(|_| "harness-panic".into())
        } else {
            match catch(|| m.apply(l, ex)) {
                Ok(o) => o,
                Err(msg) => {
                    ex.fail("C10:panic", format!("{l}: {msg}"));
                    m = RoMachine::new();
                    "harness-panic".into()
                }
            }
        };
        if o.starts_with("i=") && l.starts_with("slice") || o.starts_with("read:") || o.starts_with("sb ") || o == "panic" {
            ex.nontrivial = true;
        }
        ex.out.push(o);
    }
}

const RO_KINDS: [&str; 8] = ["rc", "arcvec", "rcbox", "bytes", "sslice", "string", "arcstring", "str"];

pub fn generate(tier: &str, rng: &mut Rng, cases: &mut Vec<Case>) {
    let n = if tier == "thorough" { 8_000 } else { 600 };
    for i in 0..n {
        let kind = *rng.pick(&RO_KINDS);
        let len = rng.range(0, 12) as usize;
        let base = 0x20 + rng.below(60) as u8;
        let mem: Vec<u8> = (0..len).map(|j| base + (j as u8 % 32)).collect();
        let mut lines = vec![format!("roroot {kind} {}", hex(&mem))];
        let (mut l, mut depth, mut reader) = (len, 0usize, false);
        let mut lens = vec![len];
        for _ in 0..rng.range(1, 7) {
            if reader {
                if rng.chance(2, 3) {
                    let k = rng.below(5) as usize;
                    lines.push(format!("read {k}"));
                    l -= k.min(l);
                } else {
                    lines.push("remaining".into());
                    reader = false;
                }
                continue;
            }
            match rng.below(10) {
                0..=5 if depth < 4 => {
                    let hostile = rng.chance(1, 12);
                    let b = if hostile { l + 1 } else { rng.range(0, l as u64) as usize };
                    let e = match rng.below(3) {
                        0 => None,
                        1 => Some(rng.range(b as u64, (l.max(b) + 2) as u64) as usize),
                        _ => Some(if hostile && b > 0 { b - 1 } else { rng.range(b as u64, l.max(b) as u64) as usize }),
                    };
                    lines.push(format!("slice {b} {}", e.map(|e| e.to_string()).unwrap_or("-".into())));
                    if b > l || e.map(|e| e < b).unwrap_or(false) {
                        break;
                    }
                    lens.push(l);
                    l = e.unwrap_or(l).min(l) - b;
                    depth += 1;
                }
                6 if depth > 0 => {
                    lines.push("peel".into());
                    depth -= 1;
                    l = lens.pop().unwrap();
                }
                7..=8 => {
                    lines.push("reader".into());
                    lens.push(l);
                    depth += 1;
                    reader = true;
                }
                _ => {}
            }
        }
        if reader {
            lines.push("remaining".into());
        }
        lines.push("end".into());
        cases.push(Case { name: format!("ro-{i}"), lines });
    }
    for i in 0..(if tier == "thorough" { 2_000 } else { 200 }) {
        let len = rng.range(0, 10) as usize;
        let mem = rng.bytes(len);
        let hostile = rng.chance(1, 10) as u64;
        let b = rng.range(0, len as u64 + hostile) as usize;
        let e = if rng.chance(1, 3) { "-".to_string() } else { rng.range(b as u64, len as u64 + 2).to_string() };
        cases.push(Case { name: format!("sb-{i}"), lines: vec![format!("slicebytes {} {b} {e}", hex(&mem))] });
    }
}
