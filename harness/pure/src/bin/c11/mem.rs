//! positional (`*_at`) operations on the in-memory implementations of compio-io:
//! `[u8]` / `[u8; N]` / `Vec<u8>` as `AsyncReadAt`, `Vec<u8>` and `[u8]` as `AsyncWriteAt`,
//! and the `*_at` helper loops over them.
//!
//!   rat|rxat|reat <src> <pos> <dst>          read_at / read_exact_at / read_to_end_at
//!   rvat|rvxat <src> <pos> <members>         read_vectored_at / read_vectored_exact_at
//!   wat|waat v|a <dst> <pos> <data>          write_at / write_all_at on Vec (v) or [u8] (a)
//!   wvat|wvaat v|a <dst> <pos> <views>       write_vectored_at / write_vectored_all_at

use compio_buf::BufResult;
use compio_io::{AsyncReadAt, AsyncReadAtExt, AsyncWriteAt, AsyncWriteAtExt};
use hx_common::*;

use super::{
    f19_shape, ok_n, ok_unit, parse_dst, parse_members, parse_views, show_dst, show_members, show_res,
};

fn overlay_keep(orig: &[u8], pos: usize, src: &[u8]) -> Vec<u8> {
    let mut v = orig.to_vec();
    if v.len() < pos + src.len() {
        v.resize(pos + src.len(), 0);
    }
    v[pos..pos + src.len()].copy_from_slice(src);
    v
}

/// the source as the three in-memory `AsyncReadAt` types, chosen by the payload length so that the
/// array implementation is covered too
enum Src {
    Vec(Vec<u8>),
    Boxed(Box<[u8]>),
    Arr4([u8; 4]),
}

fn src_of(d: Vec<u8>) -> Src {
    if d.len() == 4 {
        Src::Arr4([d[0], d[1], d[2], d[3]])
    } else if d.len() % 2 == 0 {
        Src::Boxed(d.into_boxed_slice())
    } else {
        Src::Vec(d)
    }
}

macro_rules! with_src {
    ($s:expr, $x:ident, $body:expr) => {
        match $s {
            Src::Vec($x) => $body,
            Src::Boxed($x) => $body,
            Src::Arr4($x) => $body,
        }
    };
}

fn exec_read(w: &[&str], line: &str, ex: &mut Exec) -> String {
    let op = w[0];
    let src = unhex(w[1]);
    let pos: u64 = w[2].parse().expect("pos");
    ex.tag(format!("op:{op}"));
    let p = (pos.min(src.len() as u64)) as usize;
    let avail = &src[p..];
    match op {
        "rat" | "rxat" | "reat" => {
            let orig = parse_dst(w[3]);
            let ocap = orig.capacity();
            let s = src_of(src.clone());
            let r = catch(|| {
                futures_executor::block_on(async {
                    let d = parse_dst(w[3]);
                    with_src!(&s, x, match op {
                        "rat" => {
                            let BufResult(r, d) = x.read_at(d, pos).await;
                            (show_res(&r, ok_n), d)
                        }
                        "rxat" => {
                            let BufResult(r, d) = x.read_exact_at(d, pos).await;
                            (show_res(&r, ok_unit), d)
                        }
                        _ => {
                            let BufResult(r, d) = x.read_to_end_at(d, pos).await;
                            (show_res(&r, ok_n), d)
                        }
                    })
                })
            });
            match r {
                Err(m) => {
                    ex.fail("C11:panic", format!("{line} => panic: {m}"));
                    "panic".into()
                }
                Ok((res, d)) => {
                    ex.tag(format!("res:{op}:{}", res.split(':').next().unwrap()));
                    // reference
                    let (want_res, want) = match op {
                        "rat" => {
                            let k = avail.len().min(ocap);
                            let mut v = overlay_keep(&orig, 0, &avail[..k]);
                            v.truncate(orig.len().max(k));
                            (format!("ok:{k}"), v)
                        }
                        "rxat" => {
                            let k = avail.len().min(ocap);
                            let mut v = overlay_keep(&orig, 0, &avail[..k]);
                            v.truncate(orig.len().max(k));
                            (if k == ocap { "ok".to_string() } else { "eof".to_string() }, v)
                        }
                        _ => {
                            let mut v = orig.clone();
                            v.extend_from_slice(avail);
                            (format!("ok:{}", avail.len()), v)
                        }
                    };
                    if res != want_res || d != want {
                        ex.fail(
                            "C11:mem-read-ref",
                            format!("{line}: {res} {} but the reference is {want_res} {}", hex(&d), hex(&want)),
                        );
                    }
                    ex.nontrivial = src.len() >= 2;
                    format!("{} {}", res, show_dst(&d))
                }
            }
        }
        _ => {
            let orig = parse_members(w[3]);
            let nonprefix = f19_shape(&orig);
            let s = src_of(src.clone());
            let r = catch(|| {
                futures_executor::block_on(async {
                    let m = parse_members(w[3]);
                    with_src!(&s, x, match op {
                        "rvat" => {
                            let BufResult(r, m) = x.read_vectored_at(m, pos).await;
                            (show_res(&r, ok_n), m)
                        }
                        _ => {
                            let BufResult(r, m) = x.read_vectored_exact_at(m, pos).await;
                            (show_res(&r, ok_unit), m)
                        }
                    })
                })
            });
            match r {
                Err(m) => {
                    let sig = if nonprefix { "F19:vectored-nonprefix-init" } else { "C11:panic" };
                    ex.fail(sig, format!("{line} => panic: {m}"));
                    "panic".into()
                }
                Ok((res, m)) => {
                    ex.tag(format!("res:{op}:{}", res.split(':').next().unwrap()));
                    let total_cap: usize = orig.iter().map(|o| o.capacity()).sum();
                    let k = avail.len().min(total_cap);
                    let mut left = &avail[..k];
                    let mut want: Vec<Vec<u8>> = vec![];
                    for o in &orig {
                        let n = left.len().min(o.capacity());
                        let mut v = overlay_keep(o, 0, &left[..n]);
                        v.truncate(o.len().max(n));
                        left = &left[n..];
                        want.push(v);
                    }
                    let want_res = match op {
                        "rvat" => format!("ok:{k}"),
                        _ => if k == total_cap { "ok".to_string() } else { "eof".to_string() },
                    };
                    if res != want_res || m != want {
                        let sig = if nonprefix { "F19:vectored-nonprefix-init" } else { "C11:mem-read-ref" };
                        ex.fail(
                            sig,
                            format!(
                                "{line}: {res} {} but the reference is {want_res} {}",
                                show_members(&m),
                                show_members(&want)
                            ),
                        );
                    }
                    ex.nontrivial = src.len() >= 2 && orig.len() >= 2;
                    format!("{} {}", res, show_members(&m))
                }
            }
        }
    }
}

/// reference of a positional write: the file grows, zero filled, and the data lands at `pos`
fn write_ref(kind: &str, dst: &[u8], pos: u64, data: &[u8]) -> (usize, Vec<u8>) {
    if kind == "v" {
        let pos = pos as usize;
        let mut v = dst.to_vec();
        if v.len() < pos {
            v.resize(pos, 0);
        }
        (data.len(), overlay_keep(&v, pos, data))
    } else {
        let p = (pos.min(dst.len() as u64)) as usize;
        let n = data.len().min(dst.len() - p);
        (n, overlay_keep(dst, p, &data[..n]))
    }
}

fn exec_write(w: &[&str], line: &str, ex: &mut Exec) -> String {
    let op = w[0];
    let kind = w[1];
    let dst = unhex(w[2]);
    let pos: u64 = w[3].parse().expect("pos");
    ex.tag(format!("op:{op}:{kind}"));
    let vectored = op == "wvat" || op == "wvaat";
    let views: Vec<Vec<u8>> = if vectored { parse_views(w[4], ';') } else { vec![unhex(w[4])] };
    let flat: Vec<u8> = views.concat();
    let r = catch(|| {
        futures_executor::block_on(async {
            macro_rules! run {
                ($d:expr) => {{
                    let mut d = $d;
                    let res = match op {
                        "wat" => show_res(&d.write_at(flat.clone(), pos).await.0, ok_n),
                        "waat" => show_res(&d.write_all_at(flat.clone(), pos).await.0, ok_unit),
                        "wvat" => show_res(&d.write_vectored_at(views.clone(), pos).await.0, ok_n),
                        _ => show_res(&d.write_vectored_all_at(views.clone(), pos).await.0, ok_unit),
                    };
                    (res, d.to_vec())
                }};
            }
            if kind == "v" {
                run!(dst.clone())
            } else if dst.len() == 4 {
                run!([dst[0], dst[1], dst[2], dst[3]])
            } else {
                run!(dst.clone().into_boxed_slice())
            }
        })
    });
    // the exact guard of the Vec implementation: the needed length must not exceed isize::MAX
    // `write_all_at` of nothing never calls `write_at`
    let no_call = (op == "waat" || op == "wvaat") && flat.is_empty();
    let needed = (dst.len() as u128).max(pos as u128 + flat.len() as u128);
    let beyond = kind == "v" && !no_call && needed > isize::MAX as u128;
    match r {
        Err(m) => {
            if beyond {
                ex.tag("res:write-at:capacity-overflow");
            } else {
                ex.fail("C11:panic", format!("{line} => panic: {m}"));
            }
            "panic".into()
        }
        Ok((res, d)) => {
            ex.tag(format!("res:{op}:{}", res.split(':').next().unwrap()));
            let (n, want) = if no_call { (0, dst.clone()) } else { write_ref(kind, &dst, pos, &flat) };
            let want_res = match op {
                "wat" | "wvat" => format!("ok:{n}"),
                _ => if n == flat.len() { "ok".to_string() } else { "wz".to_string() },
            };
            // a positional write of nothing beyond the end still extends a Vec (as a file would not,
            // but as the documentation of the implementation says): covered by the reference
            if res != want_res || d != want {
                ex.fail(
                    "C11:mem-write-ref",
                    format!("{line}: {res} {} but the reference is {want_res} {}", hex(&d), hex(&want)),
                );
            }
            ex.nontrivial = flat.len() >= 2;
            format!("{} {}", res, hex(&d))
        }
    }
}

pub fn exec(w: &[&str], line: &str, ex: &mut Exec) -> String {
    match w[0] {
        "rat" | "rxat" | "reat" | "rvat" | "rvxat" => exec_read(w, line, ex),
        "wat" | "waat" | "wvat" | "wvaat" => exec_write(w, line, ex),
        _ => panic!("bad op {} in {line}", w[0]),
    }
}

fn gen_pos(rng: &mut Rng, len: usize, huge_ok: bool) -> u64 {
    match rng.below(10) {
        0 => len as u64,
        1 => len as u64 + 1 + rng.below(4),
        2 if huge_ok => u64::MAX,
        3 if huge_ok => 1 << 63,
        4 if huge_ok => (1 << 32) + rng.below(5),
        5 if huge_ok => u64::MAX - rng.below(8),
        _ => rng.below(len as u64 + 1),
    }
}

pub fn generate(tier: &str, rng: &mut Rng, cases: &mut Vec<Case>) {
    let n = if tier == "thorough" { 40_000 } else { 2_500 };
    for i in 0..n {
        let src = super::gen_payload(rng, 12);
        let line = match rng.below(9) {
            0 => format!("rat {} {} {}", hex(&src), gen_pos(rng, src.len(), true), super::gen_dst(rng, src.len())),
            1 => format!("rxat {} {} {}", hex(&src), gen_pos(rng, src.len(), true), super::gen_dst(rng, src.len() / 2)),
            2 => format!("reat {} {} {}", hex(&src), gen_pos(rng, src.len(), true), super::gen_dst(rng, src.len())),
            3 => {
                let np = rng.chance(1, 6);
                format!("rvat {} {} {}", hex(&src), gen_pos(rng, src.len(), true), super::gen_members(rng, src.len(), np))
            }
            4 => {
                let np = rng.chance(1, 6);
                format!("rvxat {} {} {}", hex(&src), gen_pos(rng, src.len(), true), super::gen_members(rng, src.len(), np))
            }
            k => {
                let kind = if rng.chance(1, 2) { "v" } else { "a" };
                let dst = if rng.chance(1, 6) { vec![0x55; 4] } else { vec![0x55; rng.below(10) as usize] };
                // a Vec really allocates up to `pos`: only small positions, or positions that
                // cannot be allocated at all (capacity overflow, the documented guard)
                let pos = if kind == "v" {
                    match rng.below(12) {
                        0 => u64::MAX,
                        1 => 1 << 63,
                        2 => u64::MAX - rng.below(6),
                        _ => gen_pos(rng, dst.len(), false),
                    }
                } else {
                    gen_pos(rng, dst.len(), true)
                };
                let data = super::gen_payload(rng, 8);
                match k {
                    5 => format!("wat {kind} {} {pos} {}", hex(&dst), hex(&data)),
                    6 => format!("waat {kind} {} {pos} {}", hex(&dst), hex(&data)),
                    7 => format!("wvat {kind} {} {pos} {}", hex(&dst), super::gen_views(rng, &data, ";")),
                    _ => format!("wvaat {kind} {} {pos} {}", hex(&dst), super::gen_views(rng, &data, ";")),
                }
            }
        };
        cases.push(Case { name: format!("m{i}"), lines: vec![line] });
    }
}
