//! positional (`*_at`) operations on the in-memory implementations
use hx_common::*;

pub fn exec(w: &[&str], line: &str, _ex: &mut Exec) -> String {
    panic!("bad op {} in {line}", w[0])
}

pub fn generate(_tier: &str, _rng: &mut Rng, _cases: &mut Vec<Case>) {}
