//! `read_to_string` / `read_to_string_at`: multi-byte UTF-8 text delivered in every chunking,
//! malformed sequences at every position, appended to empty and non-empty `String`s.
//!
//!   rs <reader> <dst>          AsyncReadExt::read_to_string   (dst = valid UTF-8 hex + spare capacity)
//!   rsat <src> <pos> <dst>     AsyncReadAtExt::read_to_string_at on Vec / Box<[u8]> / [u8; 4]
//!
//! Oracle: std `String::from_utf8` of (old content ++ the bytes that arrived). The result must not
//! depend on how the source cuts the stream into reads (`C11:chunking-dependent`).

use compio_buf::BufResult;
use compio_io::{AsyncReadAtExt, AsyncReadExt};
use hx_common::*;

use super::{
    DynR, O, RdFacts, base_of, blur_script_left, gen_script, ok_n, script_info, show_res, show_script,
    strip_intr, wrappers_of,
};

fn parse_string_dst(s: &str) -> String {
    let (h, e) = s.split_once('+').expect("dst");
    let d = unhex(h);
    let extra: usize = e.parse().expect("extra");
    let text = String::from_utf8(d).expect("the initial String content must be UTF-8");
    let mut out = String::with_capacity(text.len() + extra);
    out.push_str(&text);
    assert_eq!(out.capacity(), text.len() + extra, "allocator returned a different capacity");
    out
}

struct Run {
    res: String,
    text: Vec<u8>,
    cap: usize,
    state: String,
    facts: RdFacts,
    panic: Option<String>,
}

fn run_rs(rspec: &str, dspec: &str) -> Run {
    let r = catch(|| {
        futures_executor::block_on(async {
            let mut r = DynR::parse(rspec);
            let BufResult(res, s) = r.read_to_string(parse_string_dst(dspec)).await;
            let mut facts = RdFacts::default();
            let state = r.show(&mut facts);
            (show_res(&res, ok_n), s, state, facts)
        })
    });
    match r {
        Ok((res, s, state, facts)) => {
            Run { res, cap: s.capacity(), text: s.into_bytes(), state, facts, panic: None }
        }
        Err(m) => Run {
            res: "panic".into(),
            text: vec![],
            cap: 0,
            state: String::new(),
            facts: RdFacts::default(),
            panic: Some(m),
        },
    }
}

/// the reference: what `read_to_string` has to answer when `arrived` came in and the read part
/// ended with `io` (None = end of stream)
fn reference(orig: &[u8], arrived: &[u8], io: Option<&str>) -> (String, Vec<u8>) {
    let mut all = orig.to_vec();
    all.extend_from_slice(arrived);
    let valid = String::from_utf8(all.clone()).is_ok();
    match io {
        None => {
            if valid { (format!("ok:{}", arrived.len()), all) } else { ("inv".into(), vec![]) }
        }
        // after an I/O error the bytes read so far are handed back when they are text
        Some(e) => (e.to_string(), if valid { all } else { vec![] }),
    }
}

fn exec_rs(w: &[&str], line: &str, ex: &mut Exec) -> String {
    let (rspec, dspec) = (w[1], w[2]);
    ex.tag("op:rs");
    let run = run_rs(rspec, dspec);
    if let Some(m) = &run.panic {
        ex.fail("C11:panic", format!("{line} => panic: {m}"));
        return "panic".into();
    }
    ex.tag(format!("res:rs:{}", run.res.split(':').next().unwrap()));
    let orig = unhex(dspec.split_once('+').unwrap().0);
    if let Some(info) = script_info(rspec) {
        let scripted = base_of(rspec).starts_with("s:");
        let (lim, bcap) = wrappers_of(rspec);
        if scripted {
            let d = run.facts.consumed - run.facts.buffered;
            let io = if run.res.starts_with("ok:") || run.res == "inv" { None } else { Some(run.res.as_str()) };
            let (want_res, want_text) = reference(&orig, &info.stream[..d.min(info.stream.len())], io);
            if run.res != want_res || run.text != want_text {
                ex.fail(
                    "C11:read-to-string-ref",
                    format!(
                        "{line}: {} {} but String::from_utf8 of the {d} bytes that arrived says {} {}",
                        run.res,
                        hex(&run.text),
                        want_res,
                        hex(&want_text)
                    ),
                );
            }
        }
        // honest source: the answer is decided by the whole text alone, whatever the chunking
        if info.honest {
            let avail = lim.map_or(info.stream.len() as u64, |l| l.min(info.stream.len() as u64)) as usize;
            let (want_res, want_text) = reference(&orig, &info.stream[..avail], None);
            if run.res != want_res || run.text != want_text {
                let sig = if bcap == Some(0) { "F12:bufreader-cap0-eof" } else { "C11:chunking-dependent" };
                ex.fail(
                    sig,
                    format!(
                        "{line}: cap={bcap:?} {} {} but the stream as a whole gives {} {}",
                        run.res,
                        hex(&run.text),
                        want_res,
                        hex(&want_text)
                    ),
                );
            }
        }
        // the same stream in one piece and without interruptions must give the same answer
        if scripted && info.honest {
            let f: Vec<&str> = base_of(rspec).split(':').collect();
            // as large as possible per call, enough entries whatever the layers above offer
            let big = info.stream.len().max(1).to_string();
            let one = format!("s:{}:{}", f[1], vec![big.as_str(); info.stream.len() + 2].join(","));
            let prefix = &rspec[..rspec.len() - base_of(rspec).len()];
            let run2 = run_rs(&format!("{prefix}{one}"), dspec);
            if run2.res != run.res || run2.text != run.text {
                let sig = if bcap == Some(0) { "F12:bufreader-cap0-eof" } else { "C11:chunking-dependent" };
                ex.fail(
                    sig,
                    format!(
                        "{line}: cap={bcap:?} {} {} but delivered in one piece {} {}",
                        run.res,
                        hex(&run.text),
                        run2.res,
                        hex(&run2.text)
                    ),
                );
            }
        }
        if info.has_intr {
            let run2 = run_rs(&strip_intr(rspec), dspec);
            if run2.res != run.res
                || run2.text != run.text
                || blur_script_left(&run2.state) != blur_script_left(&run.state)
            {
                ex.fail(
                    "C11:intr-transparent",
                    format!(
                        "{line}: {} {} | {} but without the Interrupted entries {} {} | {}",
                        run.res,
                        hex(&run.text),
                        run.state,
                        run2.res,
                        hex(&run2.text),
                        run2.state
                    ),
                );
            }
        }
        ex.nontrivial = info.stream.len() >= 2;
    }
    format!("{} {} {} | {}", run.res, hex(&run.text), run.cap, run.state)
}

fn exec_rsat(w: &[&str], line: &str, ex: &mut Exec) -> String {
    let src = unhex(w[1]);
    let pos: u64 = w[2].parse().expect("pos");
    ex.tag("op:rsat");
    let orig = unhex(w[3].split_once('+').unwrap().0);
    let r = catch(|| {
        futures_executor::block_on(async {
            let d = parse_string_dst(w[3]);
            let BufResult(res, s) = if src.len() == 4 {
                [src[0], src[1], src[2], src[3]].read_to_string_at(d, pos).await
            } else if src.len() % 2 == 0 {
                src.clone().into_boxed_slice().read_to_string_at(d, pos).await
            } else {
                src.read_to_string_at(d, pos).await
            };
            (show_res(&res, ok_n), s)
        })
    });
    match r {
        Err(m) => {
            ex.fail("C11:panic", format!("{line} => panic: {m}"));
            "panic".into()
        }
        Ok((res, s)) => {
            ex.tag(format!("res:rsat:{}", res.split(':').next().unwrap()));
            let p = (pos.min(src.len() as u64)) as usize;
            let (want_res, want_text) = reference(&orig, &src[p..], None);
            if res != want_res || s.as_bytes() != &want_text[..] {
                ex.fail(
                    "C11:read-to-string-ref",
                    format!("{line}: {res} {} but the reference is {want_res} {}", hex(s.as_bytes()), hex(&want_text)),
                );
            }
            ex.nontrivial = src.len() >= 2;
            format!("{} {} {}", res, hex(s.as_bytes()), s.capacity())
        }
    }
}

pub fn exec(w: &[&str], line: &str, ex: &mut Exec) -> String {
    match w[0] {
        "rs" => exec_rs(w, line, ex),
        _ => exec_rsat(w, line, ex),
    }
}

// ---------------------------------------------------------------------------------------------

/// characters of every encoded length, including the boundary code points of each length
const CHARS: [&str; 14] = [
    "a", "Z", "\u{7f}", "\u{80}", "é", "\u{7ff}", "\u{800}", "€", "\u{d7ff}", "\u{e000}", "\u{ffff}",
    "\u{10000}", "😀", "\u{10ffff}",
];

/// malformed sequences: lone continuation, truncated characters, overlong forms, surrogates,
/// beyond U+10FFFF, invalid lead bytes, invalid continuation
const BAD: [&[u8]; 16] = [
    &[0x80],
    &[0xBF],
    &[0xC3],
    &[0xE2, 0x82],
    &[0xF0, 0x9F, 0x98],
    &[0xC0, 0x80],
    &[0xC1, 0xBF],
    &[0xE0, 0x80, 0x80],
    &[0xE0, 0x9F, 0xBF],
    &[0xF0, 0x80, 0x80, 0x80],
    &[0xF0, 0x8F, 0xBF, 0xBF],
    &[0xED, 0xA0, 0x80],
    &[0xED, 0xBF, 0xBF],
    &[0xF4, 0x90, 0x80, 0x80],
    &[0xF5, 0x80, 0x80, 0x80],
    &[0xC3, 0x41],
];

fn gen_text(rng: &mut Rng, max_chars: u64) -> Vec<u8> {
    let n = rng.below(max_chars + 1);
    let mut out = vec![];
    for _ in 0..n {
        out.extend_from_slice(rng.pick(&CHARS).as_bytes());
    }
    out
}

fn string_dst(rng: &mut Rng) -> String {
    let pre: &str = match rng.below(4) {
        0 => "x",
        1 => "é€",
        _ => "",
    };
    format!("{}+{}", hex(pre.as_bytes()), *rng.pick(&[0usize, 0, 1, 2, 5, 40]))
}

/// every chunking of `text` × optional `Interrupted` at every boundary, for `rs`; every position for `rsat`
fn all_chunkings(text: &[u8], name: &str, cases: &mut Vec<Case>) {
    let h = hex(text);
    let mut lines = vec![];
    for comp in compositions(text.len()) {
        let base: Vec<O> = comp.iter().map(|n| O::Ok(*n)).chain([O::Ok(1)]).collect();
        for dst in ["-+0", "78+0", "c3a9+3"] {
            lines.push(format!("rs s:{h}:{} {dst}", show_script(&base)));
        }
        // an interruption between every two chunks
        let mut with_intr = vec![];
        for o in &base {
            with_intr.push(o.clone());
            with_intr.push(O::Intr);
        }
        lines.push(format!("rs s:{h}:{} -+0", show_script(&with_intr)));
        for cap in [1usize, 2, 3] {
            lines.push(format!("rs buf:{cap}/s:{h}:{} -+0", show_script(&base)));
        }
    }
    for pos in 0..=text.len() + 1 {
        lines.push(format!("rsat {h} {pos} -+0"));
        lines.push(format!("rsat {h} {pos} c3a9+1"));
    }
    cases.push(Case { name: name.to_string(), lines });
}

pub fn generate(tier: &str, rng: &mut Rng, cases: &mut Vec<Case>) {
    let thorough = tier == "thorough";
    // exhaustive: short texts in every chunking
    let mut k = 0;
    let short: Vec<Vec<u8>> = {
        let mut v: Vec<Vec<u8>> = vec![];
        for c in CHARS {
            v.push(c.as_bytes().to_vec());
            v.push(format!("a{c}").into_bytes());
            if thorough {
                v.push(format!("{c}b").into_bytes());
                v.push(format!("{c}é").into_bytes());
            }
        }
        v.push("é€".as_bytes().to_vec());
        v.push("a😀b".as_bytes().to_vec());
        if thorough {
            v.push("€😀".as_bytes().to_vec());
            v.push("😀é€".as_bytes().to_vec());
        }
        for b in BAD {
            v.push(b.to_vec());
            // malformed at the start, in the middle, at the end
            let mut m = b"a".to_vec();
            m.extend_from_slice(b);
            v.push(m.clone());
            if thorough || b.len() <= 2 {
                m.extend_from_slice("é".as_bytes());
                v.push(m);
                let mut e = "€".as_bytes().to_vec();
                e.extend_from_slice(b);
                v.push(e);
            }
        }
        v
    };
    for t in short {
        if t.len() <= if thorough { 9 } else { 6 } {
            all_chunkings(&t, &format!("t{k}"), cases);
            k += 1;
        }
    }
    // random: longer texts, random chunkings, wrappers, transient and hard errors, corruption anywhere
    let n = if thorough { 30_000 } else { 1_500 };
    for i in 0..n {
        let mut text = gen_text(rng, 10);
        if rng.chance(1, 3) && !text.is_empty() {
            match rng.below(3) {
                0 => {
                    // truncate inside the last character
                    let cut = rng.range(1, 3) as usize;
                    let l = text.len().saturating_sub(cut);
                    text.truncate(l);
                }
                1 => {
                    let at = rng.below(text.len() as u64 + 1) as usize;
                    let bad = rng.pick(&BAD);
                    text.splice(at..at, bad.iter().copied());
                }
                _ => {
                    let at = rng.below(text.len() as u64) as usize;
                    text[at] = *rng.pick(&[0x41u8, 0x80, 0xC0, 0xFF, 0xE2]);
                }
            }
        }
        let honest = rng.chance(2, 3);
        let line = if rng.chance(1, 6) {
            let pos = match rng.below(5) {
                0 => text.len() as u64 + rng.below(3),
                1 => u64::MAX,
                _ => rng.below(text.len() as u64 + 1),
            };
            format!("rsat {} {} {}", hex(&text), pos, string_dst(rng))
        } else {
            let mut spec = format!("s:{}:{}", hex(&text), show_script(&gen_script(rng, text.len(), honest)));
            match rng.below(8) {
                0 => spec = format!("buf:{}/{}", rng.pick(&[1usize, 2, 3, 7, 8192]), spec),
                1 => spec = format!("take:{}/{}", rng.below(text.len() as u64 + 2), spec),
                2 => spec = format!("half/{spec}"),
                3 => spec = format!("buf:{}/take:{}/{}", rng.pick(&[1usize, 2, 3]), rng.below(text.len() as u64 + 2), spec),
                _ => {}
            }
            format!("rs {} {}", spec, string_dst(rng))
        };
        cases.push(Case { name: format!("u{i}"), lines: vec![line] });
    }
}
