//! Session 3: the `Buffer` user that calls `Buffer::compact_to` — the read side of
//! `compat::SyncStream` (`fill_read_buf`, `Read::read`, `BufRead::fill_buf`/`consume`,
//! `read_buf_uninit`) over a scripted inner stream, with partial consumption followed by a refill
//! while data is still buffered.
//!
//!   ss <base> <max> <payload hex> <script> <ops>
//!
//! ops (comma separated): `F` = fill_read_buf, `R<n>` = Read::read into n bytes, `B<n>` = fill_buf
//! then consume(min(n, available)), `U<n>` = read_buf_uninit into n bytes.
//! output: one token per op, then `| eof=<0|1> rest=<hex of into_parts().1> left=<bytes not yet read
//! from the inner stream>`.
//!
//! Monitor `C11:sync-exactly-once` (implementation only): every byte handed out is the next byte of the
//! payload (nothing lost, duplicated or reordered at any step), every borrowed view (`fill_buf`) starts at
//! the next undelivered byte, and at the end delivered ++ still buffered == the bytes taken from the source.

use std::{
    io::{BufRead, ErrorKind, Read},
    mem::MaybeUninit,
};

use compio_io::compat::SyncStream;
use hx_common::*;

use super::{O, SR, gen_payload, parse_script, show_err, show_script};

pub fn exec(w: &[&str], line: &str, ex: &mut Exec) -> String {
    let base: usize = w[1].parse().expect("base");
    let max: usize = w[2].parse().expect("max");
    let payload = unhex(w[3]);
    let sc = parse_script(w[4]);
    let ops: Vec<&str> = if w[5] == "." { vec![] } else { w[5].split(',').collect() };
    let sr = SR { stream: payload.clone(), pos: 0, sc };
    let mut st = SyncStream::with_limits(base, max, sr);
    let mut out: Vec<String> = vec![];
    let mut delivered: Vec<u8> = vec![];
    let mut bad: Option<String> = None;
    let mut partial_then_fill = false;
    let mut last_partial = false;
    for op in &ops {
        let (k, n) = op.split_at(1);
        let n: usize = if n.is_empty() { 0 } else { n.parse().expect("op n") };
        match k {
            "F" => {
                if last_partial {
                    partial_then_fill = true;
                }
                match futures_executor::block_on(st.fill_read_buf()) {
                    Ok(n) => out.push(format!("f:{n}")),
                    Err(e) => out.push(format!("f:{}", show_err(&e))),
                }
            }
            "R" | "U" => {
                let mut dst = vec![0u8; n];
                let r = if k == "R" {
                    st.read(&mut dst)
                } else {
                    let mut u = vec![MaybeUninit::<u8>::new(0); n];
                    let r = st.read_buf_uninit(&mut u);
                    if let Ok(m) = &r {
                        for i in 0..*m {
                            dst[i] = unsafe { u[i].assume_init() };
                        }
                    }
                    r
                };
                match r {
                    Ok(m) => {
                        if m > n {
                            bad.get_or_insert(format!("{op}: returned {m} > {n}"));
                        }
                        let got = &dst[..m.min(n)];
                        let at = delivered.len();
                        if payload.len() < at + got.len() || &payload[at..at + got.len()] != got {
                            bad.get_or_insert(format!(
                                "{op}: handed out {} at stream offset {at}, payload has {}",
                                hex(got),
                                hex(&payload[at.min(payload.len())..(at + got.len()).min(payload.len())])
                            ));
                        }
                        delivered.extend_from_slice(got);
                        out.push(format!("r:{}", hex(got)));
                        last_partial = m > 0;
                    }
                    Err(e) if e.kind() == ErrorKind::WouldBlock => out.push("r:wb".into()),
                    Err(e) => out.push(format!("r:{}", show_err(&e))),
                }
            }
            "B" => match st.fill_buf() {
                Ok(av) => {
                    let av = av.to_vec();
                    let at = delivered.len();
                    if payload.len() < at + av.len() || payload[at..at + av.len()] != av[..] {
                        bad.get_or_insert(format!(
                            "{op}: fill_buf lends {} at stream offset {at}, payload continues with {}",
                            hex(&av),
                            hex(&payload[at.min(payload.len())..])
                        ));
                    }
                    let c = n.min(av.len());
                    st.consume(c);
                    delivered.extend_from_slice(&av[..c]);
                    out.push(format!("b:{}/{c}", hex(&av)));
                    last_partial = c > 0 && c < av.len();
                    if last_partial {
                        ex.tag("ss:partial-consume");
                    }
                }
                Err(e) if e.kind() == ErrorKind::WouldBlock => out.push("b:wb".into()),
                Err(e) => out.push(format!("b:{}", show_err(&e))),
            },
            _ => panic!("bad ss op {op}"),
        }
        if k != "F" && k != "B" {
            // a read that leaves data buffered is a partial consumption as well
            last_partial = last_partial && st.fill_buf().map(|a| !a.is_empty()).unwrap_or(false);
        }
    }
    let eof = st.is_eof();
    let (sr, rest) = st.into_parts();
    let taken = &payload[..sr.pos];
    let mut have = delivered.clone();
    have.extend_from_slice(&rest);
    if bad.is_none() && have != taken {
        bad = Some(format!(
            "delivered {} ++ buffered {} != taken from the source {}",
            hex(&delivered),
            hex(&rest),
            hex(taken)
        ));
    }
    if let Some(b) = bad {
        ex.fail("C11:sync-exactly-once", format!("{line}: {b}"));
    }
    if partial_then_fill {
        ex.tag("ss:refill-with-data-buffered");
    }
    ex.tag("op:ss");
    ex.nontrivial |= payload.len() >= 2 && !delivered.is_empty();
    format!("{} | eof={} rest={} left={}", out.join(" "), eof as u8, hex(&rest), payload.len() - sr.pos)
}

fn gen_ops(rng: &mut Rng, len: usize) -> String {
    let n = 2 + rng.below(10) as usize;
    let mut ops = vec!["F".to_string()];
    for _ in 0..n {
        let small = 1 + rng.below(3);
        let any = rng.below(len as u64 + 3);
        let k = if rng.chance(2, 3) { small } else { any };
        ops.push(match rng.below(8) {
            0 | 1 | 2 => "F".to_string(),
            3 | 4 => format!("R{k}"),
            5 | 6 => format!("B{k}"),
            _ => format!("U{k}"),
        });
    }
    // drain: alternate reads and fills
    if rng.chance(3, 4) {
        for _ in 0..(len + 2) {
            ops.push("R5".into());
            ops.push("F".into());
        }
    }
    ops.join(",")
}

pub fn generate(tier: &str, rng: &mut Rng, cases: &mut Vec<Case>) {
    // exhaustive small family: payload of 6 bytes delivered in chunks a,b,rest; consume c bytes after the
    // first fill through each of the three consuming calls, refill, drain
    let payload: Vec<u8> = (1..=6).collect();
    for a in 1..=6usize {
        for c in 0..=a {
            for (i, k) in ["R", "B", "U"].iter().enumerate() {
                for base in [1usize, 4, 8] {
                    let first = if c == 0 && *k != "B" { "F".to_string() } else { format!("F,{k}{c}") };
                    let line = format!(
                        "ss {base} 67108864 {} {a},2,6,6,6,6,6,6,6,6 {first},F,R5,F,R5,F,R5,F,R5,F,R5,F,R5,F,R5",
                        hex(&payload)
                    );
                    cases.push(Case { name: format!("ss-x-{a}-{c}-{i}-{base}"), lines: vec![line] });
                }
            }
        }
    }
    let n = if tier == "thorough" { 20_000 } else { 1_200 };
    for i in 0..n {
        let payload = gen_payload(rng, 24);
        let base = *rng.pick(&[1usize, 2, 3, 5, 8, 16, 64]);
        let max = if rng.chance(1, 8) { *rng.pick(&[1usize, 4, 8, 16]) } else { 64 * 1024 * 1024 };
        let mut sc = vec![];
        let entries = 2 + rng.below(payload.len() as u64 + 4);
        for _ in 0..entries {
            sc.push(match rng.below(12) {
                0 => O::Intr,
                1 => O::Err(rng.below(5) as u32),
                2 if rng.chance(1, 3) => O::Eof,
                _ => O::Ok(1 + rng.below(9) as usize),
            });
        }
        let line = format!(
            "ss {base} {max} {} {} {}",
            hex(&payload),
            show_script(&sc),
            gen_ops(rng, payload.len())
        );
        cases.push(Case { name: format!("ss-{i}"), lines: vec![line] });
    }
}
