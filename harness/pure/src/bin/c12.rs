//! C12 correspondence harness: `SyncStream` and `AsyncStream` (compio-io `compat`) of the real
//! compio-io over a scripted, recording inner stream. Text operations, one output line per
//! operation line (see lean/Drivers/C12.lean for the model side).
//!
//! A case starts with a constructor line
//!     sync  <base> <max> <rscript> <wscript>      SyncStream::with_limits(base, max, inner)
//!     async <base> <max> <rscript> <wscript>      AsyncStream::with_limits(base, max, (innerR, innerW))
//! optional 6th word `wake=take|ref|clone|keep`: how the inner stream wakes the waker it registered (by value as
//! the only handle / by reference / a clone while the registration is alive / a clone with the registration kept
//! in a waiter list) — every style must wake every task of the registered `WakerArray` snapshot.
//! rscript: `,`-separated  d<hex> (data offered) | p (Pending) | e (io error) | z (returns 0); `.` = empty;
//!          an exhausted script returns 0 (end of stream).
//! wscript: `,`-separated  w<k> (accept at most k bytes) | p | e; `.` = empty; an exhausted script
//!          accepts everything. One item is consumed per poll of an inner write / flush / shutdown
//!          (flush and shutdown succeed on `w<k>`).
//! Operations on a sync stream:  read n | rbu n | fillbuf | consume n | write <hex> | flush |
//!          fill <polls> | wflush <polls> | st | parts
//! Operations on an async stream: pr t n | pru t n | pfb t | co n | pw t <hex> | pfl t | pcl t
//!          (t = task id 0..3, each task has its own counting waker).
//! Every output line ends with the log of inner-stream calls made during the operation
//! (` io=r<space>:<n>,rP,rE,w<len>:<n>,wP,wE,f,fP,fE,s,sP,sE`), the tasks woken by the inner
//! stream during the operation (` wk=..`) and, for sync streams, the buffer state read from `Debug`.

use std::{
    cell::RefCell,
    collections::VecDeque,
    future::Future,
    io::{self, BufRead, Read, Write},
    mem::MaybeUninit,
    pin::Pin,
    rc::Rc,
    sync::{Arc, Mutex},
    task::{Context, Poll, Wake, Waker},
};

use compio_buf::{BufResult, IoBuf, IoBufMut, SetLenExt};
use compio_io::{
    AsyncRead, AsyncWrite,
    compat::{AsyncReadStream, AsyncStream, AsyncWriteStream, SyncStream, SyncStreamReadHalf, SyncStreamWriteHalf},
    util::Splittable,
};
use hx_common::*;

// ---------------------------------------------------------------- inner stream

#[derive(Clone, Debug)]
enum RItem {
    D(Vec<u8>),
    P,
    E,
    Z,
}

#[derive(Clone, Debug)]
enum WItem {
    W(usize),
    P,
    E,
}

/// how the inner stream wakes the waker it registered when its operation completes
#[derive(Clone, Copy, Default, PartialEq, Debug)]
enum WakeStyle {
    /// `registered.take().wake()` — the only handle, woken by value
    #[default]
    Take,
    /// `registered.wake_by_ref()`, then dropped
    Ref,
    /// `registered.clone().wake()` while the registration is still alive, dropped afterwards
    Clone,
    /// a waiter list: the registration stays in the list (alive for the rest of the case), a clone is woken by value
    Keep,
}

fn fire(style: WakeStyle, w: Waker, keep: &mut Vec<Waker>) {
    match style {
        WakeStyle::Take => w.wake(),
        WakeStyle::Ref => w.wake_by_ref(),
        WakeStyle::Clone => {
            let c = w.clone();
            c.wake();
            drop(w);
        }
        WakeStyle::Keep => {
            let c = w.clone();
            keep.push(w);
            c.wake();
        }
    }
}

#[derive(Default)]
struct Sh {
    style: WakeStyle,
    /// registrations a `Keep`-style inner stream never removed
    keep: Vec<Waker>,
    rscript: VecDeque<RItem>,
    wscript: VecDeque<WItem>,
    /// inner calls of the current operation
    log: Vec<String>,
    /// every byte the inner reader handed over / the inner writer accepted, in order
    delivered: Vec<u8>,
    sent: Vec<u8>,
    /// the inner writer stages in `write` and commits in `flush()` / `shutdown()` (BufWriter, TLS record layer):
    /// how many of the `sent` bytes a successful inner flush()/shutdown() has put on the wire
    wire: usize,
    /// the inner reader returned 0 for an end-of-stream reason (`z` or exhausted script)
    genuine_eof: bool,
    rparked: Option<Waker>,
    wparked: Option<Waker>,
    revent: bool,
    wevent: bool,
    shutdowns_ok: usize,
    /// inner reads that returned 0
    zero_reads: usize,
    /// bytes still in the write buffer according to accepted/sent at the moment of a successful shutdown
    sent_at_shutdown: Option<usize>,
}

type Shared = Rc<RefCell<Sh>>;

struct Inner(Shared);

impl std::fmt::Debug for Inner {
    fn fmt(&self, f: &mut std::fmt::Formatter<'_>) -> std::fmt::Result {
        f.write_str("Inner")
    }
}

fn scripted() -> io::Error {
    io::Error::other("scripted")
}

fn poll_r<B: IoBufMut>(sh: &Shared, cx: &mut Context<'_>, buf: &mut B) -> Poll<io::Result<usize>> {
    let mut s = sh.borrow_mut();
    let item = s.rscript.pop_front();
    if let Some(RItem::P) = item {
        s.rparked = Some(cx.waker().clone());
        s.log.push("rP".into());
        return Poll::Pending;
    }
    if let Some(w) = s.rparked.take() {
        s.revent = true;
        let style = s.style;
        let mut keep = std::mem::take(&mut s.keep);
        drop(s);
        fire(style, w, &mut keep);
        s = sh.borrow_mut();
        s.keep = keep;
    }
    let space = buf.as_uninit().len();
    match item {
        Some(RItem::D(d)) => {
            let n = d.len().min(space);
            let dst = buf.as_uninit();
            for i in 0..n {
                dst[i].write(d[i]);
            }
            if n < d.len() {
                s.rscript.push_front(RItem::D(d[n..].to_vec()));
            }
            unsafe { buf.advance_to(n) };
            s.delivered.extend_from_slice(&d[..n]);
            if n == 0 {
                s.zero_reads += 1;
            }
            s.log.push(format!("r{space}:{n}"));
            Poll::Ready(Ok(n))
        }
        Some(RItem::E) => {
            s.log.push("rE".into());
            Poll::Ready(Err(scripted()))
        }
        Some(RItem::Z) | None => {
            s.genuine_eof = true;
            s.zero_reads += 1;
            s.log.push(format!("r{space}:0"));
            Poll::Ready(Ok(0))
        }
        Some(RItem::P) => unreachable!(),
    }
}

/// kind: 0 = write, 1 = flush, 2 = shutdown
fn poll_w(sh: &Shared, cx: &mut Context<'_>, kind: u8, data: &[u8]) -> Poll<io::Result<usize>> {
    let tag = ["w", "f", "s"][kind as usize];
    let mut s = sh.borrow_mut();
    let item = s.wscript.pop_front();
    if let Some(WItem::P) = item {
        s.wparked = Some(cx.waker().clone());
        s.log.push(format!("{tag}P"));
        return Poll::Pending;
    }
    if let Some(w) = s.wparked.take() {
        s.wevent = true;
        let style = s.style;
        let mut keep = std::mem::take(&mut s.keep);
        drop(s);
        fire(style, w, &mut keep);
        s = sh.borrow_mut();
        s.keep = keep;
    }
    match item {
        Some(WItem::E) => {
            s.log.push(format!("{tag}E"));
            Poll::Ready(Err(scripted()))
        }
        Some(WItem::P) => unreachable!(),
        other => {
            if kind == 0 {
                let n = match other {
                    Some(WItem::W(k)) => k.min(data.len()),
                    _ => data.len(),
                };
                s.sent.extend_from_slice(&data[..n]);
                s.log.push(format!("w{}:{n}", data.len()));
                Poll::Ready(Ok(n))
            } else {
                s.wire = s.sent.len();
                if kind == 2 {
                    s.shutdowns_ok += 1;
                    s.sent_at_shutdown = Some(s.sent.len());
                }
                s.log.push(tag.to_string());
                Poll::Ready(Ok(0))
            }
        }
    }
}

impl AsyncRead for Inner {
    async fn read<B: IoBufMut>(&mut self, mut buf: B) -> BufResult<usize, B> {
        let sh = self.0.clone();
        let r = std::future::poll_fn(|cx| poll_r(&sh, cx, &mut buf)).await;
        BufResult(r, buf)
    }
}

impl AsyncWrite for Inner {
    async fn write<T: IoBuf>(&mut self, buf: T) -> BufResult<usize, T> {
        let sh = self.0.clone();
        let r = std::future::poll_fn(|cx| poll_w(&sh, cx, 0, buf.as_init())).await;
        BufResult(r, buf)
    }

    async fn flush(&mut self) -> io::Result<()> {
        let sh = self.0.clone();
        std::future::poll_fn(|cx| poll_w(&sh, cx, 1, &[])).await.map(|_| ())
    }

    async fn shutdown(&mut self) -> io::Result<()> {
        let sh = self.0.clone();
        std::future::poll_fn(|cx| poll_w(&sh, cx, 2, &[])).await.map(|_| ())
    }
}

// ---------------------------------------------------------------- wakers

static WAKES: Mutex<Vec<usize>> = Mutex::new(Vec::new());

struct TaskWaker(usize);

impl Wake for TaskWaker {
    fn wake(self: Arc<Self>) {
        self.wake_by_ref();
    }

    fn wake_by_ref(self: &Arc<Self>) {
        WAKES.lock().unwrap().push(self.0);
    }
}

fn drain_wakes() -> Vec<usize> {
    std::mem::take(&mut *WAKES.lock().unwrap())
}

/// task id 9 = the driver of the sync stream's async methods
const DRIVER_TASK: usize = 9;

// ---------------------------------------------------------------- parsing

fn parse_rscript(s: &str) -> VecDeque<RItem> {
    if s == "." {
        return VecDeque::new();
    }
    s.split(',')
        .map(|it| match it.as_bytes()[0] {
            b'd' => RItem::D(unhex(&it[1..])),
            b'p' => RItem::P,
            b'e' => RItem::E,
            b'z' => RItem::Z,
            _ => panic!("ritem {it}"),
        })
        .collect()
}

fn parse_wscript(s: &str) -> VecDeque<WItem> {
    if s == "." {
        return VecDeque::new();
    }
    s.split(',')
        .map(|it| match it.as_bytes()[0] {
            b'w' => WItem::W(it[1..].parse().unwrap()),
            b'p' => WItem::P,
            b'e' => WItem::E,
            _ => panic!("witem {it}"),
        })
        .collect()
}

fn err_kind(e: &io::Error) -> &'static str {
    match e.kind() {
        io::ErrorKind::WouldBlock => "wb",
        io::ErrorKind::OutOfMemory => "oom",
        io::ErrorKind::WriteZero => "wz",
        io::ErrorKind::Other => "other",
        _ => "unknown",
    }
}

// ---------------------------------------------------------------- the stream under test

type AStream = AsyncStream<(Inner, Inner)>;

/// a `SyncStream`, whole or split into its two halves (`Splittable::split`)
enum SyncSut {
    Whole(Box<SyncStream<Inner>>),
    Split(Box<SyncStreamReadHalf<Inner>>, Box<SyncStreamWriteHalf<Inner>>),
}

macro_rules! rd {
    ($s:expr, $x:ident => $e:expr) => {
        match $s {
            SyncSut::Whole($x) => $e,
            SyncSut::Split($x, _) => $e,
        }
    };
}
macro_rules! wr {
    ($s:expr, $x:ident => $e:expr) => {
        match $s {
            SyncSut::Whole($x) => $e,
            SyncSut::Split(_, $x) => $e,
        }
    };
}

impl SyncSut {
    fn read(&mut self, buf: &mut [u8]) -> io::Result<usize> {
        rd!(self, x => x.read(buf))
    }
    fn read_buf_uninit(&mut self, buf: &mut [MaybeUninit<u8>]) -> io::Result<usize> {
        rd!(self, x => x.read_buf_uninit(buf))
    }
    fn fill_buf(&mut self) -> io::Result<&[u8]> {
        rd!(self, x => x.fill_buf())
    }
    fn consume(&mut self, n: usize) {
        rd!(self, x => x.consume(n))
    }
    fn write(&mut self, data: &[u8]) -> io::Result<usize> {
        wr!(self, x => x.write(data))
    }
    fn flush(&mut self) -> io::Result<()> {
        wr!(self, x => Write::flush(&mut **x))
    }
    fn fill(&mut self, budget: usize) -> Option<io::Result<usize>> {
        rd!(self, x => drive(x.fill_read_buf(), budget))
    }
    fn wflush(&mut self, budget: usize) -> Option<io::Result<usize>> {
        wr!(self, x => drive(x.flush_write_buf(), budget))
    }
    fn is_eof(&self) -> bool {
        rd!(self, x => x.is_eof())
    }
    fn has_pending_write(&self) -> bool {
        wr!(self, x => x.has_pending_write())
    }
    fn into_parts(self) -> Vec<u8> {
        match self {
            SyncSut::Whole(x) => (*x).into_parts().1,
            SyncSut::Split(r, _) => (*r).into_parts().1,
        }
    }
    fn debug(&self) -> Option<String> {
        match self {
            SyncSut::Whole(x) => catch(|| format!("{x:?}")).ok(),
            SyncSut::Split(r, w) => catch(|| format!("{r:?} {w:?}")).ok(),
        }
    }
}

/// an `AsyncStream`, whole or as separate `AsyncReadStream` / `AsyncWriteStream` halves
enum AsyncSut {
    Whole(Pin<Box<AStream>>),
    Split(Pin<Box<AsyncReadStream<Inner>>>, Pin<Box<AsyncWriteStream<Inner>>>),
}

impl AsyncSut {
    fn poll_read(&mut self, cx: &mut Context<'_>, buf: &mut [u8]) -> Poll<io::Result<usize>> {
        use futures_util::AsyncRead as FRead;
        match self {
            AsyncSut::Whole(s) => FRead::poll_read(s.as_mut(), cx, buf),
            AsyncSut::Split(r, _) => FRead::poll_read(r.as_mut(), cx, buf),
        }
    }
    fn poll_read_uninit(&mut self, cx: &mut Context<'_>, buf: &mut [MaybeUninit<u8>]) -> Poll<io::Result<usize>> {
        match self {
            AsyncSut::Whole(s) => s.as_mut().poll_read_uninit(cx, buf),
            AsyncSut::Split(r, _) => r.as_mut().poll_read_uninit(cx, buf),
        }
    }
    fn poll_fill_buf(&mut self, cx: &mut Context<'_>) -> Poll<io::Result<Vec<u8>>> {
        use futures_util::AsyncBufRead as FBufRead;
        match self {
            AsyncSut::Whole(s) => FBufRead::poll_fill_buf(s.as_mut(), cx).map(|r| r.map(|b| b.to_vec())),
            AsyncSut::Split(r, _) => FBufRead::poll_fill_buf(r.as_mut(), cx).map(|r| r.map(|b| b.to_vec())),
        }
    }
    fn consume(&mut self, n: usize) {
        use futures_util::AsyncBufRead as FBufRead;
        match self {
            AsyncSut::Whole(s) => FBufRead::consume(s.as_mut(), n),
            AsyncSut::Split(r, _) => FBufRead::consume(r.as_mut(), n),
        }
    }
    fn poll_write(&mut self, cx: &mut Context<'_>, data: &[u8]) -> Poll<io::Result<usize>> {
        use futures_util::AsyncWrite as FWrite;
        match self {
            AsyncSut::Whole(s) => FWrite::poll_write(s.as_mut(), cx, data),
            AsyncSut::Split(_, w) => FWrite::poll_write(w.as_mut(), cx, data),
        }
    }
    fn poll_flush(&mut self, cx: &mut Context<'_>) -> Poll<io::Result<()>> {
        use futures_util::AsyncWrite as FWrite;
        match self {
            AsyncSut::Whole(s) => FWrite::poll_flush(s.as_mut(), cx),
            AsyncSut::Split(_, w) => FWrite::poll_flush(w.as_mut(), cx),
        }
    }
    fn poll_close(&mut self, cx: &mut Context<'_>) -> Poll<io::Result<()>> {
        use futures_util::AsyncWrite as FWrite;
        match self {
            AsyncSut::Whole(s) => FWrite::poll_close(s.as_mut(), cx),
            AsyncSut::Split(_, w) => FWrite::poll_close(w.as_mut(), cx),
        }
    }
}

enum Sut {
    None,
    /// consumed by `into_parts`
    Gone,
    Sync(SyncSut),
    Async(AsyncSut),
}

/// `usize` constants of the constructors without explicit limits
const DEFAULT_BUF_SIZE: usize = 8 * 1024;
const DEFAULT_MAX_BUFFER: usize = 64 * 1024 * 1024;

/// Allocator that counts allocations while armed and leaves the process (exit code 42) once a budget is used up.
/// Every iteration of the retry loops of the poll entry points boxes a new future, so "the call never returns"
/// shows up as an unbounded number of allocations — independent of machine load, unlike a timer.
struct CountingAlloc;
static ARMED: std::sync::atomic::AtomicBool = std::sync::atomic::AtomicBool::new(false);
static ALLOCS: std::sync::atomic::AtomicUsize = std::sync::atomic::AtomicUsize::new(0);
const ALLOC_BUDGET: usize = 3_000;

unsafe impl std::alloc::GlobalAlloc for CountingAlloc {
    unsafe fn alloc(&self, layout: std::alloc::Layout) -> *mut u8 {
        use std::sync::atomic::Ordering::Relaxed;
        if ARMED.load(Relaxed) && ALLOCS.fetch_add(1, Relaxed) > ALLOC_BUDGET {
            unsafe { libc::_exit(42) };
        }
        unsafe { std::alloc::System.alloc(layout) }
    }

    unsafe fn dealloc(&self, ptr: *mut u8, layout: std::alloc::Layout) {
        unsafe { std::alloc::System.dealloc(ptr, layout) }
    }
}

#[global_allocator]
static GLOBAL: CountingAlloc = CountingAlloc;

/// run `f` in a forked copy of this (single-threaded) process with an allocation budget (and a 60 s alarm as a
/// backstop): true = it did not return (the call spins), false = it returned or panicked
fn would_spin(f: impl FnOnce()) -> bool {
    unsafe {
        let pid = libc::fork();
        assert!(pid >= 0, "fork");
        if pid == 0 {
            libc::alarm(60);
            ARMED.store(true, std::sync::atomic::Ordering::Relaxed);
            let _ = catch(f);
            libc::_exit(0);
        }
        let mut status = 0;
        libc::waitpid(pid, &mut status, 0);
        libc::WIFSIGNALED(status) || (libc::WIFEXITED(status) && libc::WEXITSTATUS(status) == 42)
    }
}

/// implementation-only bookkeeping for the monitors
struct Mon {
    base: usize,
    max: usize,
    /// bytes handed to the caller by read / rbu / consume
    taken: Vec<u8>,
    /// bytes for which write returned Ok
    accepted: Vec<u8>,
    /// a buffer was dropped by a cancelled future or a panic: the pipe is allowed to be cut
    rlost: bool,
    wlost: bool,
    /// per half, per entry point: task whose latest call of that entry point returned Pending
    rowed: [Option<usize>; 3],
    wowed: [Option<usize>; 3],
    eof_reported: bool,
    /// the last inner write-side call was a `flush()` that returned Pending (the flush future is parked there)
    flush_parked: bool,
    /// bytes were accepted by poll_write while `flush_parked` and have not reached the inner stream yet
    stale_bytes: bool,
    /// a poll_close returned Ready(Ok) before (later writes are a caller error)
    closed_ok: bool,
}

struct World {
    sut: Sut,
    sh: Shared,
    mon: Mon,
    wakers: Vec<Waker>,
    is_async: bool,
    /// a call on this half was found to spin (never return): later calls on the half are skipped
    rpoison: bool,
    wpoison: bool,
    /// a call on this half panicked earlier (calls are still made: the sticky post-panic behaviour is compared)
    rpanicked: bool,
    wpanicked: bool,
    kind: String,
}

/// which half an operation works on (0 = read, 1 = write, 2 = neither)
fn half_of(op: &str) -> u8 {
    match op {
        "read" | "rbu" | "fillbuf" | "consume" | "fill" | "pr" | "pru" | "pfb" | "co" => 0,
        "write" | "wflush" | "pw" | "pfl" | "pcl" => 1,
        "rewrap" => 3,
        _ => 2,
    }
}

fn new_world() -> World {
    World {
        sut: Sut::None,
        sh: Rc::new(RefCell::new(Sh::default())),
        mon: Mon {
            base: 0,
            max: 0,
            taken: vec![],
            accepted: vec![],
            rlost: false,
            wlost: false,
            rowed: [None; 3],
            wowed: [None; 3],
            eof_reported: false,
            flush_parked: false,
            stale_bytes: false,
            closed_ok: false,
        },
        wakers: (0..4).map(|i| Waker::from(Arc::new(TaskWaker(i)))).collect(),
        is_async: false,
        rpoison: false,
        wpoison: false,
        rpanicked: false,
        wpanicked: false,
        kind: String::new(),
    }
}

/// poll `fut` at most `budget` times with the driver waker; `None` = still pending, future dropped
fn drive<F: Future>(fut: F, budget: usize) -> Option<F::Output> {
    let mut fut = std::pin::pin!(fut);
    let waker = Waker::from(Arc::new(TaskWaker(DRIVER_TASK)));
    let mut cx = Context::from_waker(&waker);
    for _ in 0..budget {
        if let Poll::Ready(v) = fut.as_mut().poll(&mut cx) {
            return Some(v);
        }
    }
    None
}

/// `R <init> <progress> <eof> W <init> <progress>` from the derived Debug of the real SyncStream
fn sync_state(s: &SyncSut) -> Option<(usize, usize, bool, usize, usize)> {
    let d = s.debug()?;
    let nums = |key: &str| -> Vec<usize> {
        d.match_indices(key)
            .map(|(i, _)| {
                d[i + key.len()..].chars().take_while(|c| c.is_ascii_digit()).collect::<String>().parse().unwrap()
            })
            .collect()
    };
    let init = nums("init: ");
    let prog = nums("progress: ");
    let eof = d.contains("eof: true");
    Some((init[0], prog[0], eof, init[1], prog[1]))
}

fn list<T: ToString>(v: &[T]) -> String {
    if v.is_empty() { "-".into() } else { v.iter().map(|x| x.to_string()).collect::<Vec<_>>().join(",") }
}

impl World {
    fn exec_line(&mut self, line: &str, ex: &mut Exec) -> String {
        let w: Vec<&str> = line.split_whitespace().collect();
        let half = half_of(w[0]);
        if (half == 0 && self.rpoison) || (half == 1 && self.wpoison) {
            return "skip".into();
        }
        self.sh.borrow_mut().log.clear();
        self.sh.borrow_mut().revent = false;
        self.sh.borrow_mut().wevent = false;
        drain_wakes();
        let acc_before = self.mon.accepted.len();
        let stale_before = self.mon.stale_bytes;
        let (rlost_before, wlost_before) = (self.mon.rlost, self.mon.wlost);
        let rowed_before = self.mon.rowed;
        let wowed_before = self.mon.wowed;
        let res = match w[0] {
            "sync" | "async" | "ssplit" | "asplit" | "scap" | "acap" | "arw" | "snew" | "anew" | "arwnew" => {
                let base: usize = w[1].parse().unwrap();
                let max: usize = w[2].parse().unwrap();
                *self = new_world();
                self.kind = w[0].to_string();
                self.mon.base = base;
                self.mon.max = max;
                {
                    let mut s = self.sh.borrow_mut();
                    s.rscript = parse_rscript(w[3]);
                    s.wscript = parse_wscript(w[4]);
                    s.style = match w.get(5).copied() {
                        None | Some("wake=take") => WakeStyle::Take,
                        Some("wake=ref") => WakeStyle::Ref,
                        Some("wake=clone") => WakeStyle::Clone,
                        Some("wake=keep") => WakeStyle::Keep,
                        Some(o) => panic!("wake style {o}"),
                    };
                    ex.tag(format!("wake-style:{:?}", s.style));
                }
                ex.tag(format!("cfg:{}:base={base}:max={max}", w[0]));
                self.construct(base, max);
                "ok".to_string()
            }
            _ => match &mut self.sut {
                Sut::None => panic!("operation before constructor: {line}"),
                Sut::Gone => "gone".to_string(),
                Sut::Sync(_) => self.sync_op(&w, ex),
                Sut::Async(_) => {
                    // the retry loops of the poll entry points can spin for ever in two situations only
                    // (proved: Props.C12.async_read_terminates / async_write_terminates): after an earlier
                    // panic on the half, and `poll_write` with `max_buffer_size = 0`. There the call is first
                    // tried in a forked copy of the process under a CPU-time limit.
                    // (read half: additionally only once the inner reader has returned 0, i.e. `eof` may be latched;
                    // write half with limit 0: only a `poll_write` of a non-empty buffer)
                    let zero_read = self.sh.borrow().zero_reads > 0;
                    let risky = (half == 0 && self.rpanicked && zero_read && w[0] != "co")
                        || (half == 1 && self.wpanicked)
                        || (self.mon.max == 0 && w[0] == "pw" && w[2] != "-");
                    if risky {
                        ex.tag("forked");
                    }
                    if risky && would_spin(|| {
                        let mut scratch = Exec::new();
                        self.async_op(&w, &mut scratch);
                    }) {
                        ex.tag(format!("spin:{}", w[0]));
                        if self.mon.max == 0 && half == 1 && !self.wpanicked {
                            ex.fail(
                                "F121:asyncstream-max0-write-spins",
                                format!("`{line}` never returns: max_buffer_size=0 base={}", self.mon.base),
                            );
                        }
                        if half == 0 {
                            self.rpoison = true;
                        } else {
                            self.wpoison = true;
                        }
                        return "spin".into();
                    }
                    self.async_op(&w, ex)
                }
            },
        };
        if res == "panic" {
            // panics are only legitimate after the caller broke a contract: `consume(amt)` beyond what
            // `fill_buf` returned, or reuse of a sync stream whose fill/flush future was dropped while
            // Pending; on the async write half only as the debug_assert that finding F15 trips
            let expected = match w[0] {
                "consume" | "co" => true,
                "fill" => rlost_before,
                "wflush" => wlost_before,
                "pw" | "pfl" | "pcl" => stale_before,
                _ => false,
            } || (half == 0 && (self.rpanicked || rlost_before))
                || (half == 1 && (self.wpanicked || wlost_before));
            if !expected {
                ex.fail("C12:unexpected-panic", format!("`{line}` panicked without a preceding contract violation"));
            }
            if half == 0 {
                self.rpanicked = true;
            } else if half == 1 {
                self.wpanicked = true;
            }
        }
        let woken = drain_wakes();
        let (revent, wevent, log) = {
            let s = self.sh.borrow();
            (s.revent, s.wevent, s.log.clone())
        };
        // F15 bookkeeping (implementation only): is the flush future parked in the inner flush(),
        // and were bytes accepted meanwhile
        if self.is_async && half == 1 {
            if self.mon.flush_parked && res.starts_with("ready ok ") && w[0] == "pw" && res != "ready ok 0" {
                self.mon.stale_bytes = true;
            }
            if let Some(last) = log.last() {
                self.mon.flush_parked = last == "fP";
            }
            if self.sh.borrow().sent.len() == self.mon.accepted.len() {
                self.mon.stale_bytes = false;
            }
        }
        let mut out = format!("{res} io={} wk={}", list(&log), list(&woken));
        if let Sut::Sync(s) = &self.sut {
            match sync_state(s) {
                Some((ri, rp, eof, wi, wp)) => {
                    out.push_str(&format!(" st={ri},{rp},{},{wi},{wp}", eof as u8));
                    self.limit_monitor(ri, wi, wp, ex);
                }
                None => out.push_str(" st=?"),
            }
        }
        self.pipe_monitor(line, ex);
        if log.iter().any(|l| l == "s") && !self.mon.wlost {
            let at = self.sh.borrow().sent_at_shutdown.unwrap_or(0);
            // a shutdown completes before anything else is accepted in the same call
            if at != acc_before {
                ex.fail(
                    if stale_before { "F15:asyncstream-stale-flush" } else { "C12:close-before-flush" },
                    format!(
                        "after `{line}`: the inner stream was shut down when only {at} of {} accepted bytes had reached it (bytes accepted while the flush future was parked in the inner flush(): {})",
                        acc_before,
                        stale_before
                    ),
                );
            }
        }
        if self.is_async {
            self.wake_monitor(line, revent, wevent, &woken, rowed_before, wowed_before, ex);
        }
        out
    }

    fn construct(&mut self, base: usize, max: usize) {
        let inner = || Inner(self.sh.clone());
        let kind = self.kind.clone();
        match kind.as_str() {
            "scap" | "acap" | "arw" => assert_eq!(max, DEFAULT_MAX_BUFFER, "{kind}: max must be the default"),
            "snew" | "anew" | "arwnew" => assert_eq!((base, max), (DEFAULT_BUF_SIZE, DEFAULT_MAX_BUFFER), "{kind}: defaults"),
            _ => {}
        }
        self.is_async = kind.starts_with('a');
        self.sut = match kind.as_str() {
            "sync" => Sut::Sync(SyncSut::Whole(Box::new(SyncStream::with_limits(base, max, inner())))),
            "scap" => Sut::Sync(SyncSut::Whole(Box::new(SyncStream::with_capacity(base, inner())))),
            "snew" => Sut::Sync(SyncSut::Whole(Box::new(SyncStream::new(inner())))),
            "ssplit" => {
                let (r, w) = Splittable::split(SyncStream::with_limits(base, max, (inner(), inner())));
                Sut::Sync(SyncSut::Split(Box::new(r), Box::new(w)))
            }
            "async" => Sut::Async(AsyncSut::Whole(Box::pin(AsyncStream::with_limits(base, max, (inner(), inner()))))),
            "acap" => Sut::Async(AsyncSut::Whole(Box::pin(AsyncStream::with_capacity(base, (inner(), inner()))))),
            "anew" => Sut::Async(AsyncSut::Whole(Box::pin(AsyncStream::new((inner(), inner()))))),
            "asplit" => {
                let (r, w) = Splittable::split(AsyncStream::with_limits(base, max, (inner(), inner())));
                Sut::Async(AsyncSut::Split(Box::pin(r), Box::pin(w)))
            }
            "arw" => Sut::Async(AsyncSut::Split(
                Box::pin(AsyncReadStream::with_capacity(base, inner())),
                Box::pin(AsyncWriteStream::with_capacity(base, inner())),
            )),
            "arwnew" => Sut::Async(AsyncSut::Split(
                Box::pin(AsyncReadStream::new(inner())),
                Box::pin(AsyncWriteStream::new(inner())),
            )),
            k => panic!("constructor {k}"),
        };
    }

    // ------------------------------------------------------------ sync stream operations

    fn sync_op(&mut self, w: &[&str], ex: &mut Exec) -> String {
        let Sut::Sync(s) = &mut self.sut else { unreachable!() };
        let mon = &mut self.mon;
        match w[0] {
            "read" | "rbu" => {
                let n: usize = w[1].parse().unwrap();
                let r = if w[0] == "read" {
                    let mut buf = vec![0u8; n];
                    catch(|| s.read(&mut buf).map(|k| buf[..k].to_vec()))
                } else {
                    let mut buf = vec![MaybeUninit::<u8>::uninit(); n];
                    catch(|| {
                        s.read_buf_uninit(&mut buf)
                            .map(|k| buf[..k].iter().map(|b| unsafe { b.assume_init() }).collect::<Vec<u8>>())
                    })
                };
                match r {
                    Ok(Ok(b)) => {
                        mon.taken.extend_from_slice(&b);
                        if b.is_empty() && n > 0 {
                            mon.eof_reported = true;
                            ex.tag("read:eof");
                        } else {
                            ex.tag("read:ok");
                        }
                        format!("ok {}", hex(&b))
                    }
                    Ok(Err(e)) => {
                        ex.tag(format!("read:{}", err_kind(&e)));
                        format!("err {}", err_kind(&e))
                    }
                    Err(_) => {
                        mon.rlost = true;
                        "panic".into()
                    }
                }
            }
            "fillbuf" => match catch(|| s.fill_buf().map(|b| b.to_vec())) {
                Ok(Ok(b)) => {
                    if b.is_empty() {
                        mon.eof_reported = true;
                    }
                    format!("ok {}", hex(&b))
                }
                Ok(Err(e)) => format!("err {}", err_kind(&e)),
                Err(_) => {
                    mon.rlost = true;
                    "panic".into()
                }
            },
            "consume" => {
                let n: usize = w[1].parse().unwrap();
                // what the caller is about to consume (fill_buf is pure when it succeeds)
                let avail = catch(|| s.fill_buf().map(|b| b.to_vec()).unwrap_or_default()).unwrap_or_default();
                match catch(|| s.consume(n)) {
                    Ok(()) => {
                        let k = n.min(avail.len());
                        mon.taken.extend_from_slice(&avail[..k]);
                        ex.tag("consume:ok");
                        format!("ok {}", hex(&avail[..k]))
                    }
                    Err(_) => {
                        // BufRead contract violated by the caller (amt > available) or buffer lent
                        mon.rlost = true;
                        ex.tag("consume:panic");
                        "panic".into()
                    }
                }
            }
            "write" => {
                let data = unhex(w[1]);
                match catch(|| s.write(&data)) {
                    Ok(Ok(n)) => {
                        mon.accepted.extend_from_slice(&data[..n]);
                        ex.tag(if n < data.len() { "write:short" } else { "write:ok" });
                        format!("ok {n}")
                    }
                    Ok(Err(e)) => {
                        ex.tag(format!("write:{}", err_kind(&e)));
                        format!("err {}", err_kind(&e))
                    }
                    Err(_) => {
                        mon.wlost = true;
                        "panic".into()
                    }
                }
            }
            "flush" => match catch(|| s.flush()) {
                Ok(Ok(())) => "ok".into(),
                Ok(Err(e)) => format!("err {}", err_kind(&e)),
                Err(_) => "panic".into(),
            },
            "fill" => {
                let budget: usize = w[1].parse().unwrap();
                match catch(|| s.fill(budget)) {
                    Ok(Some(Ok(n))) => {
                        ex.tag(if n == 0 { "fill:zero" } else { "fill:ok" });
                        format!("ok {n}")
                    }
                    Ok(Some(Err(e))) => {
                        // a refill is refused with the limit report only when the unread bytes have reached the limit
                        // (implementation only: unread = delivered by the inner reader - handed to the caller)
                        let unread = self.sh.borrow().delivered.len().saturating_sub(mon.taken.len());
                        if e.kind() == io::ErrorKind::OutOfMemory && !mon.rlost && unread < mon.max {
                            ex.fail(
                                "C12:spurious-limit-report",
                                format!("fill_read_buf refused with OutOfMemory but only {unread} unread bytes are buffered (limit {})", mon.max),
                            );
                        }
                        ex.tag(format!("fill:{}", err_kind(&e)));
                        format!("err {}", err_kind(&e))
                    }
                    Ok(None) => {
                        mon.rlost = true;
                        ex.tag("fill:cancel");
                        "cancel".into()
                    }
                    Err(_) => {
                        mon.rlost = true;
                        ex.tag("fill:panic");
                        "panic".into()
                    }
                }
            }
            "wflush" => {
                let budget: usize = w[1].parse().unwrap();
                match catch(|| s.wflush(budget)) {
                    Ok(Some(Ok(n))) => {
                        ex.tag("wflush:ok");
                        let sent = self.sh.borrow().sent.clone();
                        if !mon.wlost && sent != mon.accepted {
                            ex.fail(
                                "C12:flush-incomplete",
                                format!("flush_write_buf returned Ok but sent={} accepted={}", hex(&sent), hex(&mon.accepted)),
                            );
                        }
                        let wire = self.sh.borrow().wire;
                        if !mon.wlost && wire != sent.len() {
                            ex.fail(
                                "C12:flush-not-committed",
                                format!("flush_write_buf returned Ok but the inner stream's flush() has committed only {wire} of the {} bytes it accepted", sent.len()),
                            );
                        }
                        format!("ok {n}")
                    }
                    Ok(Some(Err(e))) => {
                        ex.tag(format!("wflush:{}", err_kind(&e)));
                        format!("err {}", err_kind(&e))
                    }
                    Ok(None) => {
                        mon.wlost = true;
                        ex.tag("wflush:cancel");
                        "cancel".into()
                    }
                    Err(_) => {
                        mon.wlost = true;
                        ex.tag("wflush:panic");
                        "panic".into()
                    }
                }
            }
            "st" => {
                let eof = s.is_eof();
                match catch(|| s.has_pending_write()) {
                    Ok(p) => format!("eof={} pw={}", eof as u8, p as u8),
                    Err(_) => format!("eof={} pw=panic", eof as u8),
                }
            }
            "parts" => {
                let Sut::Sync(s) = std::mem::replace(&mut self.sut, Sut::None) else { unreachable!() };
                let rest = s.into_parts();
                let delivered = self.sh.borrow().delivered.clone();
                if !self.mon.rlost {
                    let mut all = self.mon.taken.clone();
                    all.extend_from_slice(&rest);
                    if all != delivered {
                        ex.fail(
                            "C12:read-fifo",
                            format!("taken ++ remaining = {} but the inner stream delivered {}", hex(&all), hex(&delivered)),
                        );
                    }
                }
                self.sut = Sut::Gone;
                self.mon.taken = delivered;
                format!("ok {}", hex(&rest))
            }
            "rewrap" => {
                // into_parts, hand the unread bytes to the caller, wrap the inner stream again
                let Sut::Sync(s) = std::mem::replace(&mut self.sut, Sut::None) else { unreachable!() };
                let rest = s.into_parts();
                let (delivered, sent) = {
                    let sh = self.sh.borrow();
                    (sh.delivered.clone(), sh.sent.clone())
                };
                if !self.mon.rlost {
                    let mut all = self.mon.taken.clone();
                    all.extend_from_slice(&rest);
                    if all != delivered {
                        ex.fail(
                            "C12:read-fifo",
                            format!("rewrap: taken ++ remaining = {} but the inner stream delivered {}", hex(&all), hex(&delivered)),
                        );
                    }
                }
                {
                    let mut sh = self.sh.borrow_mut();
                    sh.rparked = None;
                    sh.wparked = None;
                }
                self.mon.taken = delivered;
                // bytes accepted but not yet flushed are discarded by into_parts (documented for into_inner)
                self.mon.accepted = sent;
                self.mon.rlost = false;
                self.mon.wlost = false;
                self.rpanicked = false;
                self.wpanicked = false;
                self.construct(self.mon.base, self.mon.max);
                ex.tag("rewrap");
                format!("ok {}", hex(&rest))
            }
            _ => panic!("bad sync op {w:?}"),
        }
    }

    // ------------------------------------------------------------ async stream operations

    fn async_op(&mut self, w: &[&str], ex: &mut Exec) -> String {
        let Sut::Async(s) = &mut self.sut else { unreachable!() };
        let mon = &mut self.mon;
        let task = |i: usize| -> usize { w[i].parse::<usize>().unwrap() % 4 };
        fn show<T>(p: Result<Poll<io::Result<T>>, String>, f: impl FnOnce(T) -> String) -> (String, u8) {
            match p {
                Ok(Poll::Pending) => ("pending".into(), 0),
                Ok(Poll::Ready(Ok(v))) => (format!("ready ok{}", f(v)), 1),
                Ok(Poll::Ready(Err(e))) => (format!("ready err {}", err_kind(&e)), 2),
                Err(_) => ("panic".into(), 3),
            }
        }
        match w[0] {
            "pr" | "pru" => {
                let t = task(1);
                let n: usize = w[2].parse().unwrap();
                let waker = self.wakers[t].clone();
                let mut cx = Context::from_waker(&waker);
                let entry = if w[0] == "pr" { 0 } else { 1 };
                let r = if entry == 0 {
                    let mut buf = vec![0u8; n];
                    catch(|| s.poll_read(&mut cx, &mut buf).map(|r| r.map(|k| buf[..k].to_vec())))
                } else {
                    let mut buf = vec![MaybeUninit::<u8>::uninit(); n];
                    catch(|| {
                        s.poll_read_uninit(&mut cx, &mut buf).map(|r| {
                            r.map(|k| buf[..k].iter().map(|b| unsafe { b.assume_init() }).collect::<Vec<u8>>())
                        })
                    })
                };
                if let Ok(Poll::Ready(Ok(b))) = &r {
                    mon.taken.extend_from_slice(b);
                    if b.is_empty() && n > 0 {
                        mon.eof_reported = true;
                    }
                }
                let (txt, k) = show(r, |b| format!(" {}", hex(&b)));
                mon.rowed[entry] = if k == 0 { Some(t) } else { None };
                if k == 3 {
                    mon.rlost = true;
                }
                ex.tag(format!("{}:{}", w[0], txt.split(' ').take(2).collect::<Vec<_>>().join("-")));
                txt
            }
            "pfb" => {
                let t = task(1);
                let waker = self.wakers[t].clone();
                let mut cx = Context::from_waker(&waker);
                let r = catch(|| s.poll_fill_buf(&mut cx));
                if let Ok(Poll::Ready(Ok(b))) = &r {
                    if b.is_empty() {
                        mon.eof_reported = true;
                    }
                }
                let (txt, k) = show(r, |b| format!(" {}", hex(&b)));
                mon.rowed[2] = if k == 0 { Some(t) } else { None };
                if k == 3 {
                    mon.rlost = true;
                }
                ex.tag(format!("pfb:{}", txt.split(' ').take(2).collect::<Vec<_>>().join("-")));
                txt
            }
            "co" => {
                let n: usize = w[1].parse().unwrap();
                // peek what is available: poll_fill_buf would start I/O, so keep an own view instead:
                // available = delivered - taken (exact while the pipe is intact)
                let avail: Vec<u8> = {
                    let sh = self.sh.borrow();
                    sh.delivered[mon.taken.len().min(sh.delivered.len())..].to_vec()
                };
                match catch(|| s.consume(n)) {
                    Ok(()) => {
                        let k = n.min(avail.len());
                        mon.taken.extend_from_slice(&avail[..k]);
                        ex.tag("co:ok");
                        format!("ok {}", hex(&avail[..k]))
                    }
                    Err(_) => {
                        mon.rlost = true;
                        ex.tag("co:panic");
                        "panic".into()
                    }
                }
            }
            "pw" => {
                let t = task(1);
                let data = unhex(w[2]);
                let waker = self.wakers[t].clone();
                let mut cx = Context::from_waker(&waker);
                let r = catch(|| s.poll_write(&mut cx, &data));
                if let Ok(Poll::Ready(Ok(n))) = &r {
                    mon.accepted.extend_from_slice(&data[..*n]);
                }
                let (txt, k) = show(r, |n| format!(" {n}"));
                mon.wowed[0] = if k == 0 { Some(t) } else { None };
                if k == 3 {
                    mon.wlost = true;
                }
                ex.tag(format!("pw:{}", txt.split(' ').take(2).collect::<Vec<_>>().join("-")));
                txt
            }
            "pfl" | "pcl" => {
                let t = task(1);
                let waker = self.wakers[t].clone();
                let mut cx = Context::from_waker(&waker);
                let entry = if w[0] == "pfl" { 1 } else { 2 };
                let r = if entry == 1 {
                    catch(|| s.poll_flush(&mut cx))
                } else {
                    catch(|| s.poll_close(&mut cx))
                };
                let ok = matches!(r, Ok(Poll::Ready(Ok(()))));
                let (txt, k) = show(r, |_| String::new());
                mon.wowed[entry] = if k == 0 { Some(t) } else { None };
                if k == 3 {
                    mon.wlost = true;
                }
                if ok && !mon.wlost && !(entry == 2 && mon.closed_ok) {
                    let sh = self.sh.borrow();
                    if sh.wire != sh.sent.len() {
                        let what = if entry == 1 { "poll_flush" } else { "poll_close" };
                        ex.fail(
                            "C12:flush-not-committed",
                            format!(
                                "{what} returned Ready(Ok) but the inner stream's flush()/shutdown() has committed only {} of the {} bytes it accepted (a failed inner flush() was not retried)",
                                sh.wire,
                                sh.sent.len()
                            ),
                        );
                    }
                }
                if ok && !mon.wlost {
                    let sh = self.sh.borrow();
                    if sh.sent != mon.accepted {
                        let what = if entry == 1 { "poll_flush" } else { "poll_close" };
                        // the check runs before this call's bookkeeping: `stale_bytes` describes the state
                        // in which the call was made
                        ex.fail(
                            if mon.stale_bytes { "F15:asyncstream-stale-flush" } else { "C12:flush-incomplete" },
                            format!(
                                "{what} returned Ready(Ok) but only {} of {} accepted bytes reached the inner stream (bytes accepted while the flush future was parked in the inner flush(): {})",
                                sh.sent.len(),
                                mon.accepted.len(),
                                mon.stale_bytes
                            ),
                        );
                    }
                }
                if ok && entry == 2 {
                    mon.closed_ok = true;
                }
                ex.tag(format!("{}:{}", w[0], txt.split(' ').take(2).collect::<Vec<_>>().join("-")));
                txt
            }
            _ => panic!("bad async op {w:?}"),
        }
    }

    // ------------------------------------------------------------ monitors (implementation only)

    /// lossless FIFO in both directions, EOF only when the inner stream ended
    fn pipe_monitor(&mut self, line: &str, ex: &mut Exec) {
        let sh = self.sh.borrow();
        let m = &mut self.mon;
        if !sh.delivered.starts_with(&m.taken) {
            ex.fail(
                "C12:read-fifo",
                format!("after `{line}`: returned {} is not a prefix of delivered {}", hex(&m.taken), hex(&sh.delivered)),
            );
            m.taken = sh.delivered.clone();
        }
        if !m.accepted.starts_with(&sh.sent) {
            ex.fail(
                "C12:write-fifo",
                format!("after `{line}`: sent {} is not a prefix of accepted {}", hex(&sh.sent), hex(&m.accepted)),
            );
            m.accepted = sh.sent.clone();
        }
        if m.eof_reported {
            m.eof_reported = false;
            if !sh.genuine_eof {
                ex.fail(
                    "F11b:syncstream-base0-eof",
                    format!(
                        "after `{line}`: adapter reported end of stream but the inner stream never did (it only returned 0 for a zero-length buffer); base={} max={} undelivered items={}",
                        m.base,
                        m.max,
                        sh.rscript.len()
                    ),
                );
            } else if !m.rlost && m.taken != sh.delivered {
                ex.fail(
                    "C12:read-eof-short",
                    format!("after `{line}`: EOF reported with returned {} delivered {}", hex(&m.taken), hex(&sh.delivered)),
                );
            }
        }
        // limits, from the pipe's point of view (both adapters)
        let buffered = sh.delivered.len() - m.taken.len().min(sh.delivered.len());
        if !m.rlost && buffered > m.max {
            if buffered + 1 > m.max + m.base {
                ex.fail("C12:read-limit-bound", format!("buffered={buffered} base={} max={}", m.base, m.max));
            } else {
                ex.fail("F11a:syncstream-limit-exceeded", format!("read side buffered={buffered} base={} max={}", m.base, m.max));
            }
        }
        let pending = m.accepted.len() - sh.sent.len().min(m.accepted.len());
        if !m.wlost && pending > m.max {
            ex.fail("C12:write-limit", format!("pending={pending} max={}", m.max));
        }
    }

    /// the real buffer lengths of the sync stream
    fn limit_monitor(&mut self, rinit: usize, winit: usize, wprog: usize, ex: &mut Exec) {
        let m = &self.mon;
        if rinit > m.max && rinit + 1 > m.max + m.base {
            ex.fail("C12:read-limit-bound", format!("read Vec len={rinit} base={} max={}", m.base, m.max));
        }
        if winit > m.max {
            ex.fail(
                "F11c:syncstream-write-vec-exceeds-limit",
                format!("write Vec len={winit} progress={wprog} base={} max={}", m.base, m.max),
            );
        }
    }

    #[allow(clippy::too_many_arguments)]
    fn wake_monitor(
        &mut self,
        line: &str,
        revent: bool,
        wevent: bool,
        woken: &[usize],
        rowed_before: [Option<usize>; 3],
        wowed_before: [Option<usize>; 3],
        ex: &mut Exec,
    ) {
        // (1) a completion of the in-flight inner future wakes everybody who was told Pending
        for (half, ev, before) in [("read", revent, rowed_before), ("write", wevent, wowed_before)] {
            if ev {
                ex.tag(format!("wake:{half}:{}", woken.len()));
                for (e, t) in before.iter().enumerate() {
                    if let Some(t) = t {
                        if !woken.contains(t) {
                            ex.fail(
                                "C12:lost-wake",
                                format!("after `{line}`: {half} half completed, woke {woken:?}, but task {t} (entry {e}) was Pending"),
                            );
                        }
                    }
                }
            }
        }
        // obligations discharged by the event, except the one the current call created afterwards
        let w0 = line.split_whitespace().next().unwrap();
        let cur = match w0 {
            "pr" => Some((0, 0)),
            "pru" => Some((0, 1)),
            "pfb" => Some((0, 2)),
            "pw" => Some((1, 0)),
            "pfl" => Some((1, 1)),
            "pcl" => Some((1, 2)),
            _ => None,
        };
        if revent {
            for e in 0..3 {
                if cur != Some((0, e)) {
                    self.mon.rowed[e] = None;
                }
            }
        }
        if wevent {
            for e in 0..3 {
                if cur != Some((1, e)) {
                    self.mon.wowed[e] = None;
                }
            }
        }
        // (2) whoever is still owed a wake is in the waker set the parked inner future holds: probe it
        let (rp, wp) = {
            let s = self.sh.borrow();
            (s.rparked.clone(), s.wparked.clone())
        };
        for (half, parked, owed) in [("read", rp, self.mon.rowed), ("write", wp, self.mon.wowed)] {
            if (half == "read" && self.mon.rlost) || (half == "write" && self.mon.wlost) {
                continue;
            }
            let set: Vec<usize> = match &parked {
                Some(w) => {
                    w.wake_by_ref();
                    drain_wakes()
                }
                None => vec![],
            };
            for (e, t) in owed.iter().enumerate() {
                if let Some(t) = t {
                    if !set.contains(t) {
                        ex.fail(
                            "C12:lost-wake",
                            format!(
                                "after `{line}`: task {t} got Pending from {half} entry {e} but the parked inner future would wake only {set:?} (parked={})",
                                parked.is_some()
                            ),
                        );
                    }
                }
            }
        }
    }
}

fn exec(case: &Case) -> Exec {
    let mut ex = Exec::new();
    let mut world = new_world();
    let mut ops = 0;
    for line in &case.lines {
        let out = match catch(|| world.exec_line(line, &mut ex)) {
            Ok(o) => o,
            Err(m) => format!("harness-panic {m}"),
        };
        ops += 1;
        ex.out.push(out);
    }
    let s = world.sh.borrow();
    // non-trivial: bytes moved in at least one direction and at least one would-block / pending / error
    ex.nontrivial = ops >= 4
        && (!s.delivered.is_empty() || !s.sent.is_empty())
        && ex.tags.iter().any(|t| t.ends_with(":wb") || t.contains("pending") || t.contains("err") || t.contains("other"));
    ex
}

// ---------------------------------------------------------------- generators

fn gen_rscript(rng: &mut Rng, hostile: bool) -> (String, usize) {
    let n = rng.below(9) as usize;
    let mut items = vec![];
    let mut total = 0;
    let mut next = 1u8;
    for _ in 0..n {
        let r = rng.below(100);
        if r < 55 {
            let k = *rng.pick(&[1usize, 1, 2, 3, 5, 8, 13, 20, 40]);
            let d: Vec<u8> = (0..k)
                .map(|_| {
                    let b = next;
                    next = next.wrapping_add(1);
                    if next == 0 {
                        next = 1;
                    }
                    b
                })
                .collect();
            total += k;
            items.push(format!("d{}", hex(&d)));
        } else if r < 80 {
            items.push("p".into());
        } else if r < 90 {
            items.push("e".into());
        } else if hostile || r < 93 {
            items.push("z".into());
        } else {
            items.push("p".into());
        }
    }
    (if items.is_empty() { ".".into() } else { items.join(",") }, total)
}

fn gen_wscript(rng: &mut Rng) -> String {
    let n = rng.below(10) as usize;
    let mut items = vec![];
    for _ in 0..n {
        let r = rng.below(100);
        if r < 50 {
            items.push(format!("w{}", rng.pick(&[0usize, 1, 1, 2, 3, 5, 8, 100])));
        } else if r < 80 {
            items.push("p".into());
        } else {
            items.push("e".into());
        }
    }
    if items.is_empty() { ".".into() } else { items.join(",") }
}

/// constructor and limits: every public constructor of the compat types, whole and split, with base capacities
/// 0 / 1 / small / 4 KiB / default / 64 KiB and limits 0 / 1 / small / default (64 MiB)
fn gen_config(rng: &mut Rng, is_async: bool) -> (&'static str, usize, usize) {
    let r = rng.below(100);
    if r < 6 {
        let base = *rng.pick(&[0usize, 1, 3, 16, 4096, 65536]);
        (if is_async { *rng.pick(&["acap", "arw"]) } else { "scap" }, base, DEFAULT_MAX_BUFFER)
    } else if r < 9 {
        (if is_async { *rng.pick(&["anew", "arwnew"]) } else { "snew" }, DEFAULT_BUF_SIZE, DEFAULT_MAX_BUFFER)
    } else {
        let base = *rng.pick(&[0usize, 1, 3, 16, 16, 3, 1, 8, 2, 4096]);
        let max = if rng.chance(1, 40) { 0 } else { *rng.pick(&[1usize, 4, 64, 4, 64, 10, 2, 1000]) };
        let split = rng.chance(1, 3);
        (match (is_async, split) {
            (false, false) => "sync",
            (false, true) => "ssplit",
            (true, false) => "async",
            (true, true) => "asplit",
        }, base, max)
    }
}

/// optional 6th word of the constructor line: how the inner stream wakes its registered waker
fn gen_style(rng: &mut Rng) -> &'static str {
    *rng.pick(&["", " wake=take", " wake=ref", " wake=clone", " wake=clone", " wake=keep", " wake=keep"])
}

fn gen_payload(rng: &mut Rng, next: &mut u8) -> Vec<u8> {
    let k = *rng.pick(&[0usize, 1, 1, 2, 3, 4, 5, 8, 13, 30, 70]);
    (0..k)
        .map(|_| {
            let b = *next;
            *next = next.wrapping_add(1);
            b | 0x80
        })
        .collect()
}

fn gen_case(rng: &mut Rng, name: String, long: bool) -> Case {
    let is_async = rng.chance(1, 2);
    let (kind, base, max) = gen_config(rng, is_async);
    let hostile = rng.chance(1, 5);
    let (rs, _) = gen_rscript(rng, hostile);
    let ws = gen_wscript(rng);
    let mut lines = vec![format!("{kind} {base} {max} {rs} {ws}{}", gen_style(rng))];
    let nops = if long { rng.range(8, 40) } else { rng.range(3, 16) };
    let mut next = 0u8;
    let sizes = [0usize, 1, 1, 2, 3, 4, 7, 16, 100];
    for _ in 0..nops {
        let r = rng.below(100);
        let line = if is_async {
            let t = rng.below(3);
            match r {
                0..=24 => format!("pr {t} {}", rng.pick(&sizes)),
                25..=31 => format!("pru {t} {}", rng.pick(&sizes)),
                32..=43 => format!("pfb {t}"),
                44..=46 => format!("co {}", rng.pick(&[0usize, 0, 1, 1, 1, 2, 1, 9])),
                47 => format!("pfb {t}"),
                48..=53 => format!("pr {t} {}", rng.pick(&sizes)),
                54..=77 => format!("pw {t} {}", hex(&gen_payload(rng, &mut next))),
                78..=91 => format!("pfl {t}"),
                _ => format!("pcl {t}"),
            }
        } else {
            match r {
                0..=17 => format!("read {}", rng.pick(&sizes)),
                18..=22 => format!("rbu {}", rng.pick(&sizes)),
                23..=30 => "fillbuf".to_string(),
                31..=34 => format!("consume {}", rng.pick(&[0usize, 0, 1, 1, 1, 2, 9])),
                35..=38 => format!("read {}", rng.pick(&sizes)),
                39..=56 => format!("fill {}", rng.pick(&[1usize, 2, 3, 9, 9, 9, 9])),
                57..=76 => format!("write {}", hex(&gen_payload(rng, &mut next))),
                77..=79 => "flush".to_string(),
                80..=95 => format!("wflush {}", rng.pick(&[1usize, 2, 3, 9, 9, 9, 9, 9])),
                96..=97 => "st".to_string(),
                98 => "rewrap".to_string(),
                _ => if rng.chance(1, 2) { "parts".to_string() } else { "rewrap".to_string() },
            }
        };
        lines.push(line);
    }
    Case { name, lines }
}

/// well-behaved caller: the loops a user of the adapters writes (read until EOF, write + flush)
fn gen_wellbehaved(rng: &mut Rng, name: String) -> Case {
    let is_async = rng.chance(1, 2);
    let (kind, base, max) = gen_config(rng, is_async);
    let (rs, total) = gen_rscript(rng, false);
    let ws = gen_wscript(rng);
    let mut lines = vec![format!("{kind} {base} {max} {rs} {ws}{}", gen_style(rng))];
    let mut next = 0u8;
    let rounds = total / 2 + 12;
    for i in 0..rounds {
        let n = *rng.pick(&[1usize, 2, 3, 7, 16]);
        if is_async {
            let t = rng.below(3);
            if rng.chance(1, 4) {
                lines.push(format!("pfb {t}"));
                lines.push(format!("co {}", rng.pick(&[0usize, 1, 2])));
            } else {
                lines.push(format!("pr {t} {n}"));
            }
            if i % 3 == 0 {
                lines.push(format!("pw {t} {}", hex(&gen_payload(rng, &mut next))));
            }
            if i % 5 == 4 {
                lines.push(format!("pfl {t}"));
            }
        } else {
            lines.push(format!("read {n}"));
            lines.push("fill 9".into());
            if i % 3 == 0 {
                lines.push(format!("write {}", hex(&gen_payload(rng, &mut next))));
            }
            if i % 4 == 3 {
                lines.push("wflush 9".into());
            }
            if i % 7 == 6 && rng.chance(1, 3) {
                // into_parts + re-wrap in the middle of the transfer (after a flush: pending writes would be discarded)
                lines.push("wflush 9".into());
                lines.push("rewrap".into());
            }
        }
    }
    if is_async {
        for _ in 0..4 {
            lines.push("pcl 0".into());
        }
    } else {
        lines.push("wflush 9".into());
        lines.push("wflush 9".into());
        lines.push("parts".into());
    }
    Case { name, lines }
}

/// write-half stress: inner writer that parks in write and in flush, short writes, errors; callers that
/// write / flush / close from several tasks (reaches the retry, stale-future and close-ordering paths)
fn gen_writer_stress(rng: &mut Rng, name: String) -> Case {
    let base = *rng.pick(&[1usize, 3, 4, 16]);
    let max = *rng.pick(&[1usize, 4, 64]);
    let is_async = rng.chance(2, 3);
    let mut items = vec![];
    for _ in 0..rng.range(2, 12) {
        items.push(match rng.below(10) {
            0..=3 => "p".to_string(),
            4..=7 => format!("w{}", rng.pick(&[1usize, 2, 3, 100, 100])),
            8 => "e".to_string(),
            _ => "w0".to_string(),
        });
    }
    let kind = if is_async { *rng.pick(&["async", "asplit"]) } else { *rng.pick(&["sync", "ssplit"]) };
    let mut lines = vec![format!("{kind} {base} {max} . {}{}", items.join(","), gen_style(rng))];
    let mut next = 0u8;
    for _ in 0..rng.range(6, 24) {
        let t = rng.below(3);
        let r = rng.below(10);
        lines.push(if is_async {
            match r {
                0..=4 => format!("pw {t} {}", hex(&gen_payload(rng, &mut next))),
                5..=7 => format!("pfl {t}"),
                _ => format!("pcl {t}"),
            }
        } else {
            match r {
                0..=4 => format!("write {}", hex(&gen_payload(rng, &mut next))),
                5..=8 => format!("wflush {}", rng.pick(&[1usize, 2, 9, 9, 9])),
                _ => "st".to_string(),
            }
        });
    }
    Case { name, lines }
}

/// session 3: write, flush whose INNER flush() fails (after the inner write accepted everything), flush again with
/// no write in between, optionally close — the retry must reach the inner flush() again
fn gen_flush_retry(rng: &mut Rng, name: String) -> Case {
    let base = *rng.pick(&[1usize, 3, 4, 16, 4096]);
    let max = *rng.pick(&[4usize, 10, 64, 1000]);
    let is_async = rng.chance(3, 4);
    let mut items = vec![];
    if rng.chance(1, 3) {
        items.push("p".to_string());
    }
    items.push("w100".to_string());
    if rng.chance(1, 3) {
        items.push("p".to_string());
    }
    items.push("e".to_string());
    for _ in 0..rng.below(3) {
        items.push((*rng.pick(&["p", "e", "w100", "w100"])).to_string());
    }
    let kind = if is_async { *rng.pick(&["async", "asplit"]) } else { *rng.pick(&["sync", "ssplit"]) };
    let mut lines = vec![format!("{kind} {base} {max} . {}{}", items.join(","), gen_style(rng))];
    let mut next = 0u8;
    let t = rng.below(3);
    let mut payload = gen_payload(rng, &mut next);
    if payload.is_empty() {
        payload.push(0x81);
    }
    payload.truncate(max);
    lines.push(if is_async { format!("pw {t} {}", hex(&payload)) } else { format!("write {}", hex(&payload)) });
    for _ in 0..rng.range(2, 6) {
        let t = rng.below(3);
        lines.push(if is_async { format!("pfl {t}") } else { "wflush 9".to_string() });
    }
    if is_async {
        lines.push(format!("pcl {t}"));
        lines.push(format!("pcl {t}"));
    } else {
        lines.push("st".to_string());
    }
    Case { name, lines }
}

/// session 3: small limit, several refills with nothing consumed in between (the Vec grows to the limit), a PARTIAL
/// consume, another refill — only the unread bytes count against the limit
fn gen_refill_partial(rng: &mut Rng, name: String) -> Case {
    let base = *rng.pick(&[1usize, 2, 3, 8]);
    let max = *rng.pick(&[2usize, 4, 10, 16, 64]);
    let mut items = vec![];
    let mut next = 1u8;
    for _ in 0..rng.range(3, 9) {
        let k = *rng.pick(&[1usize, 2, 3, 5, 8, 20]);
        let d: Vec<u8> = (0..k).map(|_| { let b = next; next = next.wrapping_add(1).max(1); b }).collect();
        items.push(format!("d{}", hex(&d)));
        if rng.chance(1, 6) {
            items.push("p".to_string());
        }
    }
    let kind = *rng.pick(&["sync", "ssplit"]);
    let mut lines = vec![format!("{kind} {base} {max} {} .", items.join(","))];
    for _ in 0..rng.range(2, 5) {
        for _ in 0..rng.range(1, 4) {
            lines.push("fill 9".to_string());
        }
        lines.push("fillbuf".to_string());
        lines.push(format!("consume {}", rng.pick(&[1usize, 1, 2, 3])));
        lines.push("fill 9".to_string());
        if rng.chance(1, 2) {
            lines.push(format!("read {}", rng.pick(&[1usize, 2, 100])));
        }
    }
    Case { name, lines }
}

fn generate(tier: &str, rng: &mut Rng) -> Vec<Case> {
    let thorough = tier == "thorough";
    let n = if thorough { 60_000 } else { 4_000 };
    let mut cases = vec![];
    for i in 0..n {
        let c = match rng.below(10) {
            0..=4 => gen_case(rng, format!("g{i}"), false),
            5..=6 => gen_case(rng, format!("l{i}"), true),
            7 => gen_writer_stress(rng, format!("s{i}")),
            _ => gen_wellbehaved(rng, format!("w{i}")),
        };
        cases.push(c);
    }
    for i in 0..n / 20 {
        cases.push(gen_flush_retry(rng, format!("fr{i}")));
        cases.push(gen_refill_partial(rng, format!("rp{i}")));
    }
    // exhaustive small space: every (base, max) of the declared configuration grid x a fixed battery
    for &base in &[0usize, 1, 3, 16] {
        for &max in &[1usize, 4, 64] {
            for (k, rs) in ["d0102030405060708090a0b0c0d0e0f101112131415", "p,d0102,e,d03,z", "d01,p,p,d0203040506,p", "."].iter().enumerate() {
                let mut lines = vec![format!("sync {base} {max} {rs} w2,p,e,w0,w100")];
                for _ in 0..6 {
                    lines.push("read 3".into());
                    lines.push("fill 2".into());
                    lines.push("fillbuf".into());
                    lines.push("consume 1".into());
                    lines.push("write 8182838485".into());
                    lines.push("wflush 2".into());
                }
                lines.push("parts".into());
                cases.push(Case { name: format!("grid-sync-{base}-{max}-{k}"), lines });
                let style = ["wake=take", "wake=ref", "wake=clone", "wake=keep"][(k + base + max) % 4];
                let mut lines = vec![format!("async {base} {max} {rs} w2,p,e,p,w100,p {style}")];
                for r in 0..6 {
                    lines.push(format!("pr {} 3", r % 2));
                    lines.push("pfb 2".into());
                    lines.push("co 1".into());
                    lines.push(format!("pw {} 8182838485", r % 3));
                    lines.push("pfl 1".into());
                }
                lines.push("pcl 0".into());
                lines.push("pcl 0".into());
                cases.push(Case { name: format!("grid-async-{base}-{max}-{k}"), lines });
            }
        }
    }
    cases
}

fn main() {
    run_harness(
        generate,
        exec,
        "at least 4 operations, bytes moved in at least one direction, and at least one would-block / Pending / error outcome",
    );
}
