use std::{cell::RefCell, rc::Rc};
use compio_buf::bytes::Bytes;
use compio_buf::{BufResult, IoBuf};
use compio_io::{AsyncWrite, framed::{Framed, codec::bytes::BytesCodec, frame::LengthDelimited}};
use futures_util::SinkExt;

#[derive(Default)]
struct Log { buffered: Vec<u8>, delivered: Vec<u8>, flushes: usize, shutdowns: usize }
struct BufW(Rc<RefCell<Log>>);
impl AsyncWrite for BufW {
    async fn write<T: IoBuf>(&mut self, buf: T) -> BufResult<usize, T> {
        let n = buf.as_init().len();
        self.0.borrow_mut().buffered.extend_from_slice(buf.as_init());
        BufResult(Ok(n), buf)
    }
    async fn flush(&mut self) -> std::io::Result<()> {
        let mut l = self.0.borrow_mut();
        l.flushes += 1;
        let b = std::mem::take(&mut l.buffered);
        l.delivered.extend(b);
        Ok(())
    }
    async fn shutdown(&mut self) -> std::io::Result<()> {
        let mut l = self.0.borrow_mut();
        l.shutdowns += 1;
        let b = std::mem::take(&mut l.buffered);
        l.delivered.extend(b);
        Ok(())
    }
}
fn main() {
    let log = Rc::new(RefCell::new(Log::default()));
    let mut framed = Framed::new::<Bytes, Bytes>(BytesCodec::new(), LengthDelimited::new()).with_writer(BufW(log.clone()));
    futures_executor::block_on(async {
        framed.send(Bytes::from_static(b"abc")).await.unwrap();
        { let l = log.borrow(); println!("after send: flushes={} delivered={} buffered={}", l.flushes, l.delivered.len(), l.buffered.len()); }
        framed.flush().await.unwrap();
        { let l = log.borrow(); println!("after flush: flushes={} delivered={} buffered={}", l.flushes, l.delivered.len(), l.buffered.len()); }
        framed.feed(Bytes::from_static(b"de")).await.unwrap();
        framed.close().await.unwrap();
        { let l = log.borrow(); println!("after feed+close: shutdowns={} delivered={} buffered={}", l.shutdowns, l.delivered.len(), l.buffered.len()); }
        framed.close().await.unwrap();
        { let l = log.borrow(); println!("after 2nd close: shutdowns={} delivered={} buffered={}", l.shutdowns, l.delivered.len(), l.buffered.len()); }
    });
}
