//! C11 correspondence harness: the read/write helper algorithms of the real compio-io
//! (read_exact, read_to_end, append, read_vectored(_exact), write_all, write_vectored(_all), copy,
//! Take, BufReader, BufWriter, split halves, in-memory readers/writers/cursors) driven by text
//! operations over *scripted* inner streams (see lean/Drivers/C11.lean for the grammar).
//!
//! Monitors are implementation-only: they compare with a straightforward reference computed here
//! (payload prefix placed at the start of the destination, FIFO accounting of every byte).

use std::{
    cell::RefCell,
    collections::VecDeque,
    io::{self, Cursor, ErrorKind},
};

use compio_buf::{BufResult, IntoInner, IoBuf, IoBufMut, IoVectoredBuf, IoVectoredBufMut, SetLenExt};
use compio_io::{
    AsyncBufRead, AsyncRead, AsyncReadExt, AsyncWrite, AsyncWriteExt, BufReader, BufWriter,
    util::{
        Take,
        split::{ReadHalf, WriteHalf},
    },
};
use hx_common::*;

#[path = "c11/mem.rs"]
mod mem;
#[path = "c11/text.rs"]
mod text;
#[path = "c11/sync.rs"]
mod sync;

// ---------------------------------------------------------------------------------------------
// scripts

#[derive(Clone, Debug, PartialEq)]
pub enum O {
    Ok(usize),
    Intr,
    Err(u32),
    Eof,
}

pub fn kind_of(k: u32) -> ErrorKind {
    match k % 5 {
        0 => ErrorKind::Other,
        1 => ErrorKind::BrokenPipe,
        2 => ErrorKind::PermissionDenied,
        3 => ErrorKind::TimedOut,
        _ => ErrorKind::ConnectionReset,
    }
}

pub fn show_err(e: &io::Error) -> String {
    match e.kind() {
        ErrorKind::Interrupted => "intr".into(),
        ErrorKind::UnexpectedEof => "eof".into(),
        ErrorKind::WriteZero => "wz".into(),
        ErrorKind::InvalidData => "inv".into(),
        ErrorKind::Other => "e0".into(),
        ErrorKind::BrokenPipe => "e1".into(),
        ErrorKind::PermissionDenied => "e2".into(),
        ErrorKind::TimedOut => "e3".into(),
        ErrorKind::ConnectionReset => "e4".into(),
        k => format!("e?{k:?}"),
    }
}

pub fn parse_script(s: &str) -> VecDeque<O> {
    if s == "." {
        return VecDeque::new();
    }
    s.split(',')
        .map(|t| match t {
            "i" => O::Intr,
            "z" => O::Eof,
            t if t.starts_with('e') => O::Err(t[1..].parse().expect("err kind")),
            t => O::Ok(t.parse().expect("ok n")),
        })
        .collect()
}

pub fn show_script(sc: &[O]) -> String {
    if sc.is_empty() {
        return ".".into();
    }
    sc.iter()
        .map(|o| match o {
            O::Ok(n) => n.to_string(),
            O::Intr => "i".into(),
            O::Err(k) => format!("e{k}"),
            O::Eof => "z".into(),
        })
        .collect::<Vec<_>>()
        .join(",")
}

/// scripted reader: plays the script over `stream`
pub struct SR {
    stream: Vec<u8>,
    pos: usize,
    sc: VecDeque<O>,
}

impl AsyncRead for SR {
    async fn read<B: IoBufMut>(&mut self, mut buf: B) -> BufResult<usize, B> {
        match self.sc.pop_front() {
            None | Some(O::Eof) => BufResult(Ok(0), buf),
            Some(O::Intr) => BufResult(Err(ErrorKind::Interrupted.into()), buf),
            Some(O::Err(k)) => BufResult(Err(kind_of(k).into()), buf),
            Some(O::Ok(n)) => {
                let dst = buf.as_uninit();
                let n = n.min(dst.len()).min(self.stream.len() - self.pos);
                for i in 0..n {
                    dst[i].write(self.stream[self.pos + i]);
                }
                self.pos += n;
                unsafe { buf.advance_to(n) };
                BufResult(Ok(n), buf)
            }
        }
    }
}

/// scripted writer: records what it accepted
pub struct SW {
    got: Vec<u8>,
    sc: VecDeque<O>,
    flushes: usize,
    shutdowns: usize,
}

impl AsyncWrite for SW {
    async fn write<T: IoBuf>(&mut self, buf: T) -> BufResult<usize, T> {
        match self.sc.pop_front() {
            None | Some(O::Eof) => BufResult(Ok(0), buf),
            Some(O::Intr) => BufResult(Err(ErrorKind::Interrupted.into()), buf),
            Some(O::Err(k)) => BufResult(Err(kind_of(k).into()), buf),
            Some(O::Ok(n)) => {
                let s = buf.as_init();
                let n = n.min(s.len());
                self.got.extend_from_slice(&s[..n]);
                BufResult(Ok(n), buf)
            }
        }
    }

    async fn flush(&mut self) -> io::Result<()> {
        self.flushes += 1;
        Ok(())
    }

    async fn shutdown(&mut self) -> io::Result<()> {
        self.shutdowns += 1;
        Ok(())
    }
}

// ---------------------------------------------------------------------------------------------
// dynamic reader compositions

/// both directions of a stream, for `split`
pub struct Duplex {
    r: Option<DynR>,
    w: Option<DynW>,
}

pub enum DynR {
    S(SR),
    M(&'static [u8]),
    C(Cursor<Vec<u8>>),
    Take(Box<Take<DynR>>),
    Buf(Box<BufReader<DynR>>, usize),
    Half(ReadHalf<Duplex>, Option<WriteHalf<Duplex>>),
}

impl std::fmt::Debug for DynR {
    fn fmt(&self, f: &mut std::fmt::Formatter<'_>) -> std::fmt::Result {
        f.write_str("DynR")
    }
}

impl std::fmt::Debug for DynW {
    fn fmt(&self, f: &mut std::fmt::Formatter<'_>) -> std::fmt::Result {
        f.write_str("DynW")
    }
}

/// `Box<dyn IoBufMut>` and back: `Take<R>::read::<B>` calls `R::read::<Slice<B>>`, which for a
/// recursive reader type would never stop instantiating; the buffer type is erased at that point.
fn erase<B: IoBufMut>(buf: B) -> Box<dyn IoBufMut> {
    Box::new(buf)
}

unsafe fn unerase<B: IoBufMut>(b: Box<dyn IoBufMut>) -> B {
    // SAFETY (caller): `b` was created by `erase::<B>`
    unsafe { *Box::from_raw(Box::into_raw(b) as *mut B) }
}

impl AsyncRead for DynR {
    async fn read<B: IoBufMut>(&mut self, buf: B) -> BufResult<usize, B> {
        match self {
            DynR::S(s) => s.read(buf).await,
            DynR::M(m) => m.read(buf).await,
            DynR::C(c) => c.read(buf).await,
            DynR::Take(t) => {
                let BufResult(r, b) = Box::pin(t.read(erase(buf))).await;
                BufResult(r, unsafe { unerase::<B>(b) })
            }
            DynR::Buf(b, _) => Box::pin(b.read(buf)).await,
            DynR::Half(h, _) => Box::pin(h.read(buf)).await,
        }
    }

    async fn read_vectored<V: IoVectoredBufMut>(&mut self, buf: V) -> BufResult<usize, V> {
        match self {
            DynR::S(s) => s.read_vectored(buf).await,
            DynR::M(m) => m.read_vectored(buf).await,
            DynR::C(c) => c.read_vectored(buf).await,
            DynR::Take(t) => Box::pin(t.read_vectored(buf)).await,
            DynR::Buf(b, _) => Box::pin(b.read_vectored(buf)).await,
            DynR::Half(h, _) => Box::pin(h.read_vectored(buf)).await,
        }
    }
}

impl AsyncBufRead for DynR {
    async fn fill_buf(&mut self) -> io::Result<&'_ [u8]> {
        match self {
            DynR::Take(t) => Box::pin(t.fill_buf()).await,
            DynR::Buf(b, _) => Box::pin(b.fill_buf()).await,
            _ => Err(io::Error::new(ErrorKind::Unsupported, "no fill_buf")),
        }
    }

    fn consume(&mut self, amount: usize) {
        match self {
            DynR::Take(t) => t.consume(amount),
            DynR::Buf(b, _) => b.consume(amount),
            _ => panic!("harness: consume on an unbuffered reader"),
        }
    }
}

impl AsyncRead for Duplex {
    async fn read<B: IoBufMut>(&mut self, buf: B) -> BufResult<usize, B> {
        Box::pin(self.r.as_mut().expect("read half").read(buf)).await
    }

    async fn read_vectored<V: IoVectoredBufMut>(&mut self, buf: V) -> BufResult<usize, V> {
        Box::pin(self.r.as_mut().expect("read half").read_vectored(buf)).await
    }
}

impl AsyncWrite for Duplex {
    async fn write<T: IoBuf>(&mut self, buf: T) -> BufResult<usize, T> {
        Box::pin(self.w.as_mut().expect("write half").write(buf)).await
    }

    async fn write_vectored<T: IoVectoredBuf>(&mut self, buf: T) -> BufResult<usize, T> {
        Box::pin(self.w.as_mut().expect("write half").write_vectored(buf)).await
    }

    async fn flush(&mut self) -> io::Result<()> {
        Box::pin(self.w.as_mut().expect("write half").flush()).await
    }

    async fn shutdown(&mut self) -> io::Result<()> {
        Box::pin(self.w.as_mut().expect("write half").shutdown()).await
    }
}

/// `init` and `progress` of the private `Buffer`, from its `Debug` output
fn buffer_fields(dbg: &str) -> (usize, usize) {
    let num = |key: &str| -> usize {
        let i = dbg.rfind(key).expect("Buffer debug field") + key.len();
        dbg[i..].chars().take_while(|c| c.is_ascii_digit()).collect::<String>().parse().unwrap()
    };
    (num("init: "), num("progress: "))
}

/// what is known about a reader pipeline after an operation (for the monitors)
#[derive(Default, Clone, Debug)]
pub struct RdFacts {
    /// bytes handed out by the base reader
    pub consumed: usize,
    /// bytes sitting in `BufReader` layers
    pub buffered: usize,
}

impl DynR {
    pub fn parse(spec: &str) -> DynR {
        let parts: Vec<&str> = spec.split('/').collect();
        let base = parts.last().unwrap();
        let f: Vec<&str> = base.split(':').collect();
        let mut r = match f[0] {
            "s" => DynR::S(SR { stream: unhex(f[1]), pos: 0, sc: parse_script(f[2]) }),
            "m" => DynR::M(Box::leak(unhex(f[1]).into_boxed_slice())),
            "c" => {
                let mut c = Cursor::new(unhex(f[1]));
                c.set_position(f[2].parse().expect("cursor pos"));
                DynR::C(c)
            }
            _ => panic!("reader base {base}"),
        };
        for w in parts[..parts.len() - 1].iter().rev() {
            let f: Vec<&str> = w.split(':').collect();
            r = match f[0] {
                "take" => DynR::Take(Box::new(r.take(f[1].parse().expect("limit")))),
                "buf" => {
                    let cap: usize = f[1].parse().expect("cap");
                    DynR::Buf(Box::new(BufReader::with_capacity(cap, r)), cap)
                }
                "half" => {
                    let (rh, wh) = compio_io::split(Duplex { r: Some(r), w: None });
                    DynR::Half(rh, Some(wh))
                }
                _ => panic!("reader wrapper {w}"),
            };
        }
        r
    }

    /// canonical state text (consumes the reader) + facts
    pub fn show(self, facts: &mut RdFacts) -> String {
        match self {
            DynR::S(s) => {
                facts.consumed = s.pos;
                format!("s[{};{}]", hex(&s.stream[s.pos..]), s.sc.len())
            }
            DynR::M(m) => format!("m[{}]", hex(m)),
            DynR::C(c) => format!("c[{}]", c.position()),
            DynR::Take(t) => {
                let l = t.limit();
                format!("take({})/{}", l, t.into_inner().show(facts))
            }
            DynR::Buf(b, _) => {
                let (init, progress) = buffer_fields(&format!("{b:?}"));
                facts.buffered += init - progress;
                format!("buf({},{})/{}", init, progress, (*b).into_inner().show(facts))
            }
            DynR::Half(r, w) => {
                let d = r.unsplit(w.expect("write half kept"));
                d.r.expect("reader").show(facts)
            }
        }
    }
}

// ---------------------------------------------------------------------------------------------
// dynamic writer compositions

thread_local! {
    /// F17 root cause seen in the current case: a `BufWriter::write*` call returned an error
    /// although it had taken bytes into its buffer
    static ERR_AFTER_BUFFERING: RefCell<Vec<String>> = const { RefCell::new(Vec::new()) };
}

pub enum DynW {
    S(SW),
    V(Vec<u8>),
    /// `&mut [u8]` over a leaked allocation (base pointer, total length)
    SM(&'static mut [u8], *mut u8, usize),
    CV(Cursor<Vec<u8>>),
    CA(Cursor<Box<[u8]>>),
    Buf(Box<BufWriter<DynW>>, usize),
    Half(WriteHalf<Duplex>, Option<ReadHalf<Duplex>>),
}

impl DynW {
    /// bytes accepted so far by the layers below a `BufWriter` (only meaningful for a scripted base)
    fn below_len(&self) -> Option<usize> {
        match self {
            DynW::S(s) => Some(s.got.len()),
            DynW::V(v) => Some(v.len()),
            _ => None,
        }
    }
}

fn bufwriter_pending(b: &BufWriter<DynW>) -> usize {
    let (init, progress) = buffer_fields(&format!("{b:?}"));
    init - progress
}

// `BufWriter<DynW>` has no accessor for the inner writer, so the number of bytes that reached the
// base writer is tracked in a thread-local by the `SW`/`Vec` arms.
thread_local! {
    static INNER_LEN: RefCell<usize> = const { RefCell::new(0) };
    /// bytes sitting in the (single) `BufWriter` layer after its last call
    static PENDING: RefCell<usize> = const { RefCell::new(0) };
}

fn note_pending(b: &BufWriter<DynW>) {
    PENDING.with(|p| *p.borrow_mut() = bufwriter_pending(b));
}

fn in_pipeline() -> usize {
    INNER_LEN.with(|l| *l.borrow()) + PENDING.with(|p| *p.borrow())
}

impl AsyncWrite for DynW {
    async fn write<T: IoBuf>(&mut self, buf: T) -> BufResult<usize, T> {
        match self {
            DynW::S(s) => {
                let r = s.write(buf).await;
                INNER_LEN.with(|l| *l.borrow_mut() = s.got.len());
                r
            }
            DynW::V(v) => {
                let r = v.write(buf).await;
                INNER_LEN.with(|l| *l.borrow_mut() = v.len());
                r
            }
            DynW::SM(s, ..) => s.write(buf).await,
            DynW::CV(c) => c.write(buf).await,
            DynW::CA(c) => c.write(buf).await,
            DynW::Buf(b, _) => {
                let before = INNER_LEN.with(|l| *l.borrow()) + bufwriter_pending(b);
                let n = buf.as_init().len();
                let r = Box::pin(b.write(buf)).await;
                note_pending(b);
                let after = INNER_LEN.with(|l| *l.borrow()) + bufwriter_pending(b);
                if r.0.is_err() && after > before {
                    ERR_AFTER_BUFFERING.with(|v| {
                        v.borrow_mut().push(format!(
                            "write of {n} bytes returned {} but {} bytes were taken into the buffer",
                            show_err(r.0.as_ref().unwrap_err()),
                            after - before
                        ))
                    });
                }
                r
            }
            DynW::Half(h, _) => Box::pin(h.write(buf)).await,
        }
    }

    async fn write_vectored<T: IoVectoredBuf>(&mut self, buf: T) -> BufResult<usize, T> {
        match self {
            DynW::S(s) => {
                let r = s.write_vectored(buf).await;
                INNER_LEN.with(|l| *l.borrow_mut() = s.got.len());
                r
            }
            DynW::V(v) => {
                let r = v.write_vectored(buf).await;
                INNER_LEN.with(|l| *l.borrow_mut() = v.len());
                r
            }
            DynW::SM(s, ..) => s.write_vectored(buf).await,
            DynW::CV(c) => c.write_vectored(buf).await,
            DynW::CA(c) => c.write_vectored(buf).await,
            DynW::Buf(b, _) => {
                let before = INNER_LEN.with(|l| *l.borrow()) + bufwriter_pending(b);
                let r = Box::pin(b.write_vectored(buf)).await;
                note_pending(b);
                let after = INNER_LEN.with(|l| *l.borrow()) + bufwriter_pending(b);
                if r.0.is_err() && after > before {
                    ERR_AFTER_BUFFERING.with(|v| {
                        v.borrow_mut().push(format!(
                            "write_vectored returned {} but {} bytes were taken into the buffer",
                            show_err(r.0.as_ref().unwrap_err()),
                            after - before
                        ))
                    });
                }
                r
            }
            DynW::Half(h, _) => Box::pin(h.write_vectored(buf)).await,
        }
    }

    async fn flush(&mut self) -> io::Result<()> {
        match self {
            DynW::S(s) => s.flush().await,
            DynW::V(v) => v.flush().await,
            DynW::SM(s, ..) => s.flush().await,
            DynW::CV(c) => c.flush().await,
            DynW::CA(c) => c.flush().await,
            DynW::Buf(b, _) => {
                let r = Box::pin(b.flush()).await;
                note_pending(b);
                r
            }
            DynW::Half(h, _) => Box::pin(h.flush()).await,
        }
    }

    async fn shutdown(&mut self) -> io::Result<()> {
        match self {
            DynW::S(s) => s.shutdown().await,
            DynW::V(v) => v.shutdown().await,
            DynW::SM(s, ..) => s.shutdown().await,
            DynW::CV(c) => c.shutdown().await,
            DynW::CA(c) => c.shutdown().await,
            DynW::Buf(b, _) => {
                let r = Box::pin(b.shutdown()).await;
                note_pending(b);
                r
            }
            DynW::Half(h, _) => Box::pin(h.shutdown()).await,
        }
    }
}

#[derive(Default, Clone, Debug)]
pub struct WrFacts {
    /// bytes that reached the base writer (scripted / Vec), if it has such a notion
    pub got: Option<Vec<u8>>,
    /// bytes sitting in the `BufWriter`
    pub pending: usize,
    pub buf_cap: Option<usize>,
}

impl DynW {
    pub fn parse(spec: &str) -> DynW {
        let parts: Vec<&str> = spec.split('/').collect();
        let base = parts.last().unwrap();
        let f: Vec<&str> = base.split(':').collect();
        let mut w = match f[0] {
            "s" => DynW::S(SW { got: vec![], sc: parse_script(f[1]), flushes: 0, shutdowns: 0 }),
            "v" => DynW::V(unhex(f[1])),
            "sm" => {
                let b: &'static mut [u8] = Box::leak(unhex(f[1]).into_boxed_slice());
                let (p, l) = (b.as_mut_ptr(), b.len());
                DynW::SM(b, p, l)
            }
            "cv" => {
                let mut c = Cursor::new(unhex(f[1]));
                c.set_position(f[2].parse().expect("cursor pos"));
                DynW::CV(c)
            }
            "ca" => {
                let mut c = Cursor::new(unhex(f[1]).into_boxed_slice());
                c.set_position(f[2].parse().expect("cursor pos"));
                DynW::CA(c)
            }
            _ => panic!("writer base {base}"),
        };
        INNER_LEN.with(|l| *l.borrow_mut() = w.below_len().unwrap_or(0));
        PENDING.with(|p| *p.borrow_mut() = 0);
        for wr in parts[..parts.len() - 1].iter().rev() {
            let f: Vec<&str> = wr.split(':').collect();
            w = match f[0] {
                "buf" => {
                    let cap: usize = f[1].parse().expect("cap");
                    DynW::Buf(Box::new(BufWriter::with_capacity(cap, w)), cap)
                }
                "half" => {
                    let (rh, wh) = compio_io::split(Duplex { r: None, w: Some(w) });
                    DynW::Half(wh, Some(rh))
                }
                _ => panic!("writer wrapper {wr}"),
            };
        }
        w
    }

    pub fn show(self, facts: &mut WrFacts) -> String {
        match self {
            DynW::S(s) => {
                let t = format!("s[{};{};f{};s{}]", hex(&s.got), s.sc.len(), s.flushes, s.shutdowns);
                facts.got = Some(s.got);
                t
            }
            DynW::V(v) => {
                let t = format!("v[{}]", hex(&v));
                facts.got = Some(v);
                t
            }
            DynW::SM(s, p, l) => {
                let rest = s.len();
                #[allow(dropping_references)]
                drop(s);
                // SAFETY: the leaked allocation is still alive and no other reference exists
                let whole = unsafe { std::slice::from_raw_parts(p, l) };
                format!("sm[{};{}]", hex(whole), rest)
            }
            DynW::CV(c) => format!("cv[{};{}]", hex(c.get_ref()), c.position()),
            DynW::CA(c) => format!("ca[{};{}]", hex(c.get_ref()), c.position()),
            DynW::Buf(b, cap) => {
                let (init, progress) = buffer_fields(&format!("{b:?}"));
                facts.pending += init - progress;
                facts.buf_cap = Some(cap);
                format!("buf({},{})/{}", init, progress, (*b).into_inner().show(facts))
            }
            DynW::Half(w, r) => {
                let d = r.expect("read half kept").unsplit(w);
                d.w.expect("writer").show(facts)
            }
        }
    }
}

// ---------------------------------------------------------------------------------------------
// destinations

/// `<hex>+<extra>`: a `Vec<u8>` with that content and `extra` bytes of spare capacity
pub fn parse_dst(s: &str) -> Vec<u8> {
    let (h, e) = s.split_once('+').expect("dst");
    let d = unhex(h);
    let extra: usize = e.parse().expect("extra");
    let mut v = Vec::with_capacity(d.len() + extra);
    v.extend_from_slice(&d);
    assert_eq!(v.capacity(), d.len() + extra, "allocator returned a different capacity");
    v
}

pub fn show_dst(v: &Vec<u8>) -> String {
    format!("{} {}", hex(v), v.capacity())
}

pub fn parse_members(s: &str) -> Vec<Vec<u8>> {
    if s == "." { vec![] } else { s.split(';').map(parse_dst).collect() }
}

pub fn show_members(m: &[Vec<u8>]) -> String {
    if m.is_empty() {
        ".".into()
    } else {
        m.iter().map(|v| format!("{}+{}", hex(v), v.capacity() - v.len())).collect::<Vec<_>>().join(";")
    }
}

pub fn parse_views(s: &str, sep: char) -> Vec<Vec<u8>> {
    if s == "." { vec![] } else { s.split(sep).map(unhex).collect() }
}

pub fn show_res<T>(r: &io::Result<T>, f: impl Fn(&T) -> String) -> String {
    match r {
        Ok(v) => f(v),
        Err(e) => show_err(e),
    }
}

fn ok_unit(_: &()) -> String {
    "ok".into()
}

fn ok_n(n: &usize) -> String {
    format!("ok:{n}")
}

// ---------------------------------------------------------------------------------------------
// reference helpers for the monitors

/// what the script says about the base reader, independent of any implementation
struct ScriptInfo {
    stream: Vec<u8>,
    /// every entry is `Ok(n >= 1)` or `Intr`, and there are more `Ok` entries than stream bytes:
    /// a reader that never reports a premature end
    honest: bool,
    has_intr: bool,
    errs: Vec<u32>,
}

fn base_of(spec: &str) -> &str {
    spec.rsplit('/').next().unwrap()
}

fn script_info(rspec: &str) -> Option<ScriptInfo> {
    let f: Vec<&str> = base_of(rspec).split(':').collect();
    match f[0] {
        "s" => {
            let sc: Vec<O> = parse_script(f[2]).into();
            let stream = unhex(f[1]);
            let oks = sc.iter().filter(|o| matches!(o, O::Ok(n) if *n >= 1)).count();
            let honest = sc.iter().all(|o| matches!(o, O::Intr) || matches!(o, O::Ok(n) if *n >= 1))
                && oks > stream.len();
            Some(ScriptInfo {
                honest,
                has_intr: sc.contains(&O::Intr),
                errs: sc.iter().filter_map(|o| if let O::Err(k) = o { Some(*k % 5) } else { None }).collect(),
                stream,
            })
        }
        "m" => Some(ScriptInfo { stream: unhex(f[1]), honest: true, has_intr: false, errs: vec![] }),
        "c" => {
            let d = unhex(f[1]);
            let p: u64 = f[2].parse().unwrap();
            let p = (p.min(d.len() as u64)) as usize;
            Some(ScriptInfo { stream: d[p..].to_vec(), honest: true, has_intr: false, errs: vec![] })
        }
        _ => None,
    }
}

/// the smallest `take` limit and the smallest `BufReader` capacity of a reader spec
fn wrappers_of(rspec: &str) -> (Option<u64>, Option<usize>) {
    let mut lim: Option<u64> = None;
    let mut cap: Option<usize> = None;
    for w in rspec.split('/') {
        if let Some(l) = w.strip_prefix("take:") {
            let l: u64 = l.parse().unwrap();
            lim = Some(lim.map_or(l, |x| x.min(l)));
        }
        if let Some(c) = w.strip_prefix("buf:") {
            let c: usize = c.parse().unwrap();
            cap = Some(cap.map_or(c, |x| x.min(c)));
        }
    }
    (lim, cap)
}

fn strip_intr(spec: &str) -> String {
    // remove the `i` entries of every script in a reader/writer spec
    spec.split('/')
        .map(|part| {
            let f: Vec<&str> = part.split(':').collect();
            if f[0] == "s" {
                let idx = f.len() - 1;
                let sc: Vec<O> = parse_script(f[idx]).into_iter().filter(|o| *o != O::Intr).collect();
                let mut g: Vec<String> = f.iter().map(|s| s.to_string()).collect();
                g[idx] = show_script(&sc);
                g.join(":")
            } else {
                part.to_string()
            }
        })
        .collect::<Vec<_>>()
        .join("/")
}

/// drop the "entries left" counter of scripted streams from a state text (it legitimately differs
/// between a script and the same script without its `Interrupted` entries)
fn blur_script_left(state: &str) -> String {
    let mut out = String::new();
    let mut rest = state;
    while let Some(i) = rest.find("s[") {
        out.push_str(&rest[..i + 2]);
        rest = &rest[i + 2..];
        let end = rest.find(']').unwrap();
        let inner: Vec<&str> = rest[..end].split(';').collect();
        let mut kept: Vec<&str> = inner.clone();
        if kept.len() >= 2 {
            kept[1] = "_";
        }
        out.push_str(&kept.join(";"));
        rest = &rest[end..];
    }
    out.push_str(rest);
    out
}

fn overlay(orig: &[u8], pos: usize, src: &[u8]) -> Vec<u8> {
    let mut v = orig.to_vec();
    if v.len() < pos + src.len() {
        v.resize(pos + src.len(), 0);
    }
    v[pos..pos + src.len()].copy_from_slice(src);
    v
}

// ---------------------------------------------------------------------------------------------
// operations

struct RdRun {
    /// output text of the result part (`ok`, `ok:5`, `eof`, `e1`, ...) or `panic`
    res: String,
    dst: Vec<u8>,
    dst_cap: usize,
    state: String,
    facts: RdFacts,
    panic: Option<String>,
}

fn run_reader_op(op: &str, rspec: &str, dspec: &str) -> RdRun {
    let r = catch(|| {
        futures_executor::block_on(async {
            let mut r = DynR::parse(rspec);
            let d = parse_dst(dspec);
            let (res, d) = match op {
                "rx" => {
                    let BufResult(res, d) = r.read_exact(d).await;
                    (show_res(&res, ok_unit), d)
                }
                "re" => {
                    let BufResult(res, d) = r.read_to_end(d).await;
                    (show_res(&res, ok_n), d)
                }
                "ap" => {
                    let BufResult(res, d) = r.append(d).await;
                    (show_res(&res, ok_n), d)
                }
                "rd" => {
                    let BufResult(res, d) = r.read(d).await;
                    (show_res(&res, ok_n), d)
                }
                _ => unreachable!(),
            };
            let mut facts = RdFacts::default();
            let state = r.show(&mut facts);
            (res, d, state, facts)
        })
    });
    match r {
        Ok((res, d, state, facts)) => {
            RdRun { res, dst_cap: d.capacity(), dst: d, state, facts, panic: None }
        }
        Err(m) => RdRun {
            res: "panic".into(),
            dst: vec![],
            dst_cap: 0,
            state: String::new(),
            facts: RdFacts::default(),
            panic: Some(m),
        },
    }
}

fn f19_shape(members: &[Vec<u8>]) -> bool {
    // initialised parts do not form a prefix of the capacity-concatenation:
    // some member with spare capacity is followed by a member with content
    let mut spare_seen = false;
    for m in members {
        if spare_seen && !m.is_empty() {
            return true;
        }
        if m.len() < m.capacity() {
            spare_seen = true;
        }
    }
    false
}

fn exec_reader_line(w: &[&str], line: &str, ex: &mut Exec) -> String {
    let (op, rspec, dspec) = (w[0], w[1], w[2]);
    let run = run_reader_op(op, rspec, dspec);
    ex.tag(format!("op:{op}"));
    ex.tag(format!("rd:{}", rspec.split('/').map(|p| p.split(':').next().unwrap()).collect::<Vec<_>>().join("/")));
    ex.tag(format!("res:{op}:{}", run.res.split(':').next().unwrap()));
    let (lim, bcap) = wrappers_of(rspec);
    if let Some(m) = &run.panic {
        ex.fail("C11:panic", format!("{line} => panic: {m}"));
        return "panic".into();
    }
    let orig = {
        let (h, _) = dspec.split_once('+').unwrap();
        unhex(h)
    };
    let orig_cap = parse_dst(dspec).capacity();
    if let Some(info) = script_info(rspec) {
        // FIFO accounting: the destination received the first `d` stream bytes, in order
        let consumed = if base_of(rspec).starts_with("s:") {
            run.facts.consumed
        } else {
            // in-memory bases: recompute from the state text is awkward; use the delivered count below
            usize::MAX
        };
        let start = match op {
            "rx" | "rd" => 0,
            _ => orig.len(),
        };
        // number of bytes that arrived = growth / result
        let arrived: Option<usize> = match op {
            "rx" => None,
            _ => run.res.strip_prefix("ok:").map(|n| n.parse().unwrap()),
        };
        let d = if consumed != usize::MAX { consumed - run.facts.buffered } else { arrived.unwrap_or(0) };
        if consumed != usize::MAX || arrived.is_some() {
            if d > info.stream.len() {
                ex.fail("C11:read-ref", format!("{line}: {d} bytes arrived from a {}-byte stream", info.stream.len()));
            } else {
                let want = if op == "rx" || op == "rd" {
                    // overwrite from the start, the rest of the old content stays
                    let mut v = overlay(&orig, 0, &info.stream[..d]);
                    v.truncate(orig.len().max(d));
                    v
                } else {
                    overlay(&orig, start, &info.stream[..d])
                };
                if run.dst != want {
                    ex.fail(
                        "C11:read-ref",
                        format!("{line}: destination {} but the reference is {}", hex(&run.dst), hex(&want)),
                    );
                }
                if let Some(n) = arrived {
                    if n != d {
                        ex.fail("C11:read-ref", format!("{line}: returned {n} but {d} bytes arrived"));
                    }
                }
            }
        }
        if let Some(l) = lim {
            if (d as u64) > l {
                ex.fail("C11:take-limit", format!("{line}: {d} bytes through take({l})"));
            }
        }
        // result classification
        match op {
            "rx" => {
                let ok = run.res == "ok";
                if ok != (d == orig_cap) && consumed != usize::MAX {
                    ex.fail("C11:read-exact-result", format!("{line}: result {} with {d} of {orig_cap} bytes", run.res));
                }
                if !ok && run.res != "eof" {
                    let k = run.res.strip_prefix('e').and_then(|k| k.parse::<u32>().ok());
                    if k.is_none() || !info.errs.contains(&k.unwrap()) {
                        ex.fail("C11:read-exact-result", format!("{line}: undocumented result {}", run.res));
                    }
                }
                // completeness: an honest reader with enough bytes must fill the buffer
                let avail = lim.map_or(info.stream.len() as u64, |l| l.min(info.stream.len() as u64));
                if info.honest && avail >= orig_cap as u64 && !ok {
                    let sig = if bcap == Some(0) { "F12:bufreader-cap0-eof" } else { "C11:read-exact-complete" };
                    ex.fail(sig, format!("{line}: cap={:?} honest reader, {} bytes available, result {}", bcap, avail, run.res));
                }
            }
            "re" => {
                let avail = lim.map_or(info.stream.len() as u64, |l| l.min(info.stream.len() as u64));
                if info.honest && run.res != format!("ok:{avail}") {
                    let sig = if bcap == Some(0) { "F12:bufreader-cap0-eof" } else { "C11:read-to-end-complete" };
                    ex.fail(sig, format!("{line}: cap={:?} honest reader with {avail} bytes, result {}", bcap, run.res));
                }
                if !run.res.starts_with("ok:") {
                    let k = run.res.strip_prefix('e').and_then(|k| k.parse::<u32>().ok());
                    if k.is_none() || !info.errs.contains(&k.unwrap()) {
                        ex.fail("C11:read-to-end-result", format!("{line}: undocumented result {}", run.res));
                    }
                }
            }
            _ => {}
        }
        // Interrupted entries are transparent: same run without them
        if info.has_intr && matches!(op, "rx" | "re") {
            let run2 = run_reader_op(op, &strip_intr(rspec), dspec);
            if run2.res != run.res
                || run2.dst != run.dst
                || blur_script_left(&run2.state) != blur_script_left(&run.state)
            {
                ex.fail(
                    "C11:intr-transparent",
                    format!(
                        "{line}: {} {} | {} but without the Interrupted entries {} {} | {}",
                        run.res,
                        hex(&run.dst),
                        run.state,
                        run2.res,
                        hex(&run2.dst),
                        run2.state
                    ),
                );
            }
        }
        ex.nontrivial = info.stream.len() >= 2 && (d >= 1 || !run.res.starts_with("ok"));
    }
    format!("{} {} {} | {}", run.res, hex(&run.dst), run.dst_cap, run.state)
}

fn exec_vectored_read(w: &[&str], line: &str, ex: &mut Exec) -> String {
    let (op, rspec, mspec) = (w[0], w[1], w[2]);
    ex.tag(format!("op:{op}"));
    ex.tag(format!("rd:{}", rspec.split('/').map(|p| p.split(':').next().unwrap()).collect::<Vec<_>>().join("/")));
    let orig = parse_members(mspec);
    let r = catch(|| {
        futures_executor::block_on(async {
            let mut r = DynR::parse(rspec);
            let m = parse_members(mspec);
            let (res, m) = match op {
                "rv" => {
                    let BufResult(res, m) = r.read_vectored(m).await;
                    (show_res(&res, ok_n), m)
                }
                "rvx" => {
                    let BufResult(res, m) = r.read_vectored_exact(m).await;
                    (show_res(&res, ok_unit), m)
                }
                _ => unreachable!(),
            };
            let mut facts = RdFacts::default();
            let state = r.show(&mut facts);
            (res, m, state, facts)
        })
    });
    let nonprefix = f19_shape(&orig);
    match r {
        Err(m) => {
            let sig = if nonprefix { "F19:vectored-nonprefix-init" } else { "C11:panic" };
            ex.fail(sig, format!("{line} => panic: {m}"));
            ex.tag(format!("res:{op}:panic"));
            "panic".into()
        }
        Ok((res, m, state, facts)) => {
            ex.tag(format!("res:{op}:{}", res.split(':').next().unwrap()));
            if let Some(info) = script_info(rspec) {
                let scripted = base_of(rspec).starts_with("s:");
                let arrived: Option<usize> = res.strip_prefix("ok:").map(|n| n.parse().unwrap());
                let d = if scripted { Some(facts.consumed - facts.buffered) } else { arrived };
                if let Some(d) = d {
                    if d <= info.stream.len() {
                        // reference: the first d stream bytes laid over the capacity-concatenation;
                        // every member keeps its other content
                        let mut left = &info.stream[..d];
                        let mut want: Vec<Vec<u8>> = vec![];
                        for o in &orig {
                            let k = left.len().min(o.capacity());
                            let mut v = overlay(o, 0, &left[..k]);
                            v.truncate(o.len().max(k));
                            left = &left[k..];
                            want.push(v);
                        }
                        if !left.is_empty() {
                            ex.fail("C11:vectored-ref", format!("{line}: {d} bytes arrived, more than the capacity"));
                        } else if want != m {
                            let sig = if nonprefix { "F19:vectored-nonprefix-init" } else { "C11:vectored-ref" };
                            ex.fail(
                                sig,
                                format!("{line}: members {} but the reference is {}", show_members(&m), show_members(&want)),
                            );
                        }
                        if let Some(n) = arrived {
                            if n != d {
                                ex.fail("C11:vectored-ref", format!("{line}: returned {n} but {d} bytes arrived"));
                            }
                        }
                    } else {
                        ex.fail("C11:vectored-ref", format!("{line}: {d} bytes arrived from a {}-byte stream", info.stream.len()));
                    }
                    let total_cap: usize = orig.iter().map(|o| o.capacity()).sum();
                    if op == "rvx" && (res == "ok") != (d == total_cap) && scripted {
                        ex.fail("C11:read-exact-result", format!("{line}: result {res} with {d} of {total_cap} bytes"));
                    }
                    ex.nontrivial = orig.len() >= 2 && d >= 1;
                }
            }
            format!("{} {} | {}", res, show_members(&m), state)
        }
    }
}

fn exec_bseq(w: &[&str], line: &str, ex: &mut Exec) -> String {
    let (rspec, ops) = (w[1], w[2]);
    ex.tag("op:bseq");
    let steps: Vec<&str> = if ops == "." { vec![] } else { ops.split(',').collect() };
    let mut outs: Vec<String> = vec![];
    // everything handed to the caller (read results + consumed lent bytes), for the FIFO monitor
    let mut delivered: Vec<u8> = vec![];
    let mut r = Some(DynR::parse(rspec));
    let mut lent: Vec<u8> = vec![];
    // `Take::consume` clamps the amount to its remaining limit: shadow of the outermost limit
    let mut limit: Option<u64> = rspec.split('/').next().and_then(|p| p.strip_prefix("take:")).map(|l| l.parse().unwrap());
    for st in &steps {
        let Some(rd) = r.as_mut() else {
            outs.push("-".into());
            continue;
        };
        let res = catch(|| {
            futures_executor::block_on(async {
                if *st == "f" {
                    match rd.fill_buf().await {
                        Ok(s) => (format!("f={}", hex(s)), Some(s.to_vec()), None),
                        Err(e) => (format!("f={}", show_err(&e)), None, None),
                    }
                } else if let Some(n) = st.strip_prefix('c') {
                    rd.consume(n.parse().expect("consume n"));
                    ("c=ok".to_string(), None, Some(n.parse::<usize>().unwrap()))
                } else if let Some(c) = st.strip_prefix('r') {
                    let cap: usize = c.parse().expect("read cap");
                    let BufResult(res, v) = rd.read(Vec::with_capacity(cap)).await;
                    match res {
                        Ok(_) => (format!("r={}", hex(&v)), Some(v), Some(usize::MAX)),
                        Err(e) => (format!("r={}", show_err(&e)), None, None),
                    }
                } else {
                    panic!("bseq step {st}")
                }
            })
        });
        match res {
            Ok((text, bytes, consumed)) => {
                match (bytes, consumed) {
                    (Some(b), None) => lent = b,
                    (None, Some(n)) => {
                        let n = limit.map_or(n, |l| (n as u64).min(l) as usize);
                        if let Some(l) = limit.as_mut() {
                            *l -= n as u64;
                        }
                        let known = n.min(lent.len());
                        delivered.extend_from_slice(&lent[..known]);
                        lent = lent[known..].to_vec();
                        // consume after a `read` discards buffered bytes nobody looked at: by FIFO
                        // order they are the next stream bytes (the count check below stays exact)
                        for _ in known..n {
                            let next = script_info(rspec).and_then(|i| i.stream.get(delivered.len()).copied());
                            delivered.push(next.unwrap_or(0));
                        }
                    }
                    (Some(b), Some(_)) => {
                        if let Some(l) = limit.as_mut() {
                            if b.len() as u64 > *l {
                                ex.fail("C11:take-limit", format!("{line}: a read returned {} bytes through a remaining limit of {}", b.len(), *l));
                            }
                            *l = l.saturating_sub(b.len() as u64);
                        }
                        delivered.extend_from_slice(&b);
                        lent.clear();
                    }
                    _ => {}
                }
                outs.push(text);
            }
            Err(_) => {
                outs.push(format!("{}=panic", &st[..1]));
                r = None;
            }
        }
    }
    let mut facts = RdFacts::default();
    // `consume(n)` with more than was lent is a caller error with a documented assertion;
    // a panic of `fill_buf` / `read` is never acceptable
    if outs.iter().any(|o| o == "f=panic" || o == "r=panic") {
        ex.fail("C11:panic", format!("{line}: {}", outs.join(" ")));
    }
    let state = match r {
        Some(r) => match catch(|| {
            let mut f = RdFacts::default();
            let s = r.show(&mut f);
            (s, f)
        }) {
            Ok((s, f)) => {
                facts = f;
                s
            }
            Err(m) => {
                ex.fail("C11:panic", format!("{line}: reading the reader's state back panicked: {m}"));
                "dead".into()
            }
        },
        None => "dead".into(),
    };
    if let Some(info) = script_info(rspec) {
        if !info.stream.starts_with(&delivered) {
            ex.fail("C11:bufread-fifo", format!("{line}: delivered {} is not a prefix of the stream", hex(&delivered)));
        }
        if state != "dead" && base_of(rspec).starts_with("s:") && delivered.len() + facts.buffered != facts.consumed {
            ex.fail(
                "C11:bufread-fifo",
                format!("{line}: {} delivered + {} buffered != {} consumed", delivered.len(), facts.buffered, facts.consumed),
            );
        }
        ex.nontrivial = delivered.len() >= 2;
    }
    format!("{} | {}", if outs.is_empty() { ".".to_string() } else { outs.join(" ") }, state)
}

struct WrRun {
    outs: Vec<String>,
    state: String,
    facts: WrFacts,
    /// bytes the caller may consider accepted, exactly (None after an op whose accepted count is unknown)
    accepted: Option<Vec<u8>>,
    /// upper envelope: accepted-so-far ++ data of calls that failed midway
    envelope: Vec<u8>,
    flushed_ok_at_end: bool,
    err_after_buffering: Vec<String>,
}

fn run_wseq(wspec: &str, steps: &[String]) -> WrRun {
    ERR_AFTER_BUFFERING.with(|v| v.borrow_mut().clear());
    let mut w = Some(DynW::parse(wspec));
    let mut outs = vec![];
    let mut accepted: Option<Vec<u8>> = Some(vec![]);
    let mut envelope: Vec<u8> = vec![];
    let mut flushed = false;
    for st in steps {
        let Some(wr) = w.as_mut() else {
            outs.push("-".into());
            continue;
        };
        let kind = &st[..1];
        let arg = &st[1..];
        let before = in_pipeline();
        let res = catch(|| {
            futures_executor::block_on(async {
                match kind {
                    "f" => (show_res(&wr.flush().await, ok_unit), None, vec![]),
                    "s" => (show_res(&wr.shutdown().await, ok_unit), None, vec![]),
                    "w" => {
                        let d = unhex(arg);
                        let BufResult(r, d) = wr.write(d).await;
                        let n = r.as_ref().ok().copied();
                        (show_res(&r, ok_n), n, d)
                    }
                    "a" => {
                        let d = unhex(arg);
                        let BufResult(r, d) = wr.write_all(d).await;
                        let n = if r.is_ok() { Some(d.len()) } else { None };
                        (show_res(&r, ok_unit), n.or(Some(usize::MAX)), d)
                    }
                    "v" => {
                        let m = parse_views(arg, '+');
                        let BufResult(r, m) = wr.write_vectored(m).await;
                        let n = r.as_ref().ok().copied();
                        (show_res(&r, ok_n), n, m.concat())
                    }
                    "x" => {
                        let m = parse_views(arg, '+');
                        let BufResult(r, m) = wr.write_vectored_all(m).await;
                        let n = if r.is_ok() { Some(m.concat().len()) } else { None };
                        (show_res(&r, ok_unit), n.or(Some(usize::MAX)), m.concat())
                    }
                    _ => panic!("wseq step {st}"),
                }
            })
        });
        match res {
            Ok((text, n, data)) => {
                flushed = (kind == "f" || kind == "s") && text == "ok";
                match n {
                    Some(usize::MAX) => {
                        // failed write_all: a prefix of data was accepted; its length is what entered
                        // the pipeline (base writer + buffer) during the call
                        accepted = None;
                        let k = (in_pipeline() - before.min(in_pipeline())).min(data.len());
                        envelope.extend_from_slice(&data[..k]);
                    }
                    Some(n) => {
                        if let Some(a) = accepted.as_mut() {
                            a.extend_from_slice(&data[..n]);
                        }
                        envelope.extend_from_slice(&data[..n]);
                    }
                    None => {}
                }
                outs.push(format!("{kind}={text}"));
            }
            Err(_) => {
                outs.push(format!("{kind}=panic"));
                w = None;
            }
        }
    }
    let mut facts = WrFacts::default();
    let state = match w {
        Some(w) => match catch(|| {
            let mut f = WrFacts::default();
            let s = w.show(&mut f);
            (s, f)
        }) {
            Ok((s, f)) => {
                facts = f;
                s
            }
            Err(_) => "dead".into(),
        },
        None => "dead".into(),
    };
    WrRun {
        outs,
        state,
        facts,
        accepted,
        envelope,
        flushed_ok_at_end: flushed,
        err_after_buffering: ERR_AFTER_BUFFERING.with(|v| v.borrow().clone()),
    }
}

fn monitor_writer(line: &str, wspec: &str, run: &WrRun, ex: &mut Exec) {
    let f17 = !run.err_after_buffering.is_empty();
    if f17 {
        ex.fail("F17:bufwriter-err-after-buffering", format!("{line}: {}", run.err_after_buffering[0]));
    }
    let sig = |s: &'static str| if f17 { "F17:bufwriter-err-after-buffering" } else { s };
    if run.state == "dead" {
        ex.fail("C11:panic", format!("{line}: writer panicked"));
        return;
    }
    let base = base_of(wspec);
    if let Some(got) = &run.facts.got {
        let init: Vec<u8> = if let Some(h) = base.strip_prefix("v:") { unhex(h) } else { vec![] };
        if !got.starts_with(&init) {
            ex.fail(sig("C11:write-prefix"), format!("{line}: initial content lost"));
            return;
        }
        let got = &got[init.len()..];
        // bytes that reached the inner writer are a prefix of what the caller handed over
        if !run.envelope.starts_with(got) {
            ex.fail(
                sig("C11:write-prefix"),
                format!("{line}: inner writer received {} which is not a prefix of {}", hex(got), hex(&run.envelope)),
            );
        }
        if let Some(acc) = &run.accepted {
            // exact accounting: received + still buffered = accepted
            if got.len() + run.facts.pending != acc.len() {
                ex.fail(
                    sig("C11:write-accounting"),
                    format!("{line}: {} received + {} buffered != {} accepted", got.len(), run.facts.pending, acc.len()),
                );
            }
            if run.flushed_ok_at_end && got != &acc[..] {
                ex.fail(
                    sig("C11:flush-complete"),
                    format!("{line}: after a successful flush the inner writer has {} of accepted {}", hex(got), hex(acc)),
                );
            }
        }
        if run.flushed_ok_at_end && run.facts.pending != 0 {
            ex.fail(sig("C11:flush-complete"), format!("{line}: {} bytes still buffered after flush", run.facts.pending));
        }
    }
}

fn exec_writer_line(w: &[&str], line: &str, ex: &mut Exec) -> String {
    let op = w[0];
    let wspec = w[1];
    ex.tag(format!("op:{op}"));
    ex.tag(format!("wr:{}", wspec.split('/').map(|p| p.split(':').next().unwrap()).collect::<Vec<_>>().join("/")));
    let steps: Vec<String> = match op {
        "wa" => vec![format!("a{}", w[2])],
        "wva" => vec![format!("x{}", w[2].replace(';', "+"))],
        "wseq" => {
            if w[2] == "." {
                vec![]
            } else {
                w[2].split(',').map(|s| s.to_string()).collect()
            }
        }
        _ => unreachable!(),
    };
    let run = run_wseq(wspec, &steps);
    monitor_writer(line, wspec, &run, ex);
    for o in &run.outs {
        ex.tag(format!("res:{op}:{}", o.split(':').next().unwrap()));
    }
    // Interrupted entries are transparent for the retrying helpers
    if base_of(wspec).starts_with("s:") && base_of(wspec).split(':').nth(1).unwrap().split(',').any(|e| e == "i")
        && steps.iter().all(|s| s.starts_with('a') || s.starts_with('x') || s == "f" || s == "s")
        // flush/shutdown do not retry: only compare when every entry is consumed by a retrying helper
        && steps.iter().all(|s| s.starts_with('a') || s.starts_with('x'))
    {
        let run2 = run_wseq(&strip_intr(wspec), &steps);
        let f17 = !run.err_after_buffering.is_empty() || !run2.err_after_buffering.is_empty();
        if run2.outs != run.outs || blur_script_left(&run2.state) != blur_script_left(&run.state) {
            ex.fail(
                if f17 { "F17:bufwriter-err-after-buffering" } else { "C11:intr-transparent" },
                format!(
                    "{line}: {} | {} but without the Interrupted entries {} | {}",
                    run.outs.join(" "),
                    run.state,
                    run2.outs.join(" "),
                    run2.state
                ),
            );
        }
    }
    ex.nontrivial = run.envelope.len() >= 2;
    let outs = if run.outs.is_empty() { ".".to_string() } else { run.outs.join(" ") };
    match op {
        "wseq" => format!("{} | {}", outs, run.state),
        _ => {
            // single helper call: print the bare result
            let res = run.outs[0].split_once('=').unwrap().1.to_string();
            if res == "panic" { "panic".into() } else { format!("{} | {}", res, run.state) }
        }
    }
}

fn exec_copy(w: &[&str], line: &str, ex: &mut Exec) -> String {
    let (rspec, wspec, size) = (w[1], w[2], w[3].parse::<usize>().expect("size"));
    ex.tag("op:cp");
    ex.tag(format!("cp:size={}", if size > 16 { "big".to_string() } else { size.to_string() }));
    ERR_AFTER_BUFFERING.with(|v| v.borrow_mut().clear());
    let run = |rspec: &str, wspec: &str| {
        catch(|| {
            futures_executor::block_on(async {
                let mut r = DynR::parse(rspec);
                let mut wr = DynW::parse(wspec);
                let res = compio_io::util::copy_with_size(&mut r, &mut wr, size).await;
                let mut rf = RdFacts::default();
                let mut wf = WrFacts::default();
                let rs = r.show(&mut rf);
                let ws = wr.show(&mut wf);
                (show_res(&res.map(|n| n as usize), ok_n), rs, ws, rf, wf)
            })
        })
    };
    match run(rspec, wspec) {
        Err(m) => {
            ex.fail("C11:panic", format!("{line} => panic: {m}"));
            "panic".into()
        }
        Ok((res, rs, ws, rf, wf)) => {
            let f17 = ERR_AFTER_BUFFERING.with(|v| !v.borrow().is_empty());
            if f17 {
                ex.fail(
                    "F17:bufwriter-err-after-buffering",
                    format!("{line}: {}", ERR_AFTER_BUFFERING.with(|v| v.borrow()[0].clone())),
                );
            }
            let sig = |s: &'static str| if f17 { "F17:bufwriter-err-after-buffering" } else { s };
            ex.tag(format!("res:cp:{}", res.split(':').next().unwrap()));
            if let (Some(info), Some(got)) = (script_info(rspec), wf.got.as_ref()) {
                let init: Vec<u8> =
                    if let Some(h) = base_of(wspec).strip_prefix("v:") { unhex(h) } else { vec![] };
                let got = if got.starts_with(&init) { &got[init.len()..] } else { &got[..] };
                // nothing duplicated, reordered or invented on the way
                if !info.stream.starts_with(got) {
                    ex.fail(
                        sig("C11:copy-ref"),
                        format!("{line}: writer received {} which is not a prefix of the stream {}", hex(got), hex(&info.stream)),
                    );
                }
                if let Some(n) = res.strip_prefix("ok:") {
                    let n: usize = n.parse().unwrap();
                    if got.len() != n || wf.pending != 0 {
                        ex.fail(
                            sig("C11:copy-ref"),
                            format!("{line}: returned {n}, writer has {} bytes, {} still buffered", got.len(), wf.pending),
                        );
                    }
                    let (lim, bcap) = wrappers_of(rspec);
                    let avail = lim.map_or(info.stream.len() as u64, |l| l.min(info.stream.len() as u64));
                    if info.honest && n as u64 != avail {
                        let s = if size == 0 {
                            "F18:copy-size0-eof"
                        } else if bcap == Some(0) {
                            "F12:bufreader-cap0-eof"
                        } else {
                            sig("C11:copy-complete")
                        };
                        ex.fail(s, format!("{line}: size={size} cap={bcap:?} honest reader with {avail} bytes, copied {n}"));
                    }
                }
                if base_of(rspec).starts_with("s:") {
                    // every byte taken from the reader is at the writer, in its buffer, or was in
                    // flight when an error ended the copy
                    let inflight = rf.consumed - rf.buffered;
                    if res.starts_with("ok:") && inflight != got.len() + wf.pending {
                        ex.fail(sig("C11:copy-ref"), format!("{line}: {inflight} bytes read, {} written", got.len()));
                    }
                }
                ex.nontrivial = info.stream.len() >= 2;
                // transparency of Interrupted on both sides
                let wi = base_of(wspec).starts_with("s:") && base_of(wspec).split(':').nth(1).unwrap().split(',').any(|e| e == "i");
                if info.has_intr || wi {
                    if let Ok((res2, rs2, ws2, ..)) = run(&strip_intr(rspec), &strip_intr(wspec)) {
                        let f17b = ERR_AFTER_BUFFERING.with(|v| !v.borrow().is_empty());
                        if res2 != res || blur_script_left(&rs2) != blur_script_left(&rs) || blur_script_left(&ws2) != blur_script_left(&ws) {
                            ex.fail(
                                if f17b {
                                    "F17:bufwriter-err-after-buffering"
                                } else if res == "intr" {
                                    "F20:copy-flush-interrupted"
                                } else {
                                    "C11:intr-transparent"
                                },
                                format!("{line}: {res} | {rs} | {ws} but without the Interrupted entries {res2} | {rs2} | {ws2}"),
                            );
                        }
                    }
                }
            }
            format!("{} | {} | {}", res, rs, ws)
        }
    }
}

fn exec_line(line: &str, ex: &mut Exec) -> String {
    let w: Vec<&str> = line.split_whitespace().collect();
    match w[0] {
        "rx" | "re" | "ap" | "rd" => exec_reader_line(&w, line, ex),
        "rv" | "rvx" => exec_vectored_read(&w, line, ex),
        "bseq" => exec_bseq(&w, line, ex),
        "wa" | "wva" | "wseq" => exec_writer_line(&w, line, ex),
        "cp" => exec_copy(&w, line, ex),
        "rs" | "rsat" => text::exec(&w, line, ex),
        "ss" => sync::exec(&w, line, ex),
        _ => mem::exec(&w, line, ex),
    }
}

fn exec(case: &Case) -> Exec {
    let mut ex = Exec::new();
    for line in &case.lines {
        let nt = ex.nontrivial;
        // a panic that escapes the per-call `catch` (e.g. while the final state of the objects is
        // read back) still comes out of the code under test: the line's output is `panic` and the
        // implementation-only monitor fires. (Malformed operation text cannot reach this point
        // from the generator; harness invariants such as the output count are checked by
        // `run_harness` and abort.)
        let o = match catch(|| exec_line(line, &mut ex)) {
            Ok(o) => o,
            Err(m) => {
                ex.fail("C11:panic", format!("{line} => panic: {m}"));
                ex.tag("res:escaped-panic");
                "panic".to_string()
            }
        };
        ex.nontrivial |= nt;
        ex.out.push(o);
    }
    ex
}

// ---------------------------------------------------------------------------------------------
// generation

const CAPS: [usize; 5] = [0, 1, 2, 7, 8192];

fn gen_payload(rng: &mut Rng, max: u64) -> Vec<u8> {
    let n = rng.below(max + 1) as usize;
    // distinct, position-dependent bytes: reordering or duplication is always visible
    let base = rng.below(200) as u8;
    (0..n).map(|i| base.wrapping_add(i as u8).max(1)).collect()
}

/// a script for a stream of `len` bytes
fn gen_script(rng: &mut Rng, len: usize, honest: bool) -> Vec<O> {
    let mut sc = vec![];
    let style = rng.below(4);
    let mut oks = 0;
    let want_oks = len + 1 + rng.below(3) as usize;
    while oks < want_oks {
        if rng.chance(1, 5) {
            sc.push(O::Intr);
            continue;
        }
        if !honest {
            match rng.below(14) {
                0 => {
                    sc.push(O::Err(rng.below(5) as u32));
                    continue;
                }
                1 => {
                    sc.push(O::Eof);
                    continue;
                }
                2 => {
                    sc.push(O::Ok(0));
                    continue;
                }
                _ => {}
            }
        }
        let n = match style {
            0 => 1,
            1 => rng.range(1, 3) as usize,
            2 => *rng.pick(&[1usize, 2, 3, 5, 8, 100]),
            _ => rng.range(1, (len as u64).max(1) + 2) as usize,
        };
        sc.push(O::Ok(n));
        oks += 1;
    }
    if !honest && rng.chance(1, 3) {
        let cut = rng.below(sc.len() as u64 + 1) as usize;
        sc.truncate(cut);
    }
    sc
}

fn gen_reader(rng: &mut Rng, payload: &[u8], honest: bool) -> String {
    let base = match rng.below(10) {
        0 => format!("m:{}", hex(payload)),
        1 => {
            let pos = match rng.below(6) {
                0 => payload.len() as u64,
                1 => payload.len() as u64 + 3,
                2 => u64::MAX,
                _ => rng.below(payload.len() as u64 + 1),
            };
            format!("c:{}:{}", hex(payload), pos)
        }
        _ => format!("s:{}:{}", hex(payload), show_script(&gen_script(rng, payload.len(), honest))),
    };
    let mut spec = base;
    let layers = match rng.below(10) {
        0..=3 => 0,
        4..=7 => 1,
        8 => 2,
        _ => 3,
    };
    for _ in 0..layers {
        spec = match rng.below(7) {
            0 | 1 => {
                let l = match rng.below(6) {
                    0 => 0,
                    1 => 1,
                    2 => payload.len() as u64,
                    3 => payload.len() as u64 + 5,
                    4 => u64::MAX,
                    _ => rng.below(payload.len() as u64 + 1),
                };
                format!("take:{l}/{spec}")
            }
            2..=5 => format!("buf:{}/{}", rng.pick(&CAPS), spec),
            _ => format!("half/{spec}"),
        };
    }
    spec
}

fn gen_dst(rng: &mut Rng, want: usize) -> String {
    let pre = match rng.below(4) {
        0 => rng.range(1, 4) as usize,
        _ => 0,
    };
    let extra = match rng.below(6) {
        0 => 0,
        1 => 1,
        2 => want,
        3 => want + 1,
        4 => want.saturating_sub(pre),
        _ => rng.below(want as u64 + 4) as usize,
    };
    let d: Vec<u8> = (0..pre).map(|i| 0xF0 + i as u8).collect();
    format!("{}+{}", hex(&d), extra)
}

fn gen_members(rng: &mut Rng, want: usize, allow_nonprefix: bool) -> String {
    let n = rng.range(0, 4) as usize;
    let mut out = vec![];
    let mut spare_seen = false;
    for i in 0..n {
        let cap = match rng.below(5) {
            0 => 0,
            1 => 1,
            _ => rng.below(want as u64 / 2 + 3) as usize,
        };
        let mut pre = if rng.chance(1, 3) { rng.below(cap as u64 + 1) as usize } else { 0 };
        if spare_seen && !allow_nonprefix {
            pre = 0;
        }
        if pre < cap {
            spare_seen = true;
        }
        let d: Vec<u8> = (0..pre).map(|j| 0xE0 + (i * 4 + j) as u8).collect();
        out.push(format!("{}+{}", hex(&d), cap - pre));
    }
    if out.is_empty() { ".".into() } else { out.join(";") }
}

fn gen_views(rng: &mut Rng, payload: &[u8], sep: &str) -> String {
    // cut the payload into members, with empty members sprinkled in
    let mut out = vec![];
    let mut i = 0;
    while i < payload.len() {
        if rng.chance(1, 5) {
            out.push("-".to_string());
        }
        let n = (rng.range(1, 5) as usize).min(payload.len() - i);
        out.push(hex(&payload[i..i + n]));
        i += n;
    }
    if rng.chance(1, 4) {
        out.push("-".to_string());
    }
    if out.is_empty() { ".".into() } else { out.join(sep) }
}

fn gen_writer(rng: &mut Rng, total: usize, honest: bool) -> String {
    let base = match rng.below(12) {
        0 => format!("v:{}", hex(&gen_payload(rng, 3))),
        1 => format!("sm:{}", hex(&vec![0xAA; rng.below(total as u64 + 3) as usize])),
        2 => {
            let d = gen_payload(rng, 6);
            let pos = match rng.below(4) {
                0 => d.len() as u64 + rng.below(4),
                _ => rng.below(d.len() as u64 + 1),
            };
            format!("cv:{}:{}", hex(&d), pos)
        }
        3 => {
            let d = vec![0xBB; rng.below(total as u64 + 3) as usize];
            let pos = match rng.below(5) {
                0 => d.len() as u64 + rng.below(4),
                1 => u64::MAX,
                _ => rng.below(d.len() as u64 + 1),
            };
            format!("ca:{}:{}", hex(&d), pos)
        }
        _ => format!("s:{}", show_script(&gen_script(rng, total, honest))),
    };
    let mut spec = base;
    if rng.chance(1, 2) {
        spec = format!("buf:{}/{}", rng.pick(&CAPS), spec);
    }
    if rng.chance(1, 8) {
        spec = format!("half/{spec}");
    }
    spec
}

fn gen_case(rng: &mut Rng, i: usize) -> Case {
    let honest = rng.chance(1, 2);
    let payload = gen_payload(rng, 24);
    let line = match rng.below(20) {
        0..=2 => {
            let want = if rng.chance(2, 3) { rng.below(payload.len() as u64 + 1) as usize } else { payload.len() + 2 };
            format!("rx {} {}", gen_reader(rng, &payload, honest), gen_dst(rng, want))
        }
        3..=5 => {
            let want = rng.below(40) as usize;
            format!("re {} {}", gen_reader(rng, &payload, honest), gen_dst(rng, want))
        }
        6 => format!("ap {} {}", gen_reader(rng, &payload, honest), gen_dst(rng, payload.len())),
        7 => format!("rd {} {}", gen_reader(rng, &payload, honest), gen_dst(rng, payload.len())),
        8 => {
            let np = rng.chance(1, 6);
            format!("rv {} {}", gen_reader(rng, &payload, honest), gen_members(rng, payload.len(), np))
        }
        9 | 10 => {
            let np = rng.chance(1, 6);
            format!("rvx {} {}", gen_reader(rng, &payload, honest), gen_members(rng, payload.len(), np))
        }
        11 => {
            // a buffered reader on top (possibly under a take)
            let inner = gen_reader(rng, &payload, honest);
            let mut spec = format!("buf:{}/{}", rng.pick(&CAPS), inner);
            if rng.chance(1, 3) {
                spec = format!("take:{}/{}", rng.below(payload.len() as u64 + 3), spec);
            }
            let mut ops = vec![];
            for _ in 0..rng.range(1, 8) {
                ops.push(match rng.below(4) {
                    0 => "f".to_string(),
                    1 => format!("c{}", rng.below(3)),
                    2 => format!("r{}", rng.below(6)),
                    _ => "f".to_string(),
                });
            }
            // consume never exceeds what was lent: replay the lengths conservatively (consume ≤ 2 only
            // after a fill that lent at least that much is not known here; the executor catches panics)
            format!("bseq {} {}", spec, ops.join(","))
        }
        12..=14 => format!("wa {} {}", gen_writer(rng, payload.len(), honest), hex(&payload)),
        15 => format!("wva {} {}", gen_writer(rng, payload.len(), honest), gen_views(rng, &payload, ";")),
        16 | 17 => {
            let mut ops = vec![];
            let mut total = 0;
            for _ in 0..rng.range(1, 7) {
                let p = gen_payload(rng, 9);
                total += p.len();
                ops.push(match rng.below(8) {
                    0 => "f".to_string(),
                    1 => "s".to_string(),
                    2 | 3 => format!("w{}", hex(&p)),
                    4 => format!("v{}", gen_views(rng, &p, "+")),
                    5 => format!("x{}", gen_views(rng, &p, "+")),
                    _ => format!("a{}", hex(&p)),
                });
            }
            if rng.chance(1, 2) {
                ops.push("f".into());
            }
            format!("wseq {} {}", gen_writer(rng, total, honest), ops.join(","))
        }
        _ => {
            let size = match rng.below(6) {
                0 => 0,
                1 => 1,
                2 => 8192,
                _ => rng.range(1, 9) as usize,
            };
            format!(
                "cp {} {} {}",
                gen_reader(rng, &payload, honest),
                gen_writer(rng, payload.len(), honest),
                size
            )
        }
    };
    Case { name: format!("g{i}"), lines: vec![line] }
}

/// every composition of a small payload into chunk sizes × one disturbance at every position
fn exhaustive(cases: &mut Vec<Case>, max_len: usize) {
    let mut k = 0;
    for len in 0..=max_len {
        let payload: Vec<u8> = (1..=len as u8).collect();
        for comp in compositions(len) {
            // disturbance: none, or Intr / Err / Eof inserted at position p
            let mut scripts: Vec<Vec<O>> = vec![];
            let base: Vec<O> = comp.iter().map(|n| O::Ok(*n)).chain([O::Ok(1)]).collect();
            scripts.push(base.clone());
            for p in 0..=base.len() {
                for d in [O::Intr, O::Err(1), O::Eof] {
                    let mut s = base.clone();
                    s.insert(p, d);
                    scripts.push(s);
                }
            }
            for sc in scripts {
                let s = show_script(&sc);
                let h = hex(&payload);
                let mut lines = vec![
                    format!("rx s:{h}:{s} -+{len}"),
                    format!("re s:{h}:{s} f0+0"),
                    format!("wa s:{s} {h}"),
                ];
                for cap in [0usize, 1, 2, 7] {
                    lines.push(format!("re buf:{cap}/s:{h}:{s} -+0"));
                    lines.push(format!("rx buf:{cap}/s:{h}:{s} -+{len}"));
                    lines.push(format!("wseq buf:{cap}/s:{s} a{h},f"));
                }
                lines.push(format!("rx take:{}/s:{h}:{s} -+{len}", len / 2));
                lines.push(format!("cp s:{h}:{s} s:{s} 2"));
                lines.push(format!("rvx s:{h}:{s} -+1;-+{}", len.saturating_sub(1)));
                cases.push(Case { name: format!("x{k}"), lines });
                k += 1;
            }
        }
    }
}

fn generate(tier: &str, rng: &mut Rng) -> Vec<Case> {
    let mut cases = vec![];
    let (n, xlen) = if tier == "thorough" { (120_000, 6) } else { (6_000, 3) };
    exhaustive(&mut cases, xlen);
    for i in 0..n {
        cases.push(gen_case(rng, i));
    }
    mem::generate(tier, rng, &mut cases);
    text::generate(tier, rng, &mut cases);
    sync::generate(tier, rng, &mut cases);
    cases
}

fn main() {
    run_harness(
        generate,
        exec,
        "a case is non-trivial when at least 2 payload bytes are involved and at least one byte moved or an error surfaced",
    );
}
