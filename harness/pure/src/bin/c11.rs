// scratch probe (to be replaced by the harness)
use std::collections::VecDeque;

use compio_buf::{BufResult, IoBuf, IoBufMut, SetLenExt};
use compio_io::{AsyncRead, AsyncReadExt, AsyncWrite, AsyncWriteExt, BufReader, BufWriter};

#[derive(Clone, Debug)]
enum O {
    Ok(usize),
    Intr,
    Err,
    Eof,
}

struct SR {
    stream: Vec<u8>,
    pos: usize,
    sc: VecDeque<O>,
}

impl AsyncRead for SR {
    async fn read<B: IoBufMut>(&mut self, mut buf: B) -> BufResult<usize, B> {
        match self.sc.pop_front() {
            None | Some(O::Eof) => BufResult(Ok(0), buf),
            Some(O::Intr) => BufResult(Err(std::io::ErrorKind::Interrupted.into()), buf),
            Some(O::Err) => BufResult(Err(std::io::Error::other("x")), buf),
            Some(O::Ok(n)) => {
                let dst = buf.as_uninit();
                let n = n.min(dst.len()).min(self.stream.len() - self.pos);
                for i in 0..n {
                    dst[i].write(self.stream[self.pos + i]);
                }
                self.pos += n;
                unsafe { buf.advance_to(n) };
                BufResult(Ok(n), buf)
            }
        }
    }
}

struct SW {
    got: Vec<u8>,
    sc: VecDeque<O>,
}

impl AsyncWrite for SW {
    async fn write<T: IoBuf>(&mut self, buf: T) -> BufResult<usize, T> {
        match self.sc.pop_front() {
            None | Some(O::Eof) => BufResult(Ok(0), buf),
            Some(O::Intr) => BufResult(Err(std::io::ErrorKind::Interrupted.into()), buf),
            Some(O::Err) => BufResult(Err(std::io::Error::other("x")), buf),
            Some(O::Ok(n)) => {
                let s = buf.as_init();
                let n = n.min(s.len());
                self.got.extend_from_slice(&s[..n]);
                BufResult(Ok(n), buf)
            }
        }
    }

    async fn flush(&mut self) -> std::io::Result<()> {
        Ok(())
    }

    async fn shutdown(&mut self) -> std::io::Result<()> {
        Ok(())
    }
}

fn main() {
    futures_executor::block_on(async {
        // F12
        let sr = SR { stream: b"hello world".to_vec(), pos: 0, sc: vec![O::Ok(100); 5].into() };
        let mut br = BufReader::with_capacity(0, sr);
        let BufResult(r, b) = br.read_to_end(vec![]).await;
        println!("F12: {:?} {:?}", r, b);

        // BufWriter duplicate on interrupted post-flush
        for cap in [1usize, 2, 4, 7] {
            let sw = SW { got: vec![], sc: vec![O::Intr, O::Ok(100), O::Ok(100), O::Ok(100), O::Ok(100), O::Ok(100)].into() };
            let mut bw = BufWriter::with_capacity(cap, sw);
            let BufResult(r, _) = bw.write_all(b"abcdefgh".to_vec()).await;
            let f = bw.flush().await;
            let inner = compio_buf::IntoInner::into_inner(bw);
            println!("bw cap={cap}: {:?} {:?} got={:?}", r, f, String::from_utf8_lossy(&inner.got));
        }
        // copy with size 0
        let mut sr = SR { stream: b"hello".to_vec(), pos: 0, sc: vec![O::Ok(100); 5].into() };
        let mut sw = SW { got: vec![], sc: vec![O::Ok(100); 5].into() };
        let r = compio_io::util::copy_with_size(&mut sr, &mut sw, 0).await;
        println!("copy0: {:?} got={:?}", r, sw.got);
        // read_vectored into [empty cap 4, prefilled 4] from slice
        let mut src: &[u8] = b"abc";
        let bufs = vec![Vec::with_capacity(4), vec![1u8, 2, 3, 4]];
        let BufResult(r, bufs) = src.read_vectored(bufs).await;
        println!("rv: {:?} {:?}", r, bufs);
    });
}
