//! C10 correspondence harness: the buffer views of the real compio-buf (Slice, Uninit, flatten,
//! Reader, Writer / extend_from_slice, VectoredSlice, VectoredBufIter, default_set_len) over the real
//! root containers (Vec, [u8; N], Box<[u8]>, ArrayVec, SmallVec, BytesMut), driven by text programs
//! (see lean/Drivers/C10.lean). View nestings are built at run time through `Box<dyn DynView>`:
//! every layer is the real generic `Slice<T>` / `Uninit<T>` instantiated at `T = Box<dyn DynView>`
//! (compio-buf implements IoBuf / IoBufMut / SetLen for `Box<B: ?Sized>` by forwarding).
//!
//! Observables: `as_init()` / `as_uninit()` pointer minus the root allocation pointer + length, the
//! root's reported length and the whole root allocation (the spare capacity is pre-initialised so that
//! reading it is defined).

use std::io::{Read, Write};
use std::ops::Bound;

use compio_buf::{
    IntoInner, IoBuf, IoBufExt, IoBufMut, IoBufMutExt, Reader, SetLen, SetLenExt, Slice, Uninit,
    arrayvec::ArrayVec, bytes::BytesMut, smallvec::SmallVec,
};
use hx_common::*;

#[path = "c10/vect.rs"]
mod vect;
#[path = "c10/ro.rs"]
mod ro;
#[path = "c10/pool.rs"]
mod pool;

// ---------------------------------------------------------------------------------------------
// dynamic view stack
// ---------------------------------------------------------------------------------------------

pub trait DynView: IoBufMut {
    /// `into_inner()` of a view layer; a root returns itself
    fn peel(self: Box<Self>) -> BV;
    /// initialised length the root container reports
    fn root_len(&self) -> usize;
    /// number of view layers
    fn depth(&self) -> usize;
    /// some `Uninit` layer of the stack already exposes initialised bytes (it has been filled through)
    fn reused_uninit(&self) -> bool;
    /// pointer and capacity of the root allocation *as the container itself reports them* (not via compio-buf)
    fn root_alloc(&mut self) -> (*mut u8, usize);
    /// number of `Uninit` layers in the stack (structural)
    fn uninit_layers(&self) -> usize {
        0
    }
    /// the outermost layer is an `Uninit`
    fn is_uninit_top(&self) -> bool {
        false
    }
}

pub type BV = Box<dyn DynView>;

impl DynView for Slice<BV> {
    fn peel(self: Box<Self>) -> BV {
        (*self).into_inner()
    }

    fn root_len(&self) -> usize {
        self.as_inner().root_len()
    }

    fn depth(&self) -> usize {
        self.as_inner().depth() + 1
    }

    fn reused_uninit(&self) -> bool {
        self.as_inner().reused_uninit()
    }

    fn uninit_layers(&self) -> usize {
        self.as_inner().uninit_layers()
    }

    fn root_alloc(&mut self) -> (*mut u8, usize) {
        self.as_inner_mut().root_alloc()
    }
}

impl DynView for Uninit<BV> {
    fn peel(self: Box<Self>) -> BV {
        (*self).into_inner()
    }

    fn root_len(&self) -> usize {
        self.as_inner().root_len()
    }

    fn depth(&self) -> usize {
        self.as_inner().depth() + 1
    }

    fn reused_uninit(&self) -> bool {
        catch(|| self.as_init().len()).map(|n| n > 0).unwrap_or(false)
            || self.as_inner().reused_uninit()
    }

    fn uninit_layers(&self) -> usize {
        self.as_inner().uninit_layers() + 1
    }

    fn is_uninit_top(&self) -> bool {
        true
    }

    fn root_alloc(&mut self) -> (*mut u8, usize) {
        self.as_inner_mut().root_alloc()
    }
}

macro_rules! root_impl {
    ($($t:ty => $cap:expr),*) => {$(
        impl DynView for $t {
            fn peel(self: Box<Self>) -> BV { self }
            fn root_len(&self) -> usize { self.as_init().len() }
            fn depth(&self) -> usize { 0 }
            fn reused_uninit(&self) -> bool { false }
            fn root_alloc(&mut self) -> (*mut u8, usize) {
                let f: fn(&mut $t) -> (*mut u8, usize) = $cap;
                f(self)
            }
        }
    )*};
}
root_impl!(
    Vec<u8> => |v| (v.as_mut_ptr(), v.capacity()),
    BytesMut => |v| (v.as_mut_ptr(), v.capacity()),
    Box<[u8]> => |v| (v.as_mut_ptr(), v.len()),
    SmallVec<[u8; 8]> => |v| (v.as_mut_ptr(), v.capacity()),
    // wrappers compio-buf forwards through: `&'static mut B`, `Box<B>`
    &'static mut [u8] => |v| (v.as_mut_ptr(), v.len()),
    &'static mut Vec<u8> => |v| (v.as_mut_ptr(), v.capacity()),
    Box<Vec<u8>> => |v| (v.as_mut_ptr(), v.capacity())
);

impl<const N: usize> DynView for [u8; N] {
    fn peel(self: Box<Self>) -> BV {
        self
    }

    fn root_alloc(&mut self) -> (*mut u8, usize) {
        (self.as_mut_ptr(), N)
    }

    fn root_len(&self) -> usize {
        N
    }

    fn depth(&self) -> usize {
        0
    }

    fn reused_uninit(&self) -> bool {
        false
    }
}

impl<const N: usize> DynView for ArrayVec<u8, N> {
    fn peel(self: Box<Self>) -> BV {
        self
    }

    fn root_alloc(&mut self) -> (*mut u8, usize) {
        (self.as_mut_ptr(), N)
    }

    fn root_len(&self) -> usize {
        self.len()
    }

    fn depth(&self) -> usize {
        0
    }

    fn reused_uninit(&self) -> bool {
        false
    }
}

fn mk_arr<const N: usize>(mem: &[u8]) -> BV {
    let mut a = [0u8; N];
    a.copy_from_slice(mem);
    Box::new(a)
}

fn mk_arrayvec<const N: usize>(mem: &[u8], len: usize) -> BV {
    let mut a = ArrayVec::<u8, N>::new();
    a.try_extend_from_slice(mem).unwrap();
    a.truncate(len);
    Box::new(a)
}

macro_rules! dispatch_n {
    ($n:expr, $f:ident, $args:tt, [$($k:literal),*]) => {
        match $n {
            $($k => Some($f::<$k> $args),)*
            _ => None,
        }
    };
}

pub const SIZES: [usize; 19] = [0, 1, 2, 3, 4, 5, 6, 7, 8, 9, 10, 11, 12, 13, 14, 15, 16, 24, 32];

/// Build a real root container of `kind` with exactly `mem.len()` capacity, all of it holding `mem`,
/// reporting `len` initialised bytes. `None` = this (kind, cap, len) does not exist.
pub fn mk_root(kind: &str, len: usize, mem: &[u8]) -> Option<BV> {
    let cap = mem.len();
    if len > cap {
        return None;
    }
    match kind {
        "vec" => {
            let mut v = Vec::with_capacity(cap);
            if v.capacity() != cap {
                return None;
            }
            v.extend_from_slice(mem);
            v.truncate(len);
            assert_eq!(v.capacity(), cap);
            Some(Box::new(v))
        }
        "bytesmut" => {
            let mut v = BytesMut::with_capacity(cap);
            if v.capacity() != cap {
                return None;
            }
            v.extend_from_slice(mem);
            v.truncate(len);
            assert_eq!(v.capacity(), cap);
            Some(Box::new(v))
        }
        "smallvec" => {
            // inline capacity 8: cap == 8 stays inline, larger spills to the heap
            if cap < 8 {
                return None;
            }
            let mut v = SmallVec::<[u8; 8]>::with_capacity(cap);
            if v.capacity() != cap {
                return None;
            }
            v.extend_from_slice(mem);
            v.truncate(len);
            assert_eq!(v.capacity(), cap);
            Some(Box::new(v))
        }
        "boxed" => {
            if len != cap {
                return None;
            }
            let b: Box<[u8]> = mem.to_vec().into_boxed_slice();
            Some(Box::new(b))
        }
        "sref" => {
            // `&'static mut [u8]` (leaked; a few bytes per case)
            if len != cap {
                return None;
            }
            let r: &'static mut [u8] = Box::leak(mem.to_vec().into_boxed_slice());
            Some(Box::new(r))
        }
        "refvec" | "boxvec" => {
            let mut v = Vec::with_capacity(cap);
            if v.capacity() != cap {
                return None;
            }
            v.extend_from_slice(mem);
            v.truncate(len);
            if kind == "boxvec" {
                Some(Box::new(Box::new(v)))
            } else {
                let r: &'static mut Vec<u8> = Box::leak(Box::new(v));
                Some(Box::new(r))
            }
        }
        "arr" => {
            if len != cap {
                return None;
            }
            dispatch_n!(cap, mk_arr, (mem), [0, 1, 2, 3, 4, 5, 6, 7, 8, 9, 10, 11, 12, 13, 14, 15, 16, 24, 32])
        }
        "arrayvec" => {
            dispatch_n!(cap, mk_arrayvec, (mem, len), [0, 1, 2, 3, 4, 5, 6, 7, 8, 9, 10, 11, 12, 13, 14, 15, 16, 24, 32])
        }
        _ => None,
    }
}

// ---------------------------------------------------------------------------------------------
// observation
// ---------------------------------------------------------------------------------------------

#[derive(Clone, Debug, PartialEq)]
pub struct Obs {
    pub init: Result<(usize, usize), ()>,
    pub uninit: Result<(usize, usize), ()>,
    pub root_len: usize,
    pub mem: Vec<u8>,
}

pub struct RootInfo {
    pub ptr: *const u8,
    /// capacity of the allocation as the container itself reports it (`mk_root` checked `capacity()`)
    pub cap: usize,
    /// length of the root's `as_uninit()` (`None` if it panicked); must equal `cap`
    pub reported_cap: Option<usize>,
    /// offset of the root's `as_uninit()` from the base of the allocation; must be 0
    pub reported_off: usize,
}

impl RootInfo {
    /// `cap` is the capacity the real container was built with; pointer and capacity are taken from the container
    /// itself (`root_alloc`), never from compio-buf — offsets and the out-of-allocation guards are relative to the
    /// true base even when `as_init` / `as_uninit` report something else
    pub fn of(v: &mut BV, cap: usize) -> Self {
        let (ptr, ccap) = v.root_alloc();
        assert_eq!(ccap, cap, "container capacity");
        let reported = catch(|| {
            let u = (*v).as_uninit();
            (u.as_ptr() as *const u8, u.len())
        });
        match reported {
            // a writable region that does not start at the base of the allocation is reported as a wrong capacity
            Ok((p, n)) => RootInfo { ptr, cap, reported_cap: Some(n), reported_off: (p as usize).wrapping_sub(ptr as usize) },
            Err(_) => RootInfo { ptr, cap, reported_cap: None, reported_off: 0 },
        }
    }

    /// monitor: a root's writable region is its whole capacity
    pub fn monitor(&self, ex: &mut Exec, ctx: &str) {
        if self.reported_cap != Some(self.cap) || self.reported_off != 0 {
            ex.fail(
                "C10:root-capacity",
                format!(
                    "{ctx}: the container's allocation is 0+{} but its as_uninit() is {}+{:?}",
                    self.cap, self.reported_off, self.reported_cap
                ),
            );
        }
    }

    pub fn mem(&self) -> Vec<u8> {
        // the whole allocation was initialised by `mk_root`
        unsafe { std::slice::from_raw_parts(self.ptr, self.cap) }.to_vec()
    }

    pub fn off(&self, p: *const u8) -> usize {
        (p as usize).wrapping_sub(self.ptr as usize)
    }
}

pub fn observe(v: &mut BV, ri: &RootInfo) -> Obs {
    let init = catch(|| {
        let s = (*v).as_init();
        (ri.off(s.as_ptr()), s.len())
    })
    .map_err(|_| ());
    let uninit = catch(|| {
        let s = (*v).as_uninit();
        (ri.off(s.as_ptr() as *const u8), s.len())
    })
    .map_err(|_| ());
    Obs { init, uninit, root_len: (*v).root_len(), mem: ri.mem() }
}

fn show_range(r: &Result<(usize, usize), ()>) -> String {
    match r {
        Ok((o, l)) => format!("{o}+{l}"),
        Err(()) => "panic".into(),
    }
}

pub fn show_obs(o: &Obs) -> String {
    format!("i={} u={} r={}:{}", show_range(&o.init), show_range(&o.uninit), o.root_len, hex(&o.mem))
}

/// monitors that hold in every state: ranges inside the allocation, len <= cap, init is a prefix of writable
pub fn monitor_state(ex: &mut Exec, o: &Obs, cap: usize, reused_uninit: bool, ctx: &str) {
    if o.root_len > cap {
        ex.fail("C10:bounds", format!("{ctx}: root len {} > cap {cap}", o.root_len));
    }
    if let Ok((oi, li)) = o.init {
        if oi.checked_add(li).map(|e| e > o.root_len).unwrap_or(true) {
            ex.fail("C10:bounds", format!("{ctx}: as_init {oi}+{li} outside the initialised root 0..{}", o.root_len));
        }
    }
    if let Ok((ou, lu)) = o.uninit {
        if ou.checked_add(lu).map(|e| e > cap).unwrap_or(true) {
            ex.fail("C10:bounds", format!("{ctx}: as_uninit {ou}+{lu} outside the allocation 0..{cap}"));
        }
    }
    match (&o.init, &o.uninit) {
        (Ok((oi, li)), Ok((ou, lu))) => {
            if oi != ou || li > lu {
                let sig = if reused_uninit { "F6:uninit-reused-view" } else { "C10:prefix" };
                ex.fail(sig, format!("{ctx}: as_init {oi}+{li} is not a prefix of as_uninit {ou}+{lu}"));
            }
        }
        _ => {
            let sig = if reused_uninit { "F6:uninit-reused-view" } else { "C10:observer-panic" };
            ex.fail(sig, format!("{ctx}: as_init/as_uninit panics: i={} u={}", show_range(&o.init), show_range(&o.uninit)));
        }
    }
}

// ---------------------------------------------------------------------------------------------
// the machine interpreting single-buffer programs
// ---------------------------------------------------------------------------------------------

enum St {
    Dead,
    Buf(BV),
    Reader(Reader<BV>),
}

pub struct Machine {
    st: St,
    ri: RootInfo,
    pub kind: String,
    /// the root container reallocates on `reserve` (Vec, BytesMut, SmallVec)
    growable: bool,
}

fn parse_end(s: &str) -> Option<Option<usize>> {
    if s == "-" { Some(None) } else { s.parse().ok().map(Some) }
}

fn range_of(b: usize, e: Option<usize>) -> (Bound<usize>, Bound<usize>) {
    (Bound::Included(b), match e {
        Some(e) => Bound::Excluded(e),
        None => Bound::Unbounded,
    })
}

impl Machine {
    pub fn new() -> Self {
        Machine { st: St::Dead, ri: RootInfo { ptr: std::ptr::null(), cap: 0, reported_cap: Some(0), reported_off: 0 }, kind: String::new(), growable: false }
    }

    pub fn alive(&self) -> bool {
        !matches!(self.st, St::Dead)
    }

    pub fn root_cap(&self) -> usize {
        self.ri.cap
    }

    pub fn in_reader(&self) -> bool {
        matches!(self.st, St::Reader(_))
    }

    /// current observation (only in buffer mode)
    pub fn obs(&mut self) -> Option<Obs> {
        match &mut self.st {
            St::Buf(v) => Some(observe(v, &self.ri)),
            _ => None,
        }
    }

    pub fn depth(&self) -> usize {
        match &self.st {
            St::Buf(v) => v.depth(),
            _ => 0,
        }
    }

    fn state_line(&mut self, ex: &mut Exec, ctx: &str) -> String {
        let St::Buf(v) = &mut self.st else { unreachable!() };
        let o = observe(v, &self.ri);
        let reused = (*v).reused_uninit();
        monitor_state(ex, &o, self.ri.cap, reused, ctx);
        show_obs(&o)
    }

    /// a constructor (`slice`, `uninit`, `flat`, `peel`, `reader`): consumes the buffer
    fn ctor(&mut self, ex: &mut Exec, line: &str, in_range: bool, f: impl FnOnce(BV) -> BV) -> String {
        let St::Buf(v) = std::mem::replace(&mut self.st, St::Dead) else { unreachable!() };
        let reused = (*v).reused_uninit();
        match catch(move || f(v)) {
            Ok(nv) => {
                self.st = St::Buf(nv);
                self.state_line(ex, line)
            }
            Err(msg) => {
                ex.tag("ctor-panic");
                if in_range && !reused {
                    ex.fail("C10:ctor-panic", format!("{line}: in-range constructor panicked: {msg}"));
                }
                "panic".into()
            }
        }
    }

    pub fn apply(&mut self, line: &str, ex: &mut Exec) -> String {
        let w: Vec<&str> = line.split_whitespace().collect();
        if w.is_empty() {
            return "bad-op".into();
        }
        if w[0] == "root" && w.len() == 4 {
            let (Ok(len), mem) = (w[2].parse::<usize>(), unhex(w[3])) else {
                self.st = St::Dead;
                return "bad-op".into();
            };
            return match mk_root(w[1], len, &mem) {
                Some(mut v) => {
                    self.ri = RootInfo::of(&mut v, mem.len());
                    self.ri.monitor(ex, line);
                    self.kind = w[1].to_string();
                    self.growable = matches!(w[1], "vec" | "bytesmut" | "smallvec" | "refvec" | "boxvec");
                    ex.tag(format!("root:{}", w[1]));
                    self.st = St::Buf(v);
                    self.state_line(ex, line)
                }
                None => {
                    self.st = St::Dead;
                    "bad-op".into()
                }
            };
        }
        match &mut self.st {
            St::Dead => "dead".into(),
            St::Reader(_) => self.apply_reader(&w, line, ex),
            St::Buf(_) => {
                if w == ["end"] {
                    let St::Buf(mut v) = std::mem::replace(&mut self.st, St::Dead) else { unreachable!() };
                    while v.depth() > 0 {
                        v = v.peel();
                    }
                    let len = (*v).root_len();
                    let mem = self.ri.mem();
                    // the root is where it was: its own pointer still equals the recorded one
                    let p = (*v).as_uninit().as_ptr() as *const u8;
                    if p != self.ri.ptr {
                        ex.fail("C10:bounds", format!("root allocation moved"));
                    }
                    return format!("root {}:{}", len, hex(&mem));
                }
                self.apply_buf(&w, line, ex)
            }
        }
    }

    fn apply_reader(&mut self, w: &[&str], line: &str, ex: &mut Exec) -> String {
        match w {
            ["read", n] => {
                let Ok(n) = n.parse::<usize>() else { return "bad-op".into() };
                let St::Reader(r) = &mut self.st else { unreachable!() };
                let before = r.as_remaining().to_vec();
                let mut dst = vec![0u8; n];
                match catch(|| r.read(&mut dst)) {
                    Ok(Ok(k)) => {
                        dst.truncate(k);
                        ex.tag("reader-read");
                        // monitor: the reader delivers the remaining bytes in order, nothing else
                        if k != n.min(before.len()) || dst[..] != before[..k] || r.as_remaining() != &before[k..] {
                            ex.fail("C10:reader", format!("{line}: delivered {} of remaining {}", hex(&dst), hex(&before)));
                        }
                        let rem = r.as_remaining();
                        let i = (self.ri.off(rem.as_ptr()), rem.len());
                        format!(
                            "read:{} p={} i={}+{} r={}:{}",
                            hex(&dst),
                            r.progress(),
                            i.0,
                            i.1,
                            r.as_inner().root_len(),
                            hex(&self.ri.mem())
                        )
                    }
                    Ok(Err(_)) => "ioerr".into(),
                    Err(_) => "panic".into(),
                }
            }
            ["remaining"] => {
                let St::Reader(r) = std::mem::replace(&mut self.st, St::Dead) else { unreachable!() };
                self.st = St::Buf(Box::new(r.into_remaining()));
                self.state_line(ex, line)
            }
            _ => "bad-op".into(),
        }
    }

    fn apply_buf(&mut self, w: &[&str], line: &str, ex: &mut Exec) -> String {
        let cap = self.ri.cap;
        match w {
            ["slice", b, e] => {
                let (Ok(b), Some(e)) = (b.parse::<usize>(), parse_end(e)) else { return "bad-op".into() };
                let St::Buf(v) = &mut self.st else { unreachable!() };
                let in_range = catch(|| (*v).buf_len()).map(|l| b <= l).unwrap_or(false) && e.map(|e| b <= e).unwrap_or(true);
                ex.tag(if in_range { "slice" } else { "slice-out-of-range" });
                self.ctor(ex, line, in_range, move |v| Box::new(v.slice(range_of(b, e))))
            }
            ["uninit"] => {
                ex.tag("uninit");
                self.ctor(ex, line, true, |v| Box::new(v.uninit()))
            }
            ["flat", b1, e1, b2, e2] => {
                let (Ok(b1), Some(e1), Ok(b2), Some(e2)) = (b1.parse::<usize>(), parse_end(e1), b2.parse::<usize>(), parse_end(e2)) else {
                    return "bad-op".into();
                };
                ex.tag("flatten");
                // monitor: flatten shows the same ranges as the nested slice it replaces
                let ri = RootInfo { ptr: self.ri.ptr, cap: self.ri.cap, reported_cap: self.ri.reported_cap, reported_off: self.ri.reported_off };
                let mut disagree: Option<String> = None;
                let dis = &mut disagree;
                let out = self.ctor(ex, line, false, move |v| {
                    let mut nested: Slice<Slice<BV>> = v.slice(range_of(b1, e1)).slice(range_of(b2, e2));
                    let ni = catch(|| {
                        let s = nested.as_init();
                        (ri.off(s.as_ptr()), s.len())
                    })
                    .map_err(|_| ());
                    let nu = catch(|| {
                        let s = nested.as_uninit();
                        (ri.off(s.as_ptr() as *const u8), s.len())
                    })
                    .map_err(|_| ());
                    let mut flat = nested.flatten();
                    let fi = catch(|| {
                        let s = flat.as_init();
                        (ri.off(s.as_ptr()), s.len())
                    })
                    .map_err(|_| ());
                    let fu = catch(|| {
                        let s = flat.as_uninit();
                        (ri.off(s.as_ptr() as *const u8), s.len())
                    })
                    .map_err(|_| ());
                    if ni != fi || nu != fu {
                        *dis = Some(format!("nested i={ni:?} u={nu:?} flattened i={fi:?} u={fu:?}"));
                    }
                    Box::new(flat)
                });
                if let Some(d) = disagree {
                    ex.fail("C10:flatten", format!("{line}: {d}"));
                }
                out
            }
            ["peel"] => {
                ex.tag("peel");
                self.ctor(ex, line, true, |v| v.peel())
            }
            ["reader"] => {
                ex.tag("reader");
                let St::Buf(v) = std::mem::replace(&mut self.st, St::Dead) else { unreachable!() };
                match catch(move || v.into_reader()) {
                    Ok(r) => {
                        // print the state of the slice the reader wraps
                        let mut s: BV = Box::new(r.into_remaining());
                        let o = observe(&mut s, &self.ri);
                        let reused = s.reused_uninit();
                        monitor_state(ex, &o, cap, reused, line);
                        // `into_remaining` + `peel` gives the buffer back; wrap it again the same way
                        let inner = s.peel();
                        self.st = St::Reader(inner.into_reader());
                        show_obs(&o)
                    }
                    Err(_) => "panic".into(),
                }
            }
            ["fill", h] => {
                let data = unhex(h);
                let k = data.len();
                let St::Buf(v) = &mut self.st else { unreachable!() };
                let before = observe(v, &self.ri);
                let reused_before = (*v).reused_uninit();
                let Ok((ou, lu)) = before.uninit else { return "panic".into() };
                if before.init.is_err() {
                    return "panic".into();
                }
                if k > lu {
                    ex.tag("fill-contract");
                    return "contract".into();
                }
                // what a driver does: store through the as_uninit pointer, then advance_to(k)
                {
                    let dst = (*v).as_uninit();
                    for (i, b) in data.iter().enumerate() {
                        dst[i].write(*b);
                    }
                }
                if let Err(_) = catch(|| unsafe { (*v).advance_to(k) }) {
                    return "panic".into();
                }
                ex.tag(if k == 0 { "fill-0" } else { "fill" });
                let after = observe(v, &self.ri);
                // ---- fill law (implementation-only oracle) ----
                let mut expect = before.mem.clone();
                expect[ou..ou + k].copy_from_slice(&data);
                let mut bad = vec![];
                if after.mem != expect {
                    bad.push(format!("root memory {} expected {}", hex(&after.mem), hex(&expect)));
                }
                if after.root_len < ou + k {
                    bad.push(format!("bytes written at {ou}..{} but root len is {}", ou + k, after.root_len));
                }
                if after.root_len < before.root_len {
                    bad.push(format!("root len shrank {} -> {}", before.root_len, after.root_len));
                }
                match after.init {
                    _ if k == 0 => {}
                    Ok((oi, li)) if oi == ou && li >= k => {}
                    other => bad.push(format!("view as_init after the fill is {other:?}, expected to start at {ou} and cover {k}")),
                }
                if !bad.is_empty() {
                    // the known finding F6 is exactly: the re-used `Uninit` exposes the tail *behind* the bytes already
                    // recorded (writable region displaced behind the start of the initialised region) while `advance_to` counts from the
                    // original begin. Any other broken fill through a re-used `Uninit` is not that finding.
                    let f6_shape = match (before.init, before.uninit) {
                        // (under further slices the displacement stays: the writable region starts behind the
                        // start of the initialised region)
                        (Ok((oi, _)), Ok((ou, _))) => ou > oi,
                        _ => false,
                    };
                    let sig = if reused_before && f6_shape { "F6:uninit-second-fill" } else { "C10:fill-law" };
                    ex.fail(sig, format!("{line} on {}: {}", show_obs(&before), bad.join("; ")));
                    ex.tag("fill-law-broken");
                }
                self.state_line(ex, line)
            }
            ["fillapp", h] => {
                // what an appending reader does with ONE `Uninit` view: store at the front of `as_uninit()`, record
                // with `advance(k)`; issued only on `Uninit` over a stack without further `Uninit` layers (structural)
                let data = unhex(h);
                let k = data.len();
                let St::Buf(v) = &mut self.st else { unreachable!() };
                if !(*v).is_uninit_top() || (*v).uninit_layers() != 1 {
                    ex.tag("fillapp-not-uninit");
                    return "contract".into();
                }
                let before = observe(v, &self.ri);
                let Ok((ou, lu)) = before.uninit else { return "panic".into() };
                let Ok((oi, li)) = before.init else { return "panic".into() };
                if k > lu {
                    ex.tag("fill-contract");
                    return "contract".into();
                }
                // never hand a root container a length beyond its allocation (`Vec::set_len` beyond the capacity is UB;
                // std's debug precondition check aborts the process): the view's own bookkeeping says the recorded
                // length would end at `oi + li + k`
                if oi + li + k > cap {
                    ex.fail(
                        "C10:uninit-append",
                        format!(
                            "{line} on {}: as_uninit() offers {lu} bytes at {ou} although {li} bytes were already filled through this view at {oi}: recording {k} more with advance() would set the root length to {} > capacity {cap}",
                            show_obs(&before),
                            oi + li + k
                        ),
                    );
                    ex.tag("append-law-broken");
                    return "contract-broken".into();
                }
                {
                    let dst = (*v).as_uninit();
                    for (i, b) in data.iter().enumerate() {
                        dst[i].write(*b);
                    }
                }
                if let Err(_) = catch(|| unsafe { (*v).advance(k) }) {
                    return "panic".into();
                }
                ex.tag(if li > 0 { "fillapp-again" } else { "fillapp-first" });
                let after = observe(v, &self.ri);
                // ---- append law (implementation-only oracle): the bytes are where they were written, nothing else
                // changed, the root's initialised length ends exactly behind them (grow-only roots: never shrinks), and
                // the view shows everything filled through it so far, in order ----
                let mut expect = before.mem.clone();
                expect[ou..ou + k].copy_from_slice(&data);
                let mut bad = vec![];
                if after.mem != expect {
                    bad.push(format!("root memory {} expected {}", hex(&after.mem), hex(&expect)));
                }
                if k > 0 && ou < oi + li {
                    bad.push(format!("writable region {ou}+{lu} overlaps the {li} bytes already filled through this view at {oi}"));
                }
                if after.root_len < ou + k {
                    bad.push(format!("bytes written at {ou}..{} but root len is {}", ou + k, after.root_len));
                }
                if after.root_len > before.root_len.max(ou + k) {
                    bad.push(format!(
                        "root len {} covers bytes never written (written {ou}..{}, root len before {})",
                        after.root_len,
                        ou + k,
                        before.root_len
                    ));
                }
                match after.init {
                    Ok((oi2, li2)) if oi2 == oi && li2 == li + k && oi + li == ou => {}
                    _ if k == 0 => {}
                    other => bad.push(format!("view as_init after the fill is {other:?}, expected {oi}+{} ending at the written bytes {ou}+{k}", li + k)),
                }
                if !bad.is_empty() {
                    ex.fail("C10:uninit-append", format!("{line} on {}: {}", show_obs(&before), bad.join("; ")));
                    ex.tag("append-law-broken");
                }
                // the state line is printed without the general prefix monitor: a re-used `Uninit` is F6-view there
                self.state_line(ex, line)
            }
            ["setlen", n] | ["advto", n] | ["adv", n] => {
                let Ok(n) = n.parse::<usize>() else { return "bad-op".into() };
                let St::Buf(v) = &mut self.st else { unreachable!() };
                // `adv` needs buf_len first
                let li = if w[0] == "adv" {
                    match catch(|| (*v).buf_len()) {
                        Ok(l) => l,
                        Err(_) => return "panic".into(),
                    }
                } else {
                    0
                };
                let Ok(lu) = catch(|| (*v).as_uninit().len()) else { return "panic".into() };
                if li + n > lu {
                    ex.tag("setlen-contract");
                    return "contract".into();
                }
                let r = match w[0] {
                    "setlen" => catch(|| unsafe { (*v).set_len(n) }),
                    "advto" => catch(|| unsafe { (*v).advance_to(n) }),
                    _ => catch(|| unsafe { (*v).advance(n) }),
                };
                if r.is_err() {
                    return "panic".into();
                }
                ex.tag(w[0].to_string());
                self.state_line(ex, line)
            }
            ["clear"] => {
                let St::Buf(v) = &mut self.st else { unreachable!() };
                if catch(|| (*v).clear()).is_err() {
                    return "panic".into();
                }
                ex.tag("clear");
                self.state_line(ex, line)
            }
            ["query"] => {
                ex.tag("query");
                let St::Buf(v) = &mut self.st else { unreachable!() };
                let o = observe(v, &self.ri);
                let reused = (*v).reused_uninit();
                let f = |r: Result<usize, String>| r.map(|x| x.to_string()).unwrap_or("panic".into());
                let b = |r: Result<bool, String>| r.map(|x| if x { "1" } else { "0" }.to_string()).unwrap_or("panic".into());
                let len = f(catch(|| (*v).buf_len()));
                let capq = f(catch(|| (*v).buf_capacity()));
                let empty = b(catch(|| (*v).is_empty()));
                let filled_r = catch(|| (*v).is_filled());
                let ptr = f(catch(|| self.ri.off((*v).buf_ptr())));
                let mptr_r = catch(|| self.ri.off((*v).buf_mut_ptr() as *const u8));
                // as_mut_slice = from_raw_parts_mut(buf_mut_ptr(), buf_len()): never build it outside the allocation
                let ms = match (&o.init, &mptr_r) {
                    (Ok((oi, li)), Ok(mo)) => {
                        if mo + li > cap {
                            ex.tag("as-mut-slice-oob");
                            ex.fail(
                                if reused { "F6:uninit-extend-oob" } else { "C10:as-mut-slice" },
                                format!("{line} on {}: as_mut_slice() would be {mo}+{li}, beyond the allocation of {cap}", show_obs(&o)),
                            );
                            "ub".to_string()
                        } else {
                            match catch(|| {
                                let s = (*v).as_mut_slice();
                                (self.ri.off(s.as_ptr()), s.len())
                            }) {
                                Ok((so, sl)) => {
                                    // law: the same bytes as as_init()
                                    if (so, sl) != (*oi, *li) {
                                        ex.fail(
                                            if reused { "F6:uninit-reused-view" } else { "C10:as-mut-slice" },
                                            format!("{line} on {}: as_mut_slice() is {so}+{sl}, as_init() is {oi}+{li}", show_obs(&o)),
                                        );
                                    }
                                    format!("{so}+{sl}")
                                }
                                Err(_) => "panic".into(),
                            }
                        }
                    }
                    _ => "panic".into(),
                };
                // law: is_filled <=> buf_len == buf_capacity; is_empty <=> buf_len == 0
                if let (Ok(fl), Ok((_, li)), Ok((_, lu))) = (&filled_r, &o.init, &o.uninit) {
                    if *fl != (li == lu) {
                        ex.fail("C10:query", format!("{line}: is_filled() = {fl} with len {li} cap {lu}"));
                    }
                }
                format!("q len={len} cap={capq} empty={empty} filled={} ptr={ptr} mptr={} ms={ms}", b(filled_r), f(mptr_r))
            }
            ["ensure"] => {
                let St::Buf(v) = &mut self.st else { unreachable!() };
                let before = observe(v, &self.ri);
                let reused = (*v).reused_uninit();
                let r = catch(|| {
                    let s = (*v).ensure_init();
                    (self.ri.off(s.as_ptr()), s.len())
                });
                match r {
                    Err(_) => {
                        ex.tag("ensure-panic");
                        if !reused {
                            ex.fail("C10:ensure-init", format!("{line} on {}: ensure_init panicked", show_obs(&before)));
                        } else {
                            ex.fail("F6:uninit-reused-view", format!("{line} on {}: ensure_init panics (as_init/as_uninit panics or buf_len > as_uninit().len())", show_obs(&before)));
                        }
                        "panic".into()
                    }
                    Ok((so, sl)) => {
                        ex.tag("ensure");
                        let after = observe(v, &self.ri);
                        // law: returns the whole writable region, now all initialised: the prefix is kept, the rest is
                        // zero; nothing else changes, set_len is not called
                        let mut bad = vec![];
                        if let (Ok((_, li)), Ok((ou, lu))) = (before.init, before.uninit) {
                            let mut expect = before.mem.clone();
                            if li <= lu {
                                for x in &mut expect[ou + li..ou + lu] {
                                    *x = 0;
                                }
                            }
                            if after.mem != expect {
                                bad.push(format!("memory {} expected {}", hex(&after.mem), hex(&expect)));
                            }
                            if (so, sl) != (ou, lu) {
                                bad.push(format!("returned {so}+{sl}, writable region is {ou}+{lu}"));
                            }
                        }
                        if after.root_len != before.root_len || after.init != before.init || after.uninit != before.uninit {
                            bad.push("lengths / ranges changed".to_string());
                        }
                        if !bad.is_empty() {
                            ex.fail(if reused { "F6:uninit-reused-view" } else { "C10:ensure-init" }, format!("{line} on {}: {}", show_obs(&before), bad.join("; ")));
                        }
                        format!("ens:{so}+{sl} {}", self.state_line(ex, line))
                    }
                }
            }
            ["copyw", a, b, c] => {
                let (Ok(a), Ok(b), Ok(c)) = (a.parse::<usize>(), b.parse::<usize>(), c.parse::<usize>()) else { return "bad-op".into() };
                let St::Buf(v) = &mut self.st else { unreachable!() };
                let before = observe(v, &self.ri);
                let Ok((ou, lu)) = before.uninit else { return "panic".into() };
                let in_range = a <= b && b <= lu && c + (b - a) <= lu;
                match catch(|| (*v).copy_within(a..b, c)) {
                    Err(_) => {
                        ex.tag("copyw-panic");
                        if in_range {
                            ex.fail("C10:copy-within", format!("{line} on {}: in-range copy_within panicked", show_obs(&before)));
                        }
                        "panic".into()
                    }
                    Ok(()) => {
                        ex.tag("copyw");
                        // law: slice::copy_within on the view's region, everything else untouched
                        let mut expect = before.mem.clone();
                        if in_range {
                            expect[ou..ou + lu].copy_within(a..b, c);
                        }
                        let after = observe(v, &self.ri);
                        if !in_range || after.mem != expect || after.root_len != before.root_len {
                            ex.fail("C10:copy-within", format!("{line} on {}: memory {} expected {}", show_obs(&before), hex(&after.mem), hex(&expect)));
                        }
                        self.state_line(ex, line)
                    }
                }
            }
            ["reserve", ..] | ["reservex", ..] if w.len() == 2 || w.len() == 3 => {
                let Ok(n) = w[1].parse::<usize>() else { return "bad-op".into() };
                let Some(ans) = parse_ans(w.get(2).copied()) else { return "bad-op".into() };
                self.do_reserve(ex, line, n, w[0] == "reservex", ans)
            }
            ["extend", h] | ["wwrite", h] | ["extend", h, _] | ["wwrite", h, _] => {
                let Some(ans) = parse_ans(w.get(2).copied()) else { return "bad-op".into() };
                let data = unhex(h);
                let k = data.len();
                let St::Buf(v) = &mut self.st else { unreachable!() };
                let mut before = observe(v, &self.ri);
                let reused_before = (*v).reused_uninit();
                let Ok((oi, li)) = before.init else { return "ext:panic".into() };
                // would the real call reallocate a growable root? The new capacity is the container's / allocator's
                // choice: it is issued only when the line carries the answer (or `?` = report it)
                let growable = self.growable;
                let mut cap = cap;
                let mut probed: Option<usize> = None;
                match catch(|| would_grow(v, k, cap, growable)) {
                    Ok(true) => {
                        if ans == Ans::None {
                            ex.tag("extend-grow");
                            return "ext:grow".into();
                        }
                        // the reserve extend_from_slice performs first (a second reserve(k) is then a no-op)
                        if !catch(|| IoBufMut::reserve(&mut **v, k).is_ok()).unwrap_or(false) {
                            return "ext:panic".into();
                        }
                        let newcap = self.refresh_root();
                        ex.tag("extend-grown");
                        if ans == Ans::Probe {
                            probed = Some(newcap);
                        } else if ans != Ans::Cap(newcap) {
                            return format!("ext:cap-is:{newcap}");
                        }
                        self.monitor_grown(ex, line, &before, k);
                        cap = newcap;
                        let St::Buf(v) = &mut self.st else { unreachable!() };
                        before = observe(v, &self.ri);
                    }
                    Ok(false) => {}
                    Err(_) => return "ext:panic".into(),
                }
                let St::Buf(v) = &mut self.st else { unreachable!() };
                // the raw copy of extend_from_slice goes to buf_mut_ptr() + buf_len(): refuse to run it
                // when that leaves the root allocation (only possible if reserve() said yes wrongly)
                let reserve_ok = match catch(|| IoBufMut::reserve(&mut **v, k).is_ok()) {
                    Ok(r) => r,
                    Err(_) => return "ext:panic".into(),
                };
                let ou = match (reserve_ok, &before.uninit) {
                    (true, Err(())) => return "ext:panic".into(),
                    (true, Ok((ou, _))) => *ou,
                    (false, _) => 0,
                };
                if reserve_ok && k > 0 && ou + li + k > cap {
                    ex.tag("extend-oob");
                    ex.fail(
                        if reused_before { "F6:uninit-extend-oob" } else { "C10:extend-oob" },
                        format!(
                            "{line} on {}: reserve({k}) = Ok, extend_from_slice would copy {k} bytes to root offset {} (buf_mut_ptr {ou} + buf_len {li}) beyond the allocation of {cap}",
                            show_obs(&before),
                            ou + li
                        ),
                    );
                    return "ext:ub".into();
                }
                let res: Result<bool, String> = if w[0] == "extend" {
                    catch(|| (*v).extend_from_slice(&data).is_ok())
                } else {
                    // Writer::write on a by-reference writer (same code path as into_writer().write())
                    catch(|| {
                        let mut wr = (*v).as_writer();
                        match wr.write(&data) {
                            Ok(n) => {
                                assert_eq!(n, k);
                                true
                            }
                            Err(_) => false,
                        }
                    })
                };
                match res {
                    Err(_) => "ext:panic".into(),
                    Ok(false) => {
                        ex.tag("extend-unsupported");
                        let after = observe(v, &self.ri);
                        if after != before {
                            ex.fail("C10:extend", format!("{line}: refused but state changed"));
                        }
                        "ext:unsupported".into()
                    }
                    Ok(true) => {
                        ex.tag("extend");
                        let after = observe(v, &self.ri);
                        // append law: the view's initialised bytes are the old ones followed by `data`
                        let mut expect = before.mem.clone();
                        let mut bad = vec![];
                        if oi + li + k <= cap {
                            expect[oi + li..oi + li + k].copy_from_slice(&data);
                            if after.mem != expect {
                                bad.push(format!("root memory {} expected {}", hex(&after.mem), hex(&expect)));
                            }
                        } else {
                            bad.push("no room".to_string());
                        }
                        if after.init != Ok((oi, li + k)) {
                            bad.push(format!("as_init after is {:?}, expected {}+{}", after.init, oi, li + k));
                        }
                        if after.root_len < before.root_len || after.root_len < oi + li + k {
                            bad.push(format!("root len {} -> {}", before.root_len, after.root_len));
                        }
                        if !bad.is_empty() {
                            let sig = if reused_before { "F6:uninit-second-fill" } else { "C10:extend" };
                            ex.fail(sig, format!("{line} on {}: {}", show_obs(&before), bad.join("; ")));
                        }
                        if let Some(c) = probed {
                            return format!("ext:cap-is:{c}");
                        }
                        format!("ext:ok {}", self.state_line(ex, line))
                    }
                }
            }
            _ => "bad-op".into(),
        }
    }
}

/// the optional trailing token of `reserve` / `extend`: the capacity the container reports after growing
#[derive(Clone, Copy, PartialEq, Debug)]
pub enum Ans {
    None,
    Cap(usize),
    /// `?`: perform the call and report the capacity (used by the generators, never in a finished case)
    Probe,
}

fn parse_ans(t: Option<&str>) -> Option<Ans> {
    match t {
        None => Some(Ans::None),
        Some("?") => Some(Ans::Probe),
        Some(x) => x.parse().ok().map(Ans::Cap),
    }
}

pub const HUGE: usize = 1 << 63;

impl Machine {
    /// after a growing reserve: new root pointer / capacity from the container; everything behind the initialised
    /// prefix is (re)filled with the pattern 0xCC (a SmallVec that spills only copies `len` bytes)
    fn refresh_root(&mut self) -> usize {
        let St::Buf(v) = &mut self.st else { unreachable!() };
        let (ptr, cap) = v.root_alloc();
        let len = v.root_len().min(cap);
        for i in len..cap {
            unsafe { *ptr.add(i) = 0xCC };
        }
        self.ri = RootInfo { ptr, cap, reported_cap: Some(cap), reported_off: 0 };
        cap
    }

    /// reserve law after a successful growth: initialised contents and length kept, capacity >= len + n, never smaller
    fn monitor_grown(&mut self, ex: &mut Exec, line: &str, before: &Obs, n: usize) {
        let St::Buf(v) = &mut self.st else { unreachable!() };
        let after = observe(v, &self.ri);
        let mut bad = vec![];
        if after.root_len != before.root_len {
            bad.push(format!("root len {} -> {}", before.root_len, after.root_len));
        }
        let l = before.root_len.min(after.mem.len());
        if after.mem[..l] != before.mem[..l] {
            bad.push("initialised contents changed".to_string());
        }
        if after.mem.len() < before.mem.len() {
            bad.push(format!("capacity shrank {} -> {}", before.mem.len(), after.mem.len()));
        }
        if after.mem.len() < before.root_len + n {
            bad.push(format!("capacity {} < len {} + additional {n}", after.mem.len(), before.root_len));
        }
        if !bad.is_empty() {
            ex.fail("C10:reserve", format!("{line} on {}: {}", show_obs(before), bad.join("; ")));
        }
    }

    fn do_reserve(&mut self, ex: &mut Exec, line: &str, n: usize, exact: bool, ans: Ans) -> String {
        let cap = self.ri.cap;
        let growable = self.growable;
        let bytesmut = self.kind == "bytesmut";
        let St::Buf(v) = &mut self.st else { unreachable!() };
        let before = observe(v, &self.ri);
        let reused = (*v).reused_uninit();
        let reaches = match catch(|| IoBufMut::reserve(&mut **v, 0).is_ok()) {
            Ok(r) => r,
            Err(_) => return "res:panic".into(),
        };
        let needs_grow = reaches && growable && n > cap - before.root_len;
        if needs_grow && n >= HUGE && bytesmut {
            return "res:skip".into(); // BytesMut::reserve panics on overflow / aborts on allocation failure
        }
        if needs_grow && n < HUGE && ans == Ans::None {
            ex.tag("reserve-need-cap");
            return "res:need-cap".into();
        }
        #[derive(Debug)]
        enum R {
            Ok,
            Unsupported,
            Failed,
            Mismatch(usize, usize),
        }
        let r = catch(|| {
            if exact {
                match IoBufMut::reserve_exact(&mut **v, n) {
                    Ok(()) => R::Ok,
                    Err(compio_buf::ReserveExactError::NotSupported) => R::Unsupported,
                    Err(compio_buf::ReserveExactError::ReserveFailed(_)) => R::Failed,
                    Err(compio_buf::ReserveExactError::ExactSizeMismatch { expected, reserved }) => R::Mismatch(expected, reserved),
                }
            } else {
                match IoBufMut::reserve(&mut **v, n) {
                    Ok(()) => R::Ok,
                    Err(compio_buf::ReserveError::NotSupported) => R::Unsupported,
                    Err(compio_buf::ReserveError::ReserveFailed(_)) => R::Failed,
                }
            }
        });
        let Ok(r) = r else { return "res:panic".into() };
        let (_, newcap) = {
            let St::Buf(v) = &mut self.st else { unreachable!() };
            v.root_alloc()
        };
        let grown = newcap != cap;
        if grown {
            self.refresh_root();
            if ans != Ans::Cap(newcap) {
                return format!("res:cap-is:{newcap}");
            }
        }
        let St::Buf(v) = &mut self.st else { unreachable!() };
        let after = observe(v, &self.ri);
        ex.tag(format!("reserve:{}", match r { R::Ok => "ok", R::Unsupported => "unsupported", R::Failed => "failed", R::Mismatch(..) => "mismatch" }));
        if grown {
            ex.tag("reserve-grown");
        }
        // ---- reserve law (implementation-only) ----
        let mut bad = vec![];
        match &r {
            R::Ok | R::Mismatch(..) => {
                if grown {
                    self.monitor_grown(ex, line, &before, if matches!(r, R::Ok) { n } else { 0 });
                } else if after != before {
                    bad.push("state changed without growth".to_string());
                }
                if let R::Ok = r {
                    if after.mem.len() - after.root_len.min(after.mem.len()) < n {
                        bad.push(format!("Ok but the root has only {} spare bytes for {n}", after.mem.len() - after.root_len));
                    }
                    if let (Ok((_, li)), Ok((_, lu))) = (after.init, after.uninit) {
                        if lu < li || lu - li < n {
                            let sig = if reused { "F6:uninit-reused-view" } else { "C10:reserve" };
                            ex.fail(sig, format!("{line} on {}: Ok but the view has buf_capacity {lu} - buf_len {li} < {n}", show_obs(&before)));
                        }
                    }
                }
                if let R::Mismatch(expected, reserved) = r {
                    if expected != n || reserved == n || reserved != after.mem.len() - after.root_len {
                        bad.push(format!("ExactSizeMismatch {{ expected: {expected}, reserved: {reserved} }} with spare {}", after.mem.len() - after.root_len));
                    }
                }
            }
            R::Unsupported | R::Failed => {
                if after != before || grown {
                    bad.push("refused but the state changed".to_string());
                }
            }
        }
        if !bad.is_empty() {
            ex.fail("C10:reserve", format!("{line} on {}: {:?}: {}", show_obs(&before), r, bad.join("; ")));
        }
        match r {
            R::Ok => format!("res:ok {}", self.state_line(ex, line)),
            R::Mismatch(_, reserved) => format!("res:mismatch:{reserved} {}", self.state_line(ex, line)),
            R::Unsupported => "res:unsupported".into(),
            R::Failed => "res:failed".into(),
        }
    }
}

/// `Machine::apply` with every panic that escapes the per-call `catch`es turned into a monitor failure: the
/// harness process must survive whatever the real code does (short of UB)
pub fn safe_apply(m: &mut Machine, line: &str, ex: &mut Exec) -> String {
    match catch(|| m.apply(line, ex)) {
        Ok(o) => o,
        Err(msg) => {
            ex.fail("C10:panic", format!("{line}: panic outside the modelled panics: {msg}"));
            *m = Machine::new();
            "harness-panic".into()
        }
    }
}

/// Would the real `reserve(k)` reallocate a growable root (allocator-dependent, not issued)?
/// `reserve(0)` walks the real path: a `Slice` with an end refuses before reaching the root, `Uninit`
/// forwards to the buffer under its slice; at the root the real impls compare `k` with `cap - len`.
fn would_grow(v: &mut BV, k: usize, cap: usize, growable: bool) -> bool {
    if IoBufMut::reserve(&mut **v, 0).is_err() {
        return false;
    }
    growable && k > cap - (*v).root_len()
}

// ---------------------------------------------------------------------------------------------
// F6 family: a concrete demonstration that stays inside one allocation
// ---------------------------------------------------------------------------------------------

/// `sibling <hcap> <tcap> <hex1> <hex2>`: one `BytesMut` allocation of hcap+tcap bytes (all 0xAA) split into
/// a head (capacity hcap, emptied) and a tail; `head.uninit().into_writer()` gets two `write`s.
/// Output: the head's length and the bytes of the whole allocation.
fn sibling_demo(w: &[&str], line: &str, ex: &mut Exec) -> String {
    let (Ok(hcap), Ok(tcap)) = (w[1].parse::<usize>(), w[2].parse::<usize>()) else { return "bad-op".into() };
    let (d1, d2) = (unhex(w[3]), unhex(w[4]));
    let (k1, k2) = (d1.len(), d2.len());
    // stay inside the one allocation and never reallocate
    if hcap == 0 || k1 + k2 > hcap || 2 * k1 + k2 > hcap + tcap || hcap + tcap > 64 {
        return "bad-op".into();
    }
    let mut all = BytesMut::with_capacity(hcap + tcap);
    all.extend_from_slice(&vec![0xAA; hcap + tcap]);
    let tail = all.split_off(hcap);
    let mut head = all;
    head.clear();
    if head.capacity() != hcap {
        return "bad-op".into();
    }
    let base = head.as_ptr();
    let mut wr = head.uninit().into_writer();
    let r1 = wr.write(&d1);
    let r2 = wr.write(&d2);
    let head = wr.into_inner().into_inner();
    assert!(r1.is_ok() && r2.is_ok());
    assert_eq!(head.as_ptr(), base, "no reallocation");
    let mem = unsafe { std::slice::from_raw_parts(base, hcap + tcap) }.to_vec();
    ex.tag("sibling-demo");
    // monitor 1 (append law of Writer): the head holds d1 ++ d2
    let mut want = d1.clone();
    want.extend_from_slice(&d2);
    if head[..] != want[..] {
        ex.fail(
            "F6:uninit-second-fill",
            format!("{line}: Writer<Uninit<BytesMut>> wrote {} then {}, buffer holds {}", hex(&d1), hex(&d2), hex(&head)),
        );
    }
    // monitor 2 (memory safety): a buffer of capacity hcap must not change bytes outside its capacity
    if tail.iter().any(|b| *b != 0xAA) {
        ex.fail(
            "F6:uninit-extend-oob",
            format!(
                "{line}: the second write went {} bytes past the head's capacity {hcap} into the sibling buffer: tail = {}",
                tail.iter().filter(|b| **b != 0xAA).count(),
                hex(&tail)
            ),
        );
    }
    format!("root {}:{}", head.len(), hex(&mem))
}

// ---------------------------------------------------------------------------------------------
// generators
// ---------------------------------------------------------------------------------------------

const KINDS: [&str; 11] =
    ["vec", "vec", "bytesmut", "bytesmut", "arr", "boxed", "arrayvec", "smallvec", "sref", "refvec", "boxvec"];

fn gen_root(rng: &mut Rng, max_cap: usize) -> String {
    let kind = *rng.pick(&KINDS);
    let cap = match kind {
        "smallvec" => rng.range(8, 16.max(max_cap as u64).min(20)) as usize,
        "arr" | "arrayvec" => *rng.pick(&SIZES[..17.min(max_cap + 1)]),
        _ => rng.range(0, max_cap as u64) as usize,
    };
    let len = match kind {
        "arr" | "boxed" | "sref" => cap,
        _ => match rng.below(4) {
            0 => 0,
            1 => cap,
            _ => rng.range(0, cap as u64) as usize,
        },
    };
    let base = rng.below(200) as u8;
    let mem: Vec<u8> = (0..cap).map(|i| base.wrapping_add(i as u8)).collect();
    format!("root {kind} {len} {}", hex(&mem))
}

fn fresh_bytes(rng: &mut Rng, k: usize) -> Vec<u8> {
    // bytes >= 0xE0 never occur in the initial memory patterns
    (0..k).map(|_| 0xE0 + rng.below(32) as u8).collect()
}

/// apply `l`; if it is a reserve / extend that has to grow the root, run it in probe mode (`?`) and return the
/// line completed with the capacity the real container chose, so that the case carries the allocator's answer
fn apply_resolving(m: &mut Machine, l: String, scratch: &mut Exec) -> String {
    let cap0 = m.root_cap();
    let o = safe_apply(m, &l, scratch);
    if o == "res:need-cap" || o == "ext:grow" {
        // whatever the probing call answers (it may end in `ub` / `panic` after the growth): the root has grown,
        // and the finished line has to say to what
        safe_apply(m, &format!("{l} ?"), scratch);
        let cap1 = m.root_cap();
        if cap1 != cap0 {
            return format!("{l} {cap1}");
        }
    }
    l
}

/// one random single-buffer program; the generator runs the machine to pick in-range parameters
fn gen_program(rng: &mut Rng, max_cap: usize) -> Vec<String> {
    let mut m = Machine::new();
    let mut scratch = Exec::new();
    let mut lines = vec![];
    let push = |m: &mut Machine, lines: &mut Vec<String>, l: String, scratch: &mut Exec| {
        // the generator runs the real code to draw in-range parameters: never let it take the process down
        lines.push(apply_resolving(m, l, scratch));
    };
    push(&mut m, &mut lines, gen_root(rng, max_cap), &mut scratch);
    let n_ops = rng.range(2, 9);
    let max_depth = rng.range(0, 4) as usize;
    for _ in 0..n_ops {
        if !m.alive() {
            break;
        }
        if m.in_reader() {
            let l = if rng.chance(2, 3) { format!("read {}", rng.below(6)) } else { "remaining".into() };
            push(&mut m, &mut lines, l, &mut scratch);
            continue;
        }
        let Ok(Some(o)) = catch(|| m.obs()) else { break };
        let li = o.init.map(|x| x.1).unwrap_or(0);
        let lu = o.uninit.map(|x| x.1).unwrap_or(0);
        let depth = m.depth();
        let hostile = rng.chance(1, 12);
        let choice = rng.below(100);
        let l = if depth < max_depth && choice < 35 {
            // a view constructor
            match rng.below(10) {
                0..=5 => {
                    let b = if hostile { li + 1 + rng.below(2) as usize } else { rng.range(0, li as u64) as usize };
                    let e = match rng.below(4) {
                        0 => None,
                        1 => Some(b + rng.below(3) as usize),
                        2 => Some(rng.range(b as u64, (lu.max(b) + 2) as u64) as usize),
                        _ => Some(if hostile && b > 0 { b - 1 } else { rng.range(b as u64, (li.max(b) + 1) as u64) as usize }),
                    };
                    format!("slice {b} {}", e.map(|e| e.to_string()).unwrap_or("-".into()))
                }
                6..=7 => "uninit".to_string(),
                _ => {
                    let b1 = rng.range(0, li as u64) as usize;
                    let e1 = if rng.chance(1, 2) { None } else { Some(rng.range(b1 as u64, (lu.max(b1) + 1) as u64) as usize) };
                    let l1 = e1.map(|e| e.min(li)).unwrap_or(li) - b1.min(li);
                    let b2 = rng.range(0, l1 as u64) as usize;
                    let e2 = if rng.chance(1, 2) { None } else { Some(rng.range(b2 as u64, (lu.max(b2) + 1) as u64) as usize) };
                    let f = |e: Option<usize>| e.map(|e| e.to_string()).unwrap_or("-".into());
                    format!("flat {b1} {} {b2} {}", f(e1), f(e2))
                }
            }
        } else if choice < 64 {
            let k = if hostile { lu + 1 } else if rng.chance(1, 6) { lu } else { rng.range(0, lu as u64) as usize };
            format!("fill {}", hex(&fresh_bytes(rng, k)))
        } else if choice < 70 {
            match rng.below(5) {
                0 => "query".to_string(),
                1 => "ensure".to_string(),
                2 => {
                    let a = rng.range(0, lu as u64) as usize;
                    let b = rng.range(a as u64, lu as u64) as usize;
                    let room = lu - (b - a);
                    format!("copyw {a} {b} {}", rng.range(0, room as u64))
                }
                _ => {
                    let n = rng.range(0, (lu.saturating_sub(li) + 6) as u64) as usize;
                    format!("{} {n}", if rng.chance(1, 3) { "reservex" } else { "reserve" })
                }
            }
        } else if choice < 76 {
            format!("setlen {}", if hostile { lu + 1 } else { rng.range(0, lu as u64) as usize })
        } else if choice < 81 {
            format!("advto {}", rng.range(0, lu as u64 + hostile as u64))
        } else if choice < 85 {
            format!("adv {}", rng.range(0, lu.saturating_sub(li) as u64 + hostile as u64))
        } else if choice < 87 {
            "clear".to_string()
        } else if choice < 93 {
            let extra = if rng.chance(1, 3) { 5 } else { 1 };
            let k = rng.range(0, (lu.saturating_sub(li) + extra) as u64) as usize;
            format!("{} {}", if rng.chance(1, 2) { "extend" } else { "wwrite" }, hex(&fresh_bytes(rng, k)))
        } else if choice < 95 && depth > 0 {
            "peel".to_string()
        } else if choice < 97 {
            "reader".to_string()
        } else {
            match rng.below(6) {
                0 => "query".to_string(),
                1 => "ensure".to_string(),
                2 => {
                    // copy_within, mostly in range
                    let a = rng.range(0, lu as u64) as usize;
                    let b = rng.range(a as u64, lu as u64 + hostile as u64) as usize;
                    let room = lu.saturating_sub(b - a);
                    format!("copyw {a} {b} {}", rng.range(0, room as u64 + hostile as u64))
                }
                3 | 4 => {
                    let n = match rng.below(8) {
                        0 => HUGE,
                        1 => 0,
                        _ => rng.range(0, (lu.saturating_sub(li) + 6) as u64) as usize,
                    };
                    format!("{} {n}", if rng.chance(1, 3) { "reservex" } else { "reserve" })
                }
                _ => "query".to_string(),
            }
        };
        push(&mut m, &mut lines, l, &mut scratch);
    }
    if m.in_reader() {
        push(&mut m, &mut lines, "remaining".into(), &mut scratch);
    }
    lines.push("end".into());
    lines
}

/// exhaustive small space: every root kind at small capacities, one slice / uninit layer (or two), one or two fills
/// run the lines on a scratch machine so that growing reserves / extends get the container's capacity answer
fn resolve_case(lines: Vec<String>) -> Vec<String> {
    let mut m = Machine::new();
    let mut scratch = Exec::new();
    lines.into_iter().map(|l| apply_resolving(&mut m, l, &mut scratch)).collect()
}

/// exhaustive small scope for the derived methods: every root kind (including the forwarding wrappers) at small
/// capacities x every length x {no view, slice(b..), slice(b..e), uninit()} x {query / ensure_init / every
/// copy_within / every reserve and reserve_exact request up to spare + 2 (+ the overflow request) / every
/// extend_from_slice and Writer::write up to spare + 2}
fn gen_exhaustive_methods(cases: &mut Vec<Case>, max_cap: usize) {
    let mut id = 0;
    for kind in ["vec", "bytesmut", "arr", "boxed", "arrayvec", "smallvec", "sref", "refvec", "boxvec"] {
        let caps: Vec<usize> = if kind == "smallvec" { vec![8, 9] } else { (0..=max_cap).collect() };
        for cap in caps {
            let lens: Vec<usize> = if matches!(kind, "arr" | "boxed" | "sref") {
                vec![cap]
            } else if kind == "smallvec" {
                vec![0, 6, cap]
            } else {
                (0..=cap).collect()
            };
            for len in lens {
                let mem: Vec<u8> = (0..cap).map(|i| 0x10 + i as u8).collect();
                let root = format!("root {kind} {len} {}", hex(&mem));
                let mut views: Vec<Vec<String>> = vec![vec![], vec!["uninit".into()]];
                for b in [0, len / 2, len] {
                    views.push(vec![format!("slice {b} -")]);
                    views.push(vec![format!("slice {b} {}", b.max(cap.saturating_sub(1)))]);
                }
                views.dedup();
                for view in views {
                    let spare = cap - len;
                    let wcap = cap; // upper bound of any view's writable length
                    let mut progs: Vec<Vec<String>> = vec![vec!["query".into(), "ensure".into(), "query".into(), "fill ee".into(), "query".into()]];
                    let mut cw = vec![];
                    for a in 0..=wcap.min(3) {
                        for b in a..=wcap.min(3) {
                            for d in 0..=wcap.min(3) {
                                cw.push(format!("copyw {a} {b} {d}"));
                            }
                        }
                    }
                    for chunk in cw.chunks(8) {
                        progs.push(chunk.to_vec());
                    }
                    for n in (0..=spare + 2).chain([HUGE]) {
                        progs.push(vec![format!("reserve {n}"), "query".into(), "fill ee".into()]);
                        progs.push(vec![format!("reservex {n}"), "query".into()]);
                    }
                    for k in 0..=spare + 2 {
                        progs.push(vec![format!("extend {}", hex(&vec![0xE1; k])), format!("wwrite {}", hex(&vec![0xE2; k.min(2)]))]);
                    }
                    for prog in progs {
                        let mut lines = vec![root.clone()];
                        lines.extend(view.iter().cloned());
                        lines.extend(prog);
                        lines.push("end".into());
                        cases.push(Case { name: format!("exm-{id}"), lines: resolve_case(lines) });
                        id += 1;
                    }
                }
            }
        }
    }
}

fn gen_exhaustive(cases: &mut Vec<Case>, max_cap: usize) {
    let mut id = 0;
    for kind in ["vec", "arr", "arrayvec", "bytesmut"] {
        for cap in 0..=max_cap {
            for len in 0..=cap {
                if kind == "arr" && len != cap {
                    continue;
                }
                let mem: Vec<u8> = (0..cap).map(|i| 0x10 + i as u8).collect();
                for b in 0..=len {
                    for e in (b..=cap + 1).map(Some).chain([None]) {
                        let e_s = e.map(|e| e.to_string()).unwrap_or("-".into());
                        let room = e.unwrap_or(cap).min(cap) - b;
                        for k in 0..=room {
                            let lines = vec![
                                format!("root {kind} {len} {}", hex(&mem)),
                                format!("slice {b} {e_s}"),
                                format!("fill {}", hex(&vec![0xEE; k])),
                                format!("fill {}", hex(&vec![0xDD; k / 2])),
                                "end".to_string(),
                            ];
                            cases.push(Case { name: format!("ex-slice-{id}"), lines });
                            id += 1;
                        }
                    }
                }
                // uninit, two fills (the F6 shape), and slice-of-uninit
                for k1 in 0..=(cap - len) {
                    for k2 in 0..=(cap - len - k1) {
                        let lines = vec![
                            format!("root {kind} {len} {}", hex(&mem)),
                            "uninit".to_string(),
                            format!("fill {}", hex(&vec![0xEE; k1])),
                            format!("fill {}", hex(&vec![0xDD; k2])),
                            "end".to_string(),
                        ];
                        cases.push(Case { name: format!("ex-uninit-{id}"), lines });
                        id += 1;
                    }
                }
            }
        }
    }
}

/// repeated appending fills through ONE `Uninit` view (write at the front of `as_uninit()`, `advance(k)`), over every
/// growable root kind, directly or under slices (also a cleared bounded window)
fn gen_append(tier: &str, rng: &mut Rng, cases: &mut Vec<Case>) {
    let thorough = tier == "thorough";
    let kinds = ["vec", "bytesmut", "arrayvec", "smallvec", "refvec", "boxvec"];
    // exhaustive small: cap 2..=4 (5 thorough), every len, two fills of every length
    let mut idx = 0;
    for kind in kinds {
        let caps: Vec<usize> = if kind == "smallvec" { vec![8, 9] } else { (2..=if thorough { 5 } else { 4 }).collect() };
        for cap in caps {
            let lens: Vec<usize> = if kind == "smallvec" { vec![0, 5, 7] } else { (0..cap).collect() };
            for len in lens {
                let mem: Vec<u8> = (0..cap).map(|j| 0x61 + j as u8).collect();
                for k1 in 0..=(cap - len).min(3) {
                    for k2 in 0..=(cap - len - k1).min(3) {
                        let d1: Vec<u8> = (0..k1).map(|j| 0x41 + j as u8).collect();
                        let d2: Vec<u8> = (0..k2).map(|j| 0x78 + j as u8).collect();
                        cases.push(Case {
                            name: format!("appx-{idx}"),
                            lines: vec![
                                format!("root {kind} {len} {}", hex(&mem)),
                                "uninit".into(),
                                format!("fillapp {}", hex(&d1)),
                                format!("fillapp {}", hex(&d2)),
                                "end".into(),
                            ],
                        });
                        idx += 1;
                    }
                }
            }
        }
    }
    let n = if thorough { 6_000 } else { 500 };
    for i in 0..n {
        let kind = *rng.pick(&kinds);
        let cap = if kind == "smallvec" { rng.range(8, 16) as usize } else { rng.range(1, 16) as usize };
        let len = rng.range(0, cap as u64) as usize;
        let mem = fresh_bytes(rng, cap);
        let mut lines = vec![format!("root {kind} {len} {}", hex(&mem))];
        let mut room = cap - len;
        match rng.below(4) {
            0 => {
                // a bounded window of the initialised bytes, emptied, then filled (the slice keeps its end)
                let b = rng.range(0, len as u64) as usize;
                let e = rng.range(b as u64, len as u64) as usize;
                lines.push(format!("slice {b} {e}"));
                lines.push("clear".into());
                room = e - b;
            }
            1 => {
                let b = rng.range(0, len as u64) as usize;
                lines.push(format!("slice {b} -"));
            }
            _ => {}
        }
        lines.push("uninit".into());
        for _ in 0..rng.range(2, 5) {
            let hostile = rng.chance(1, 15);
            let k = if hostile { room + 1 } else { rng.range(0, room.min(6) as u64) as usize };
            lines.push(format!("fillapp {}", hex(&fresh_bytes(rng, k))));
            if !hostile {
                room -= k;
            }
            if rng.chance(1, 6) {
                lines.push("query".into());
            }
        }
        lines.push("end".into());
        cases.push(Case { name: format!("app-{i}"), lines });
    }
}

fn generate(tier: &str, rng: &mut Rng) -> Vec<Case> {
    let thorough = tier == "thorough";
    let mut cases = vec![];
    // the generator runs the real code to pick in-range parameters; hostile picks panic (caught)
    if std::env::var_os("C10_VERBOSE").is_none() {
        std::panic::set_hook(Box::new(|_| {}));
    }
    gen_exhaustive(&mut cases, if thorough { 5 } else { 3 });
    gen_exhaustive_methods(&mut cases, if thorough { 4 } else { 2 });
    let n = if thorough { 60_000 } else { 2_500 };
    for i in 0..n {
        let max_cap = if rng.chance(1, 3) { 6 } else { 16 };
        cases.push(Case { name: format!("prog-{i}"), lines: gen_program(rng, max_cap) });
    }
    // F6 demonstrations inside one allocation
    let n = if thorough { 400 } else { 40 };
    for i in 0..n {
        let hcap = rng.range(2, 12) as usize;
        let tcap = rng.range(hcap as u64, 16) as usize;
        let k1 = rng.range(1, (hcap / 2) as u64) as usize;
        let k2 = rng.range(1, (hcap - k1).min(hcap + tcap - 2 * k1) as u64) as usize;
        cases.push(Case {
            name: format!("sibling-{i}"),
            lines: vec![format!("sibling {hcap} {tcap} {} {}", hex(&fresh_bytes(rng, k1)), hex(&fresh_bytes(rng, k2)))],
        });
    }
    vect::generate(tier, rng, &mut cases);
    ro::generate(tier, rng, &mut cases);
    pool::generate(tier, rng, &mut cases);
    gen_append(tier, rng, &mut cases);
    cases
}

fn exec(case: &Case) -> Exec {
    let mut ex = Exec::new();
    if case.lines.first().map(|l| l.starts_with("vroot")).unwrap_or(false) {
        vect::exec(case, &mut ex);
        return ex;
    }
    if case.lines.first().map(|l| l.starts_with("roroot") || l.starts_with("slicebytes")).unwrap_or(false) {
        ro::exec(case, &mut ex);
        return ex;
    }
    if case.lines.first().map(|l| l.starts_with("pool ")).unwrap_or(false) {
        pool::exec(case, &mut ex);
        return ex;
    }
    let mut m = Machine::new();
    let mut recorded = false;
    let mut layered = false;
    for l in &case.lines {
        let o = if l.starts_with("sibling ") {
            let w: Vec<&str> = l.split_whitespace().collect();
            if w.len() == 5 {
                match catch(|| sibling_demo(&w, l, &mut ex)) {
                    Ok(o) => o,
                    Err(msg) => {
                        ex.fail("C10:panic", format!("{l}: {msg}"));
                        "harness-panic".into()
                    }
                }
            } else {
                "bad-op".into()
            }
        } else {
            safe_apply(&mut m, l, &mut ex)
        };
        if (l.starts_with("fill ") || l.starts_with("fillapp ") || l.starts_with("ext") || l.starts_with("wwrite")) && (o.starts_with("i=") || o.starts_with("ext:ok")) {
            recorded = true;
        }
        if m.depth() > 0 {
            layered = true;
        }
        if o == "panic" || o == "harness-panic" || o == "contract" || o.starts_with("root ") && l.starts_with("sibling") {
            ex.nontrivial = true;
        }
        ex.out.push(o);
    }
    if recorded && layered {
        ex.nontrivial = true;
    }
    ex
}

fn main() {
    run_harness(
        generate,
        exec,
        "non-trivial: a program with at least one view layer and one recorded write (fill / extend) through it, \
         or one that ends in a panic / contract refusal, or a vectored program that records a fill or builds a view",
    );
}
