//! Interpreter of the key life-cycle line protocol on the REAL `compio_driver::Proactor`
//! (shared by the C01 and C05 harness binaries; the Lean side is lean/Compio/Model/KeyLifeScript.lean).
//!
//! Lines (one `Proactor` call or one harness-caused kernel event each):
//!
//!   cfg <iour|poll> <cap>      build a Proactor with that driver and submission-queue capacity
//!   push <rd|acc|zc|blk> <s>   rd  = Recv(4-byte buffer) on unix stream socket slot s (0..=3)
//!                              acc = AcceptMulti on TCP listener slot s (4..=5)
//!                              zc  = SendZc(5 bytes) on TCP connection slot 6 / unix stream pair slot 7
//!                              blk = Asyncify closure blocked on a channel ("gate")
//!   ready <s> <k>              write k 4-byte chunks to the peer of slot s / make k connections to listener s
//!   poll                       poll(Some(ZERO)) until two consecutive polls time out
//!   flush                      Proactor::flush (submit without looking at completions)
//!   pop <i> | popm <i>         Proactor::pop / pop_multishot
//!   cancel <i>                 Proactor::cancel(key)          (what dropping a submitted future does)
//!   ccancel <i>                Proactor::cancel(key.clone())  (CancelToken::register on a fired token)
//!   drop <i>                   drop(key)
//!   token <i> | tcancel <i>    register_cancel / cancel_token
//!   gate <i>                   let the blocked closure of op i finish
//!   pdrop                      drop(proactor)
//!   end                        no-op (final status line)
//!
//! Output: `<return value> | <status of every op>` with status L = storage live, F = released once
//! (buffer and descriptor wrapper dropped), R = operation handed back to the caller, anything else anomalous.
//!
//! The storage of an operation is observed through the public API only: buffers and descriptors are
//! harness types whose `Drop` counts (and records during which call it ran and whether the io_uring fd was
//! still open). Readiness is *caused* by the harness.

use std::{
    collections::VecDeque,
    io::Write as _,
    os::fd::{AsFd, AsRawFd, BorrowedFd, FromRawFd, OwnedFd, RawFd},
    sync::{
        Arc, Mutex,
        atomic::{AtomicI32, AtomicU32, AtomicUsize, Ordering::SeqCst},
        mpsc,
    },
    time::{Duration, Instant},
};

use compio_buf::{BufResult, IntoInner, IoBuf, IoBufMut, SetLen};
use compio_driver::{
    Cancel, DriverType, Key, Proactor, PushEntry,
    op::{AcceptMulti, Asyncify, Recv, SendZc},
};
use hx_common::{Case, Exec, catch};
use rustix::net::{RecvFlags, SendFlags};

pub mod multifd;

pub const CHUNK: usize = 4;
pub const ZC_LEN: usize = 5;
const CANARY: u64 = 0x5AFE_C0DE_D00D_F00D;

/// which `Proactor` call is running (recorded by `Drop` of the instrumented types)
static PHASE: AtomicU32 = AtomicU32::new(0);
/// raw fd of the io_uring instance of the current case (-1: none)
static RING_FD: AtomicI32 = AtomicI32::new(-1);

const PH_NONE: u32 = 0;
const PH_PUSH: u32 = 1;
const PH_POLL: u32 = 2;
const PH_POP: u32 = 3;
const PH_CANCEL: u32 = 4;
const PH_KEYDROP: u32 = 5;
const PH_TCANCEL: u32 = 6;
const PH_PDROP: u32 = 7;
const PH_HARNESS: u32 = 8; // the harness disposes of something it owns
const PH_FLUSH: u32 = 9;

fn phase_name(p: u32) -> &'static str {
    match p {
        PH_PUSH => "push",
        PH_POLL => "poll",
        PH_POP => "pop",
        PH_CANCEL => "cancel",
        PH_KEYDROP => "drop(key)",
        PH_TCANCEL => "cancel_token",
        PH_PDROP => "drop(proactor)",
        PH_HARNESS => "harness",
        PH_FLUSH => "flush",
        _ => "outside-any-call",
    }
}

fn ring_open() -> bool {
    let fd = RING_FD.load(SeqCst);
    fd >= 0 && unsafe { libc::fcntl(fd, libc::F_GETFD) } != -1
}

/// per-resource drop log
#[derive(Default)]
pub struct Counter {
    drops: AtomicUsize,
    /// phase of the first drop
    phase: AtomicU32,
    /// 1 = ring fd was open at the first drop, 2 = closed / no ring
    ring: AtomicU32,
    bad_canary: AtomicUsize,
}

impl Counter {
    fn hit(&self, canary_ok: bool) {
        if self.drops.fetch_add(1, SeqCst) == 0 {
            self.phase.store(PHASE.load(SeqCst), SeqCst);
            self.ring.store(if ring_open() { 1 } else { 2 }, SeqCst);
        }
        if !canary_ok {
            self.bad_canary.fetch_add(1, SeqCst);
        }
    }

    fn n(&self) -> usize {
        self.drops.load(SeqCst)
    }
}

/// instrumented buffer: a Vec with a canary, `Drop` counted
pub struct Buf {
    canary: u64,
    v: Vec<u8>,
    c: Arc<Counter>,
}

impl Drop for Buf {
    fn drop(&mut self) {
        let ok = self.canary == CANARY;
        self.canary = 0;
        self.c.hit(ok);
    }
}

impl IoBuf for Buf {
    fn as_init(&self) -> &[u8] {
        &self.v
    }
}

impl SetLen for Buf {
    unsafe fn set_len(&mut self, len: usize) {
        unsafe { self.v.set_len(len) }
    }
}

impl IoBufMut for Buf {
    fn as_uninit(&mut self) -> &mut [std::mem::MaybeUninit<u8>] {
        let cap = self.v.capacity();
        unsafe { std::slice::from_raw_parts_mut(self.v.as_mut_ptr().cast(), cap) }
    }
}

/// instrumented descriptor handle: shares the socket with the harness, `Drop` counted
pub struct Fd {
    canary: u64,
    fd: Arc<OwnedFd>,
    c: Arc<Counter>,
}

impl Drop for Fd {
    fn drop(&mut self) {
        let ok = self.canary == CANARY;
        self.canary = 0;
        self.c.hit(ok);
    }
}

impl AsFd for Fd {
    fn as_fd(&self) -> BorrowedFd<'_> {
        self.fd.as_fd()
    }
}

type BlkFn = Box<dyn FnOnce() -> BufResult<usize, Buf> + Send>;

enum KeyBox {
    Rd(Option<Key<Recv<Buf, Fd>>>),
    Acc(Option<Key<AcceptMulti<Fd>>>),
    Zc(Option<Key<SendZc<Buf, Fd>>>),
    Blk(Option<Key<Asyncify<BlkFn, Buf>>>),
}

macro_rules! with_key {
    ($kb:expr, $k:ident => $body:expr) => {
        match $kb {
            KeyBox::Rd($k) => $body,
            KeyBox::Acc($k) => $body,
            KeyBox::Zc($k) => $body,
            KeyBox::Blk($k) => $body,
        }
    };
}

#[derive(Clone, Copy, PartialEq, Eq, Debug)]
enum HKind {
    Rd,
    Acc,
    Zc,
    Blk,
}

struct OpRec {
    kind: HKind,
    slot: usize,
    key: KeyBox,
    token: Option<Cancel>,
    buf: Option<Arc<Counter>>,
    fd: Option<Arc<Counter>>,
    /// handed back by pop/cancel/push
    returned: bool,
    /// storage found released while the harness still held the key: key forgotten, never touched again
    forgotten: bool,
    /// a later line would have touched the forgotten key
    touched_after_forget: bool,
    /// push returned Pending
    pending: bool,
    /// a cancel of any route was requested
    cancel_requested: bool,
    /// cancel_token returned true / cancel() reached the driver, with the poll-line count at that moment
    cancel_issued_at: Option<usize>,
    /// harness estimate: SQ was full when the cancel was issued (io_uring) — the situation of the repaired finding F9
    cancel_sq_full: Option<(usize, u32)>,
    /// submission count when the cancel was issued
    cancel_mark: usize,
    /// poll-line count at push time
    pushed_at: usize,
    /// poll-line count when its SQE was submitted (io_uring; usize::MAX while it is only queued)
    submit_mark: usize,
    /// the OS had certainly delivered this op's data when the first cancel of any route was requested
    delivered_before_cancel: bool,
    /// the first cancel went through `cancel(key.clone())`
    first_cancel_was_clone: bool,
    /// line at which a cancel of this op reached the driver
    cancel_line: Option<usize>,
    /// SQE written but not yet submitted (harness estimate)
    queued: bool,
    /// CQEs estimated to sit in the CQ unseen (multishot / zero-copy)
    undrained: usize,
    gate: Option<mpsc::Sender<()>>,
    done_rx: Option<mpsc::Receiver<()>>,
    /// a final result has been observed by the harness
    finished: bool,
    /// monitor already reported
    reported: bool,
}

impl OpRec {
    fn held(&self) -> bool {
        !self.forgotten && with_key!(&self.key, k => k.is_some())
    }

    fn drops(&self) -> (usize, usize) {
        (self.buf.as_ref().map(|c| c.n()).unwrap_or(0), self.fd.as_ref().map(|c| c.n()).unwrap_or(0))
    }

    /// released by somebody else than the caller it was handed back to
    fn released(&self) -> bool {
        let (b, f) = self.drops();
        b > 0 || f > 0
    }

    fn first_drop(&self) -> Option<(u32, u32)> {
        for c in [&self.buf, &self.fd].into_iter().flatten() {
            if c.n() > 0 {
                return Some((c.phase.load(SeqCst), c.ring.load(SeqCst)));
            }
        }
        None
    }
}

enum Slot {
    Pair { a: Arc<OwnedFd>, peer: std::os::unix::net::UnixStream },
    Listener { l: Arc<OwnedFd>, addr: std::net::SocketAddr, conns: Vec<std::net::TcpStream> },
    Tcp { a: Arc<OwnedFd>, _peer: std::net::TcpStream },
    /// unix stream pair used for `SendZc`: the kernel refuses zero-copy there (EOPNOTSUPP in the send CQE) but
    /// still runs the two-CQE protocol, and posts both CQEs synchronously with the submit
    UnixZc { a: Arc<OwnedFd>, _peer: std::os::unix::net::UnixStream },
}

struct World {
    p: Option<Proactor>,
    drv: DriverType,
    cap: u32,
    ops: Vec<OpRec>,
    slots: Vec<Option<Slot>>,
    /// chunks written to a slot and not yet seen in a completed recv
    written: Vec<VecDeque<(usize, [u8; CHUNK], usize)>>,
    /// number of the line being executed
    line_no: usize,
    /// buffers of receives that `push` handed back with an error: (op, slot, buffer filled with a canary). The caller owns
    /// them again, so the kernel must never write into them
    kept: Vec<(usize, usize, Buf)>,
    /// number of chunks ever written to a slot
    written_total: Vec<usize>,
    /// polling driver: (op, ordinal of the chunk it received) for queued receives of a slot, in the order observed
    delivered: Vec<Vec<(usize, usize)>>,
    ever_ready: Vec<bool>,
    seq: u8,
    polls: usize,
    sq_est: u32,
    need_notifier: bool,
    skip: bool,
    accepted: Vec<OwnedFd>,
    /// a waker of the driver's notifier, taken when the proactor is built: every pool job owns a clone until
    /// it has sent its entry and woken the driver, so the Arc count tells when a job is completely over
    w0: Option<std::task::Waker>,
    w0_ok: bool,
    running_jobs: usize,
    /// number of submissions (`io_uring_enter`) so far, harness estimate
    submits: usize,
    /// poll-line count at the last `ready` of each slot
    ready_at: Vec<usize>,
    /// connections made to a listener while no submitted accept was there to take them
    backlog: Vec<usize>,
}

fn slot_kind(s: usize) -> Option<HKind> {
    match s {
        0..=3 => Some(HKind::Rd),
        4..=5 => Some(HKind::Acc),
        6..=7 => Some(HKind::Zc),
        _ => None,
    }
}

fn show_res(r: &std::io::Result<usize>, kind: HKind) -> String {
    match r {
        Ok(n) => {
            if kind == HKind::Acc {
                "ok:1".into()
            } else {
                format!("ok:{n}")
            }
        }
        Err(e) => format!("err:{}", e.raw_os_error().unwrap_or(0)),
    }
}

impl World {
    fn new() -> Self {
        World {
            p: None,
            drv: DriverType::IoUring,
            cap: 1024,
            ops: vec![],
            slots: (0..8).map(|_| None).collect(),
            written: (0..8).map(|_| VecDeque::new()).collect(),
            written_total: vec![0; 8],
            line_no: 0,
            kept: vec![],
            delivered: (0..8).map(|_| vec![]).collect(),
            ever_ready: vec![false; 8],
            seq: 0,
            polls: 0,
            sq_est: 0,
            need_notifier: true,
            skip: false,
            accepted: vec![],
            backlog: vec![0; 8],
            w0: None,
            w0_ok: false,
            running_jobs: 0,
            submits: 0,
            ready_at: vec![0; 8],
        }
    }

    fn iour(&self) -> bool {
        self.drv == DriverType::IoUring
    }

    fn slot(&mut self, s: usize) -> &mut Slot {
        if self.slots[s].is_none() {
            let sl = match slot_kind(s).unwrap() {
                HKind::Rd => {
                    let (a, b) = std::os::unix::net::UnixStream::pair().unwrap();
                    a.set_nonblocking(true).unwrap();
                    Slot::Pair { a: Arc::new(a.into()), peer: b }
                }
                HKind::Acc => {
                    let l = std::net::TcpListener::bind("127.0.0.1:0").unwrap();
                    let addr = l.local_addr().unwrap();
                    l.set_nonblocking(true).unwrap();
                    Slot::Listener { l: Arc::new(l.into()), addr, conns: vec![] }
                }
                _ if s == 7 => {
                    let (a, b) = std::os::unix::net::UnixStream::pair().unwrap();
                    a.set_nonblocking(true).unwrap();
                    Slot::UnixZc { a: Arc::new(a.into()), _peer: b }
                }
                _ => {
                    let l = std::net::TcpListener::bind("127.0.0.1:0").unwrap();
                    let a = std::net::TcpStream::connect(l.local_addr().unwrap()).unwrap();
                    let (b, _) = l.accept().unwrap();
                    a.set_nonblocking(true).unwrap();
                    Slot::Tcp { a: Arc::new(a.into()), _peer: b }
                }
            };
            self.slots[s] = Some(sl);
        }
        self.slots[s].as_mut().unwrap()
    }

    fn slot_fd(&mut self, s: usize) -> Arc<OwnedFd> {
        match self.slot(s) {
            Slot::Pair { a, .. } => a.clone(),
            Slot::Listener { l, .. } => l.clone(),
            Slot::Tcp { a, .. } => a.clone(),
            Slot::UnixZc { a, .. } => a.clone(),
        }
    }

    fn status(&self) -> String {
        if self.ops.is_empty() {
            return "-".into();
        }
        self.ops
            .iter()
            .map(|o| {
                let (b, f) = o.drops();
                let both = o.buf.is_some() && o.fd.is_some();
                if o.touched_after_forget {
                    "U".to_string()
                } else if o.returned {
                    "R".to_string()
                } else if both && b != f {
                    format!("[b{b}f{f}]")
                } else {
                    match b.max(f) {
                        0 => "L".to_string(),
                        1 => "F".to_string(),
                        _ => "D".to_string(),
                    }
                }
            })
            .collect()
    }

    /// a submission (`io_uring_enter`) is about to happen: everything written to the SQ reaches the kernel
    fn note_submit(&mut self) {
        self.sq_est = 0;
        self.submits += 1;
        let polls = self.polls;
        for o in &mut self.ops {
            if o.queued {
                o.queued = false;
                o.submit_mark = polls;
                if o.kind == HKind::Zc {
                    o.undrained = 2;
                }
                if o.kind == HKind::Acc && !o.cancel_requested {
                    o.undrained += self.backlog[o.slot];
                    self.backlog[o.slot] = 0;
                }
            }
        }
    }

    fn note_drain(&mut self) {
        for o in &mut self.ops {
            o.undrained = 0;
        }
    }

    /// harness-side replica of the `push_raw` loop's effect on the SQ occupancy
    fn note_sq_push(&mut self) {
        if self.sq_est >= self.cap {
            self.note_submit();
            self.note_drain();
        }
        self.sq_est += 1;
    }

    fn note_poll(&mut self) {
        if self.iour() {
            if self.need_notifier {
                self.note_sq_push();
                self.need_notifier = false;
            }
            self.note_submit();
            self.note_drain();
        }
    }

    /// an op that `push` handed back (`Ready(Err(..), op)`) belongs to the caller again: the OS must not know it
    fn check_kept(&mut self, ex: &mut Exec) {
        let mut bad = vec![];
        for (i, slot, buf) in &mut self.kept {
            let cap = buf.v.capacity();
            let bytes: Vec<u8> = unsafe { std::slice::from_raw_parts(buf.v.as_ptr(), cap) }.to_vec();
            if bytes.iter().any(|b| *b != 0xEE) {
                bad.push((*i, *slot, bytes));
            }
        }
        for (i, slot, bytes) in bad {
            if !self.ops[i].reported {
                ex.fail(
                    "C01:returned-op-still-in-kernel",
                    format!("op {i} (Rd, slot {slot}): push handed the operation back to the caller with an error, yet the kernel later wrote {bytes:?} into its buffer: the op was in flight although buffer and descriptor had been released to the caller"),
                );
                self.ops[i].reported = true;
            }
        }
    }

    /// Has the OS certainly delivered the data of receive `i`? Decided from the socket alone: chunks written to the
    /// descriptor, minus those the harness has seen delivered, minus what is still readable (FIONREAD), are held by
    /// receives whose result nobody has looked at yet; when they are at least as many as those receives, each has one.
    fn data_delivered(&mut self, i: usize) -> bool {
        let o = &self.ops[i];
        if o.kind != HKind::Rd || !o.pending || o.returned {
            return false;
        }
        let s = o.slot;
        let fd = match &self.slots[s] {
            Some(Slot::Pair { a, .. }) => a.as_raw_fd(),
            _ => return false,
        };
        let mut n: libc::c_int = 0;
        if unsafe { libc::ioctl(fd, libc::FIONREAD, &mut n) } != 0 {
            return false;
        }
        let in_socket = n as usize / CHUNK;
        let unseen = self.written[s].len();
        if unseen < in_socket {
            return false;
        }
        let consumed = unseen - in_socket;
        let holders = self.ops.iter().filter(|p| p.kind == HKind::Rd && p.slot == s && p.pending && !p.returned).count();
        consumed >= holders
    }

    /// … and has the driver certainly reaped that completion (a poll-to-quiescence ran after the data was written and
    /// after the op was handed to the OS)?
    fn completion_reaped(&mut self, i: usize) -> bool {
        if !self.data_delivered(i) {
            return false;
        }
        let o = &self.ops[i];
        let mark = if self.iour() { o.submit_mark } else { o.pushed_at };
        mark != usize::MAX && self.polls > mark.max(self.ready_at[o.slot])
    }

    /// called before a cancel of any route is executed
    fn before_cancel(&mut self, i: usize, clone_route: bool) -> bool {
        let reaped = self.completion_reaped(i);
        if !self.ops[i].cancel_requested {
            let d = self.data_delivered(i);
            self.ops[i].delivered_before_cancel = d;
            self.ops[i].first_cancel_was_clone = clone_route;
        }
        reaped
    }

    /// honesty on the order completion -> cancel -> collect: is an ECANCELED / a `Key not unique` panic for op `i` a lie?
    /// (`cancel(key.clone())` on a completed op of the POLLING driver is excluded: there the documented hazard of
    /// cloned keys applies — the entry `cancel_one` emits for any key overwrites the result; `CancelToken::register`
    /// only takes that route right after a submit that returned Pending.)
    fn overwritten(&self, i: usize) -> bool {
        let o = &self.ops[i];
        o.delivered_before_cancel && !(o.first_cancel_was_clone && !self.iour())
    }

    /// bookkeeping of a cancel that reached `Driver::cancel`. io_uring queues the AsyncCancel SQE through `push_raw`:
    /// with a full submission queue the driver submitted and reaped completions INSIDE the cancel call; CQEs caused
    /// by that submit may arrive a moment later (same race as for an overflowing `push`), so poll to quiescence.
    fn note_driver_cancel(&mut self, i: usize) {
        self.ops[i].cancel_issued_at = Some(self.polls);
        self.ops[i].cancel_line = Some(self.line_no);
        let mut overflow = false;
        if self.iour() {
            overflow = self.sq_est >= self.cap;
            if overflow {
                self.ops[i].cancel_sq_full = Some((self.sq_est as usize, self.cap));
            }
            self.note_sq_push();
        }
        // the cancel SQE itself is in the queue now: it reaches the kernel with the NEXT submit
        self.ops[i].cancel_mark = self.submits;
        if overflow {
            if let Some(p) = self.p.as_mut() {
                settle(p);
                self.note_poll();
                self.polls += 1;
            }
        }
    }
}

/// strong count of the `Arc` behind a waker made by `Waker::from(Arc<_>)` (`ArcInner { strong, weak, data }`)
fn waker_strong(w: &std::task::Waker) -> usize {
    unsafe { (*((w.data() as *const u8).sub(16) as *const AtomicUsize)).load(SeqCst) }
}

fn with_phase<T>(ph: u32, f: impl FnOnce() -> T) -> T {
    PHASE.store(ph, SeqCst);
    let r = f();
    PHASE.store(PH_NONE, SeqCst);
    r
}

/// poll until two consecutive polls report a timeout (bounded)
fn settle(p: &mut Proactor) {
    let mut quiet = 0;
    for i in 0..40 {
        let r = with_phase(PH_POLL, || p.poll(Some(Duration::ZERO)));
        match r {
            Ok(()) => quiet = 0,
            Err(_) => quiet += 1,
        }
        if quiet >= 2 && i >= 2 {
            break;
        }
        if quiet > 0 {
            std::thread::sleep(Duration::from_micros(150));
        }
    }
}

/// Dispose of an operation handed back to the caller; returns the received bytes for `rd`.
fn dispose_rd(op: Recv<Buf, Fd>, n: Option<usize>) -> Vec<u8> {
    let mut buf = op.into_inner();
    if let Some(n) = n {
        if n <= buf.v.capacity() {
            unsafe { buf.v.set_len(n) };
        }
    }
    let data = buf.v.clone();
    drop(buf);
    data
}

impl World {
    fn check_data(&mut self, ex: &mut Exec, i: usize, res: &std::io::Result<usize>, data: &[u8]) {
        let slot = self.ops[i].slot;
        match res {
            Ok(n) => {
                if *n != CHUNK || data.len() != CHUNK {
                    ex.fail("C05:fabricated-success", format!("op {i}: recv returned Ok({n}) with {} bytes; chunks are {CHUNK} bytes", data.len()));
                    return;
                }
                let pos = self.written[slot].iter().position(|(_, c, _)| c[..] == data[..]);
                match pos {
                    Some(p) => {
                        let (ord, _, _) = self.written[slot].remove(p).unwrap();
                        // polling driver: receives QUEUED on one descriptor are served first in, first out, so an
                        // older queued receive never gets a later chunk than a younger one (locality of cancel: removing
                        // a neighbour must not reorder the others)
                        if !self.iour() && self.ops[i].pending {
                            for &(j, oj) in &self.delivered[slot] {
                                if (j < i) != (oj < ord) {
                                    ex.fail(
                                        "C05:neighbour-reordered",
                                        format!("polling driver, slot {slot}: queued receive {i} got chunk #{ord} but queued receive {j} got chunk #{oj}: the waiters of one descriptor were not served in submission order"),
                                    );
                                    break;
                                }
                            }
                            self.delivered[slot].push((i, ord));
                        }
                    }
                    None => ex.fail(
                        "C05:fabricated-success",
                        format!("op {i}: recv reported Ok({n}) with bytes {data:?} that were never written to slot {slot} (or already delivered)"),
                    ),
                }
            }
            Err(e) => {
                if e.raw_os_error() == Some(libc::ECANCELED) && self.overwritten(i) {
                    ex.fail(
                        "C05:genuine-result-overwritten",
                        format!("op {i} on slot {slot}: the OS had delivered its data before it was cancelled, but it finished with ECANCELED (the bytes are lost)"),
                    );
                }
                if e.raw_os_error() == Some(libc::ECANCELED) && !self.ops[i].cancel_requested {
                    ex.fail("C05:neighbour-cancelled", format!("op {i} on slot {slot} finished with ECANCELED but was never cancelled"));
                }
            }
        }
    }

    /// `R` handed back: account, check, dispose
    fn handed_back(&mut self, ex: &mut Exec, i: usize, res: &std::io::Result<usize>) {
        let o = &mut self.ops[i];
        if o.released() {
            ex.fail("C01:dropped-twice", format!("op {i}: handed back to the caller although its storage was already released {:?}", o.drops()));
        }
        o.returned = true;
        o.finished = true;
        if o.kind == HKind::Zc && self.drv == DriverType::IoUring {
            if let Ok(n) = res {
                if *n == ZC_LEN {
                    ex.fail("C01:zc-returned-before-notif", format!("op {i}: zero-copy send handed its buffer back with the send result Ok({n}) as final result, i.e. before the notification CQE"));
                }
            }
        }
    }
}

macro_rules! pop_arm {
    ($w:expr, $ex:expr, $i:expr, $k:ident, $p:ident, $dispose:expr) => {{
        let key = $k.take().unwrap();
        let r = catch(|| with_phase(PH_POP, || $p.pop(key)));
        match r {
            Err(_) => {
                // `Key not unique`: the key was consumed by the unwinding
                "panic".to_string()
            }
            Ok(PushEntry::Pending(key)) => {
                *$k = Some(key);
                "pending".to_string()
            }
            Ok(PushEntry::Ready(BufResult(res, op))) => {
                let out = show_res(&res, $w.ops[$i].kind);
                $w.handed_back($ex, $i, &res);
                #[allow(clippy::redundant_closure_call)]
                with_phase(PH_HARNESS, || ($dispose)($w, $ex, $i, &res, op));
                out
            }
        }
    }};
}

macro_rules! cancel_arm {
    ($w:expr, $ex:expr, $i:expr, $k:ident, $p:ident, $dispose:expr) => {{
        let key = $k.take().unwrap();
        let r = with_phase(PH_CANCEL, || $p.cancel(key));
        match r {
            None => "none".to_string(),
            Some(BufResult(res, op)) => {
                let out = format!("some:{}", show_res(&res, $w.ops[$i].kind));
                $w.handed_back($ex, $i, &res);
                #[allow(clippy::redundant_closure_call)]
                with_phase(PH_HARNESS, || ($dispose)($w, $ex, $i, &res, op));
                out
            }
        }
    }};
}

fn disp_rd(w: &mut World, ex: &mut Exec, i: usize, res: &std::io::Result<usize>, op: Recv<Buf, Fd>) {
    let data = dispose_rd(op, res.as_ref().ok().copied());
    w.check_data(ex, i, res, &data);
}

fn disp_acc(_w: &mut World, _ex: &mut Exec, _i: usize, res: &std::io::Result<usize>, op: AcceptMulti<Fd>) {
    if res.is_ok() {
        drop(op.into_inner());
    } else {
        drop(op);
    }
}

fn disp_zc(_w: &mut World, _ex: &mut Exec, _i: usize, _res: &std::io::Result<usize>, op: SendZc<Buf, Fd>) {
    drop(op.into_inner());
}

fn disp_blk(_w: &mut World, _ex: &mut Exec, _i: usize, res: &std::io::Result<usize>, op: Asyncify<BlkFn, Buf>) {
    if res.is_ok() {
        drop(op.into_inner());
    } else {
        drop(op);
    }
}

impl World {
    fn line(&mut self, ex: &mut Exec, words: &[&str]) -> String {
        if self.skip {
            return "skip".into();
        }
        let out = match words {
            ["cfg", d, cap] => {
                let Ok(cap) = cap.parse::<u32>() else { return "bad-op".into() };
                self.drv = if *d == "poll" { DriverType::Poll } else { DriverType::IoUring };
                self.cap = cap;
                let mut b = Proactor::builder();
                b.driver_type(self.drv).capacity(cap).thread_pool_recv_timeout(Duration::from_millis(500));
                match b.build() {
                    Ok(p) => {
                        if p.driver_type() != self.drv {
                            return "bad-driver".into();
                        }
                        RING_FD.store(if self.iour() { p.as_raw_fd() } else { -1 }, SeqCst);
                        let w0 = p.waker();
                        self.w0_ok = waker_strong(&w0) == 2;
                        self.w0 = Some(w0);
                        self.p = Some(p);
                        ex.tag(format!("drv:{d}"));
                        ex.tag(format!("cap:{cap}"));
                        "ok".into()
                    }
                    Err(e) => format!("build-err:{e}"),
                }
            }
            ["rt", d, cap] => {
                let Ok(cap) = cap.parse::<u32>() else { return "bad-op".into() };
                self.drv = if *d == "poll" { DriverType::Poll } else { DriverType::IoUring };
                self.cap = cap;
                ex.tag(format!("rt:{d}"));
                return "ok | -".into();
            }
            ["tok", steps, neighbour] => {
                let out = rt::run_token_case(ex, self.drv, self.cap, steps, *neighbour == "1", "c");
                return format!("{out} | -");
            }
            ["tok", steps, neighbour, nest] => {
                let out = rt::run_token_case(ex, self.drv, self.cap, steps, *neighbour == "1", nest);
                return format!("{out} | -");
            }
            ["push", k, s] => self.push(ex, k, s),
            ["ready", s, k] => {
                let (Ok(s), Ok(k)) = (s.parse::<usize>(), k.parse::<usize>()) else { return "bad-op".into() };
                if s >= 8 {
                    return "bad-op".into();
                }
                self.ever_ready[s] = true;
                self.ready_at[s] = self.polls;
                let iour = self.iour();
                match slot_kind(s).unwrap() {
                    HKind::Rd => {
                        for _ in 0..k {
                            self.seq = self.seq.wrapping_add(1);
                            let c = [0xA0 | s as u8, self.seq, self.seq ^ 0x5A, 0x77];
                            let ord = self.written_total[s];
                            self.written_total[s] += 1;
                            self.written[s].push_back((ord, c, self.line_no));
                            if let Slot::Pair { peer, .. } = self.slot(s) {
                                peer.write_all(&c).unwrap();
                            }
                        }
                    }
                    HKind::Acc => {
                        for _ in 0..k {
                            if let Slot::Listener { addr, conns, .. } = self.slot(s) {
                                let c = std::net::TcpStream::connect(*addr).unwrap();
                                conns.push(c);
                            }
                        }
                        if iour {
                            let mut taken = false;
                            for o in &mut self.ops {
                                if o.kind == HKind::Acc && o.slot == s && o.pending && !o.queued && !o.finished && !o.cancel_requested {
                                    o.undrained += k;
                                    taken = true;
                                }
                            }
                            if !taken {
                                self.backlog[s] += k;
                            }
                        }
                    }
                    _ => {}
                }
                // give the kernel's task work a chance to run
                std::thread::sleep(Duration::from_micros(300));
                self.check_kept(ex);
                ex.tag("ev:ready");
                "ok".into()
            }
            ["poll"] => {
                let Some(p) = self.p.as_mut() else { return self.fin("noproactor") };
                settle(p);
                self.note_poll();
                self.polls += 1;
                "ok".into()
            }
            ["flush"] => {
                let Some(p) = self.p.as_mut() else { return self.fin("noproactor") };
                with_phase(PH_FLUSH, || p.flush());
                let mut overflow = false;
                if self.iour() {
                    if self.need_notifier {
                        overflow = self.sq_est >= self.cap;
                        self.note_sq_push();
                        self.need_notifier = false;
                    }
                    self.note_submit();
                }
                std::thread::sleep(Duration::from_millis(2));
                if overflow {
                    // same race as in `push` (arm_notifier goes through the overflow loop)
                    let p = self.p.as_mut().unwrap();
                    settle(p);
                    self.note_poll();
                    self.polls += 1;
                }
                ex.tag("ev:flush");
                "ok".into()
            }
            ["pop", i] => {
                let Some(i) = self.idx(i) else { return "bad-op".into() };
                if self.p.is_none() {
                    return self.fin("noproactor");
                }
                if self.ops[i].forgotten {
                    self.ops[i].touched_after_forget = true;
                    return self.fin("skip");
                }
                if !self.ops[i].held() {
                    return self.fin("nokey");
                }
                let mut kb = std::mem::replace(&mut self.ops[i].key, KeyBox::Rd(None));
                let mut p = self.p.take().unwrap();
                let pr = &mut p;
                let out = match &mut kb {
                    KeyBox::Rd(k) => pop_arm!(self, ex, i, k, pr, disp_rd),
                    KeyBox::Acc(k) => pop_arm!(self, ex, i, k, pr, disp_acc),
                    KeyBox::Zc(k) => pop_arm!(self, ex, i, k, pr, disp_zc),
                    KeyBox::Blk(k) => pop_arm!(self, ex, i, k, pr, disp_blk),
                };
                self.p = Some(p);
                self.ops[i].key = kb;
                if out == "panic" && self.overwritten(i) {
                    ex.fail(
                        "C05:genuine-result-overwritten",
                        format!("op {i}: the OS had delivered its data before it was cancelled, but collecting it panics `Key not unique` (a cancelled entry holds a key clone)"),
                    );
                }
                self.after_pop(ex, i, &out);
                out
            }
            ["popm", i] => {
                let Some(i) = self.idx(i) else { return "bad-op".into() };
                if self.p.is_none() {
                    return self.fin("noproactor");
                }
                if self.ops[i].forgotten {
                    self.ops[i].touched_after_forget = true;
                    return self.fin("skip");
                }
                if !self.ops[i].held() {
                    return self.fin("nokey");
                }
                let kind = self.ops[i].kind;
                let p = self.p.as_mut().unwrap();
                let r = with_key!(&self.ops[i].key, k => p.pop_multishot(k.as_ref().unwrap()));
                match r {
                    None => "none".into(),
                    Some(BufResult(res, _extra)) => {
                        if kind == HKind::Acc {
                            if let Ok(fd) = &res {
                                self.accepted.push(unsafe { OwnedFd::from_raw_fd(*fd as RawFd) });
                            }
                        }
                        show_res(&res, kind)
                    }
                }
            }
            ["cancel", i] => {
                let Some(i) = self.idx(i) else { return "bad-op".into() };
                if self.p.is_none() {
                    return self.fin("noproactor");
                }
                if self.ops[i].forgotten {
                    self.ops[i].touched_after_forget = true;
                    return self.fin("skip");
                }
                if !self.ops[i].held() {
                    return self.fin("nokey");
                }
                let first = !self.ops[i].cancel_requested;
                let reaped = self.before_cancel(i, false);
                self.ops[i].cancel_requested = true;
                let mut kb = std::mem::replace(&mut self.ops[i].key, KeyBox::Rd(None));
                let mut p = self.p.take().unwrap();
                let pr = &mut p;
                let out = match &mut kb {
                    KeyBox::Rd(k) => cancel_arm!(self, ex, i, k, pr, disp_rd),
                    KeyBox::Acc(k) => cancel_arm!(self, ex, i, k, pr, disp_acc),
                    KeyBox::Zc(k) => cancel_arm!(self, ex, i, k, pr, disp_zc),
                    KeyBox::Blk(k) => cancel_arm!(self, ex, i, k, pr, disp_blk),
                };
                self.p = Some(p);
                self.ops[i].key = kb;
                if out == "none" && first && reaped {
                    ex.fail(
                        "C05:genuine-result-overwritten",
                        format!("op {i}: Proactor::cancel on a completed, never cancelled op (unique key) returned None instead of its genuine result"),
                    );
                }
                if out == "none" && first && !self.ops[i].finished_known() {
                    self.note_driver_cancel(i);
                }
                ex.tag("route:cancel");
                out
            }
            ["ccancel", i] => {
                let Some(i) = self.idx(i) else { return "bad-op".into() };
                if self.p.is_none() {
                    return self.fin("noproactor");
                }
                if self.ops[i].forgotten {
                    self.ops[i].touched_after_forget = true;
                    return self.fin("skip");
                }
                if !self.ops[i].held() {
                    return self.fin("nokey");
                }
                let first = !self.ops[i].cancel_requested;
                self.before_cancel(i, true);
                self.ops[i].cancel_requested = true;
                let p = self.p.as_mut().unwrap();
                let some = with_key!(&self.ops[i].key, k => {
                    let c = k.as_ref().unwrap().clone();
                    with_phase(PH_CANCEL, || p.cancel(c)).is_some()
                });
                if first {
                    self.note_driver_cancel(i);
                }
                ex.tag("route:late-token");
                if some { "some".into() } else { "none".into() }
            }
            ["drop", i] => {
                let Some(i) = self.idx(i) else { return "bad-op".into() };
                if self.ops[i].forgotten {
                    self.ops[i].touched_after_forget = true;
                    return self.fin("ok");
                }
                if !self.ops[i].held() {
                    return self.fin("nokey");
                }
                with_phase(PH_KEYDROP, || with_key!(&mut self.ops[i].key, k => drop(k.take())));
                ex.tag("route:keydrop");
                "ok".into()
            }
            ["token", i] => {
                let Some(i) = self.idx(i) else { return "bad-op".into() };
                if self.p.is_none() {
                    return self.fin("noproactor");
                }
                if self.ops[i].forgotten {
                    self.ops[i].touched_after_forget = true;
                    return self.fin("skip");
                }
                if !self.ops[i].held() {
                    return self.fin("nokey");
                }
                let p = self.p.as_mut().unwrap();
                let t = with_key!(&self.ops[i].key, k => p.register_cancel(k.as_ref().unwrap()));
                self.ops[i].token = Some(t);
                "ok".into()
            }
            ["tcancel", i] => {
                let Some(i) = self.idx(i) else { return "bad-op".into() };
                if self.p.is_none() {
                    return self.fin("noproactor");
                }
                let Some(t) = self.ops[i].token.clone() else { return self.fin("notoken") };
                if self.ops[i].forgotten {
                    self.ops[i].touched_after_forget = true;
                    return self.fin("skip");
                }
                let reaped = self.before_cancel(i, false);
                self.ops[i].cancel_requested = true;
                let p = self.p.as_mut().unwrap();
                let r = with_phase(PH_TCANCEL, || p.cancel_token(t));
                if r && reaped {
                    ex.fail(
                        "C05:genuine-result-overwritten",
                        format!("op {i}: cancel_token returned true although the op had already completed with its data (nothing was left to cancel); on the polling driver the ECANCELED entry it queues overwrites the genuine result"),
                    );
                }
                if r {
                    self.note_driver_cancel(i);
                }
                ex.tag("route:token");
                format!("{r}")
            }
            ["gate", i] => {
                let Some(i) = self.idx(i) else { return "bad-op".into() };
                let Some(g) = self.ops[i].gate.take() else { return self.fin("nogate") };
                g.send(()).ok();
                if let Some(rx) = self.ops[i].done_rx.take() {
                    rx.recv_timeout(Duration::from_secs(5)).ok();
                }
                self.running_jobs -= 1;
                if !self.wait_jobs() {
                    return self.fin("gate-timeout");
                }
                if let Some(p) = self.p.as_mut() {
                    // the entry is in the completed channel now
                    settle(p);
                    self.note_poll();
                    self.polls += 1;
                }
                ex.tag("ev:gate");
                "ok".into()
            }
            ["pdrop"] => {
                if self.p.is_none() {
                    return self.fin("noproactor");
                }
                let p = self.p.take().unwrap();
                with_phase(PH_PDROP, || drop(p));
                RING_FD.store(-1, SeqCst);
                ex.tag("route:pdrop");
                "ok".into()
            }
            ["end"] => "ok".into(),
            _ => return "bad-op".into(),
        };
        self.monitors(ex);
        self.fin(&out)
    }

    /// wait until every pool job that was let go has sent its entry, woken the driver and dropped its waker
    fn wait_jobs(&self) -> bool {
        let Some(w0) = &self.w0 else { return true };
        if !self.w0_ok {
            std::thread::sleep(Duration::from_millis(20));
            return true;
        }
        let base = self.p.is_some() as usize + 1 + self.running_jobs;
        let t0 = Instant::now();
        while waker_strong(w0) > base {
            if t0.elapsed() > Duration::from_secs(5) {
                return false;
            }
            std::thread::yield_now();
        }
        // the job's closure (and with it its `Sender` of the completed channel) is dropped right after the wake
        std::thread::sleep(Duration::from_micros(200));
        true
    }

    fn fin(&self, out: &str) -> String {
        if std::env::var("KL_DEBUG").is_ok() {
            let d: Vec<String> = self.ops.iter().map(|o| format!("{:?}", o.first_drop().map(|(p, r)| (phase_name(p), r)))).collect();
            return format!("{out} | {} {:?} sq={}", self.status(), d, self.sq_est);
        }
        format!("{out} | {}", self.status())
    }

    fn idx(&self, s: &str) -> Option<usize> {
        s.parse::<usize>().ok().filter(|i| *i < self.ops.len())
    }

    fn push(&mut self, ex: &mut Exec, k: &str, s: &str) -> String {
        let Ok(s) = s.parse::<usize>() else { return "bad-op".into() };
        let kind = match k {
            "rd" => HKind::Rd,
            "acc" => HKind::Acc,
            "zc" => HKind::Zc,
            "blk" => HKind::Blk,
            _ => return "bad-op".into(),
        };
        if kind != HKind::Blk && slot_kind(s) != Some(kind) {
            return "bad-op".into();
        }
        if self.p.is_none() {
            return "noproactor".into();
        }
        ex.tag(format!("kind:{k}"));
        let iour = self.iour();
        let mut rec = OpRec {
            kind,
            slot: s,
            key: KeyBox::Rd(None),
            token: None,
            buf: None,
            fd: None,
            returned: false,
            forgotten: false,
            touched_after_forget: false,
            pending: false,
            cancel_requested: false,
            cancel_issued_at: None,
            cancel_sq_full: None,
            cancel_mark: 0,
            pushed_at: self.polls,
            submit_mark: usize::MAX,
            delivered_before_cancel: false,
            first_cancel_was_clone: false,
            cancel_line: None,
            queued: false,
            undrained: 0,
            gate: None,
            done_rx: None,
            finished: false,
            reported: false,
        };
        let mk_fd = |w: &mut World, rec: &mut OpRec| {
            let c = Arc::new(Counter::default());
            rec.fd = Some(c.clone());
            Fd { canary: CANARY, fd: w.slot_fd(s), c }
        };
        let mk_buf = |rec: &mut OpRec, v: Vec<u8>| {
            let c = Arc::new(Counter::default());
            rec.buf = Some(c.clone());
            Buf { canary: CANARY, v, c }
        };
        // CQEs caused by the submit inside the `push_raw` overflow loop are posted by task work a moment later;
        // whether the drain of the same call sees them is a race: poll to quiescence after such a push
        let overflow = iour && kind != HKind::Blk && self.sq_est >= self.cap;
        if iour && kind != HKind::Blk {
            self.note_sq_push();
        }
        let i = self.ops.len();
        let out;
        match kind {
            HKind::Rd => {
                let fd = mk_fd(self, &mut rec);
                let buf = mk_buf(&mut rec, Vec::with_capacity(CHUNK));
                let op = Recv::new(fd, buf, RecvFlags::empty());
                let p = self.p.as_mut().unwrap();
                match with_phase(PH_PUSH, || p.push(op)) {
                    PushEntry::Pending(key) => {
                        rec.key = KeyBox::Rd(Some(key));
                        rec.pending = true;
                        rec.queued = iour;
                        self.ops.push(rec);
                        out = "pending".to_string();
                    }
                    PushEntry::Ready(BufResult(res, op)) => {
                        self.ops.push(rec);
                        out = format!("ready:{}", show_res(&res, kind));
                        self.handed_back(ex, i, &res);
                        if res.is_err() {
                            // `push` says the op never went to the OS and gives buffer and descriptor back: keep the
                            // buffer alive, canary-filled, and watch it
                            let mut buf = with_phase(PH_HARNESS, || op.into_inner());
                            for b in buf.as_uninit().iter_mut() {
                                b.write(0xEE);
                            }
                            self.kept.push((i, s, buf));
                        } else {
                            with_phase(PH_HARNESS, || disp_rd(self, ex, i, &res, op));
                        }
                    }
                }
            }
            HKind::Acc => {
                let fd = mk_fd(self, &mut rec);
                let op = AcceptMulti::new(fd);
                let p = self.p.as_mut().unwrap();
                match with_phase(PH_PUSH, || p.push(op)) {
                    PushEntry::Pending(key) => {
                        rec.key = KeyBox::Acc(Some(key));
                        rec.pending = true;
                        rec.queued = iour;
                        self.ops.push(rec);
                        out = "pending".to_string();
                    }
                    PushEntry::Ready(BufResult(res, op)) => {
                        self.ops.push(rec);
                        out = format!("ready:{}", show_res(&res, kind));
                        self.handed_back(ex, i, &res);
                        with_phase(PH_HARNESS, || disp_acc(self, ex, i, &res, op));
                    }
                }
            }
            HKind::Zc => {
                let fd = mk_fd(self, &mut rec);
                let buf = mk_buf(&mut rec, b"hello".to_vec());
                let op = SendZc::new(fd, buf, SendFlags::empty());
                let p = self.p.as_mut().unwrap();
                match with_phase(PH_PUSH, || p.push(op)) {
                    PushEntry::Pending(key) => {
                        rec.key = KeyBox::Zc(Some(key));
                        rec.pending = true;
                        rec.queued = iour;
                        self.ops.push(rec);
                        out = "pending".to_string();
                    }
                    PushEntry::Ready(BufResult(res, op)) => {
                        self.ops.push(rec);
                        out = format!("ready:{}", show_res(&res, kind));
                        self.handed_back(ex, i, &res);
                        with_phase(PH_HARNESS, || disp_zc(self, ex, i, &res, op));
                    }
                }
            }
            HKind::Blk => {
                let buf = mk_buf(&mut rec, vec![1, 2, 3]);
                let (gtx, grx) = mpsc::channel::<()>();
                let (dtx, drx) = mpsc::channel::<()>();
                let cell = Mutex::new(Some(buf));
                let f: BlkFn = Box::new(move || {
                    grx.recv().ok();
                    let b = cell.lock().unwrap().take().unwrap();
                    dtx.send(()).ok();
                    BufResult(Ok(7), b)
                });
                rec.gate = Some(gtx);
                rec.done_rx = Some(drx);
                let op = Asyncify::new(f);
                let p = self.p.as_mut().unwrap();
                match with_phase(PH_PUSH, || p.push(op)) {
                    PushEntry::Pending(key) => {
                        rec.key = KeyBox::Blk(Some(key));
                        rec.pending = true;
                        self.running_jobs += 1;
                        self.ops.push(rec);
                        out = "pending".to_string();
                    }
                    PushEntry::Ready(BufResult(res, op)) => {
                        self.ops.push(rec);
                        out = format!("ready:{}", show_res(&res, kind));
                        self.handed_back(ex, i, &res);
                        with_phase(PH_HARNESS, || disp_blk(self, ex, i, &res, op));
                    }
                }
            }
        }
        if overflow {
            if let Some(p) = self.p.as_mut() {
                settle(p);
                self.note_poll();
                self.polls += 1;
            }
        }
        out
    }

    /// promptness / survival checks that are decided when the caller looks at an operation
    fn after_pop(&mut self, ex: &mut Exec, i: usize, out: &str) {
        let o = &self.ops[i];
        if out == "pending" && o.kind != HKind::Blk {
            if let Some(at) = o.cancel_issued_at {
                if self.polls > at && !o.reported {
                    let sig = "C05:cancel-not-prompt";
                    let why = match o.cancel_sq_full {
                        Some((n, cap)) => format!("the submission queue was full (sq={n}/{cap}) when the cancel was issued: regression of the repaired finding F9?"),
                        None => "the submission queue had room".to_string(),
                    };
                    ex.fail(
                        sig,
                        format!(
                            "op {i} ({:?} on never-ready slot {}) was cancelled (cancel issued) and is still pending after {} poll line(s) of up to 40 polls each; {why}",
                            o.kind,
                            o.slot,
                            self.polls - at
                        ),
                    );
                    self.ops[i].reported = true;
                }
            } else if !o.cancel_requested && o.kind == HKind::Rd && !self.written[o.slot].is_empty() && self.polls > self.ready_at[o.slot].max(o.pushed_at) {
                // data is waiting on its descriptor: is it waiting for this op?
                // Every other receive on that descriptor whose result the harness has not seen may hold a chunk — except,
                // on the polling driver, one whose cancel reached the driver before the oldest unread chunk was written:
                // it left the queue at that moment and can never have been given that data.
                let iour = self.iour();
                let oldest = self.written[o.slot].iter().map(|c| c.2).min().unwrap_or(0);
                let out_of_queue = |p: &OpRec| !iour && p.cancel_line.map(|l| l < oldest).unwrap_or(false);
                let waiting = self
                    .ops
                    .iter()
                    .enumerate()
                    .filter(|(j, p)| *j != i && p.kind == HKind::Rd && p.slot == o.slot && !p.returned && !out_of_queue(p))
                    .count();
                if self.written[o.slot].len() > waiting && !o.reported {
                    // polling driver: the poller tags a descriptor with the address of the queue's FRONT key; if an op ahead
                    // of this one was cancelled and the registration was not renewed, the readiness event is routed through
                    // the released op's storage and never reaches the live front op
                    let cancelled_ahead = !iour
                        && self.ops.iter().enumerate().any(|(j, p)| j < i && p.kind == HKind::Rd && p.slot == o.slot && p.pending && out_of_queue(p));
                    if cancelled_ahead {
                        ex.fail(
                            "C01:stale-poller-key",
                            format!("polling driver: op {i} is the live front waiter of slot {} ({} chunk(s) unread, {waiting} other possible holder(s)), an op queued ahead of it was cancelled and released, and the readiness event was not delivered to it: the poller still carries the released op's key as user data", o.slot, self.written[o.slot].len()),
                        );
                    } else {
                        ex.fail(
                            "C05:neighbour-stuck",
                            format!("op {i} on slot {} is still pending although {} chunk(s) are unread and only {waiting} other unobserved receive(s) exist there", o.slot, self.written[o.slot].len()),
                        );
                    }
                    self.ops[i].reported = true;
                }
            }
        }
    }

    /// implementation-only monitors evaluated after every line
    fn monitors(&mut self, ex: &mut Exec) {
        self.check_kept(ex);
        let iour = self.iour();
        let alive = self.p.is_some();
        let polls = self.polls;
        for i in 0..self.ops.len() {
            let (b, f) = self.ops[i].drops();
            let o = &mut self.ops[i];
            for c in [&o.buf, &o.fd].into_iter().flatten() {
                if c.bad_canary.load(SeqCst) > 0 && !o.reported {
                    ex.fail("C01:dropped-twice", format!("op {i}: Drop ran on an already dropped value (canary gone)"));
                    o.reported = true;
                }
            }
            if o.returned {
                continue;
            }
            if (b > 1 || f > 1) && !o.reported {
                ex.fail("C01:dropped-twice", format!("op {i}: buffer dropped {b}x, descriptor handle dropped {f}x"));
                o.reported = true;
            }
            if b == 0 && f == 0 {
                // the caller dropped its key after a cancel reached the driver: the release is the only
                // visible sign of completion
                if let (Some(at), false, true, true) = (o.cancel_issued_at, o.held(), alive, o.kind != HKind::Blk) {
                    if polls > at && !o.reported {
                        let sig = "C05:cancel-not-prompt";
                        let why = match o.cancel_sq_full {
                            Some((n, cap)) => format!("the submission queue was full (sq={n}/{cap}) when the cancel was issued: regression of the repaired finding F9?"),
                            None => "the submission queue had room".to_string(),
                        };
                        ex.fail(sig, format!("op {i} ({:?}, slot {}): cancelled and released by the caller, but the driver still keeps it in flight after {} poll line(s); {why}", o.kind, o.slot, polls - at));
                        o.reported = true;
                    }
                }
                continue;
            }
            let Some((ph, ring)) = o.first_drop() else { continue };
            // released while the caller still holds a key
            if o.held() {
                let multishot = matches!(o.kind, HKind::Acc | HKind::Zc);
                if iour && ph == PH_PDROP && multishot {
                    ex.fail(
                        "C01:freed-while-user-holds",
                        format!(
                            "op {i} ({:?}): storage released inside drop(proactor) while the caller still holds its key ({} CQEs of this op were waiting in the completion queue: regression of the repaired finding F13?)",
                            o.kind, o.undrained
                        ),
                    );
                } else if !o.reported {
                    ex.fail("C01:freed-while-user-holds", format!("op {i} ({:?}): storage released during {} while the caller still holds its key", o.kind, phase_name(ph)));
                }
                o.reported = true;
                // the key points to released storage: never touch it again
                o.forgotten = true;
                with_key!(&mut o.key, k => std::mem::forget(k.take()));
                continue;
            }
            if o.reported || o.finished {
                continue;
            }
            // io_uring: an op that certainly is in flight (nothing ever arrived on its descriptor, no cancel
            // was ever requested) may only be released by drop(proactor), after the ring is closed
            let surely_inflight = iour
                && o.pending
                && matches!(o.kind, HKind::Rd | HKind::Acc)
                && !self.ever_ready[o.slot]
                && !o.cancel_requested;
            if surely_inflight && ring == 1 {
                if ph != PH_PDROP {
                    ex.fail("C01:freed-while-inflight", format!("op {i} ({:?} on never-ready slot {}): storage released during {} while the kernel still owns it", o.kind, o.slot, phase_name(ph)));
                    o.reported = true;
                } else {
                    ex.fail("C01:freed-before-ring-close", format!("op {i} ({:?} on never-ready slot {}): storage released inside drop(proactor) while the io_uring fd was still open", o.kind, o.slot));
                    o.reported = true;
                }
            } else if iour && ph == PH_PDROP && ring == 1 && o.kind == HKind::Acc && o.pending && !o.cancel_requested {
                // a multishot accept is still armed in the kernel whatever arrived so far
                ex.fail(
                    "C01:freed-before-ring-close",
                    format!("op {i} (Acc): multishot op still armed in the kernel, storage released inside drop(proactor) while the io_uring fd was still open ({} CQE(s) flagged `more` were waiting in the completion queue: regression of the repaired finding F13?)", o.undrained),
                );
                o.reported = true;
            }
            // a cancel()/drop(key)/cancel_token() call itself must never release an op the kernel may own
            if iour && ring == 1 && matches!(ph, PH_CANCEL | PH_KEYDROP | PH_TCANCEL) && o.pending && o.kind != HKind::Blk && !o.reported {
                // its AsyncCancel reached the kernel: the final CQE may have been reaped since (in a poll, in a push or a cancel
                // that overflowed the submission queue)
                let cancelled_and_submitted = o.cancel_issued_at.is_some() && self.submits > o.cancel_mark;
                let could_be_done = self.ever_ready[o.slot] || o.kind == HKind::Zc || cancelled_and_submitted;
                if !could_be_done {
                    ex.fail("C01:freed-while-inflight", format!("op {i}: storage released inside {} on a never-ready descriptor", phase_name(ph)));
                    o.reported = true;
                }
            }
        }
    }

    /// end of case: release everything, then every op must be released exactly once or handed back
    fn finish(&mut self, ex: &mut Exec) {
        self.check_kept(ex);
        if self.skip {
            // nothing was executed after the refused line; fall through to the clean-up
        }
        // open all gates so pool threads terminate
        for o in &mut self.ops {
            if let Some(g) = o.gate.take() {
                g.send(()).ok();
            }
            if let Some(rx) = o.done_rx.take() {
                rx.recv_timeout(Duration::from_secs(5)).ok();
            }
        }
        self.running_jobs = 0;
        self.wait_jobs();
        let unsafe_drop = self.iour() && self.ops.iter().any(|o| o.undrained > 1 + o.held() as usize);
        if let Some(mut p) = self.p.take() {
            if unsafe_drop {
                // drain the completion queue first so that drop(proactor) is safe
                settle(&mut p);
                self.note_poll();
            }
            // keys first (plain drop), then the proactor
            for o in &mut self.ops {
                if !o.forgotten {
                    with_phase(PH_HARNESS, || with_key!(&mut o.key, k => drop(k.take())));
                }
            }
            with_phase(PH_HARNESS, || drop(p));
        } else {
            for o in &mut self.ops {
                if !o.forgotten {
                    with_phase(PH_HARNESS, || with_key!(&mut o.key, k => drop(k.take())));
                }
            }
        }
        // pool jobs that finished after the proactor died drop their key on the pool thread
        let t0 = Instant::now();
        loop {
            let leaked: Vec<usize> = self
                .ops
                .iter()
                .enumerate()
                .filter(|(_, o)| !o.returned && !o.forgotten && !o.released())
                .map(|(i, _)| i)
                .collect();
            if leaked.is_empty() {
                break;
            }
            if t0.elapsed() > Duration::from_millis(300) {
                ex.fail("C01:leak", format!("ops {leaked:?} were neither released nor handed back after every key and the proactor were dropped"));
                break;
            }
            std::thread::sleep(Duration::from_micros(300));
        }
        for (i, o) in self.ops.iter().enumerate() {
            let (b, f) = o.drops();
            if !o.returned && (b > 1 || f > 1) {
                ex.fail("C01:dropped-twice", format!("op {i}: buffer dropped {b}x, descriptor handle dropped {f}x (end of case)"));
            }
        }
        RING_FD.store(-1, SeqCst);
    }
}

impl OpRec {
    fn finished_known(&self) -> bool {
        self.finished
    }
}

// ---------------------------------------------------------------------------------------------
// crash isolation: the cases run in a worker process (this binary, KL_WORKER=1) fed through pipes, so that a
// memory error of the code under test ends ONE case with a monitor failure instead of killing the whole run
// ---------------------------------------------------------------------------------------------

const SEP: char = '\u{1f}';

/// worker side: read `#case name` / lines / `#end` from stdin, answer one `o<SEP>…` per line, then the monitor
/// failures, tags, and `#done`
pub fn worker_main() {
    use std::io::{BufRead, Write};
    std::panic::set_hook(Box::new(|_| {}));
    let stdin = std::io::stdin();
    let mut out = std::io::stdout();
    let mut name = String::new();
    let mut lines: Vec<String> = vec![];
    for l in stdin.lock().lines() {
        let l = l.unwrap();
        if let Some(n) = l.strip_prefix("#case ") {
            name = n.to_string();
            lines.clear();
        } else if l == "#end" {
            let case = Case { name: name.clone(), lines: lines.clone() };
            let ex = exec_case_streaming(&case, nontrivial, &mut |o: &str| {
                writeln!(out, "o{SEP}{o}").unwrap();
                out.flush().unwrap();
            });
            for f in &ex.failures {
                writeln!(out, "f{SEP}{}{SEP}{}", f.sig, f.detail.replace('\n', " ")).unwrap();
            }
            for t in &ex.tags {
                writeln!(out, "t{SEP}{t}").unwrap();
            }
            writeln!(out, "n{SEP}{}", ex.nontrivial).unwrap();
            writeln!(out, "#done").unwrap();
            out.flush().unwrap();
        } else {
            lines.push(l);
        }
    }
}

struct Worker {
    child: std::process::Child,
    stdin: std::process::ChildStdin,
    /// lines of the worker's stdout, forwarded by a reader thread (`None` = end of file), so that the parent can give
    /// up on a worker that neither answers nor dies
    rx: mpsc::Receiver<Option<String>>,
}

/// longest silence tolerated from a worker inside one case
const WORKER_WATCHDOG: Duration = Duration::from_secs(20);

fn spawn_worker() -> Worker {
    let mut child = std::process::Command::new(std::env::current_exe().unwrap())
        .env("KL_WORKER", "1")
        .stdin(std::process::Stdio::piped())
        .stdout(std::process::Stdio::piped())
        .stderr(std::process::Stdio::null())
        .spawn()
        .expect("spawn worker");
    let stdin = child.stdin.take().unwrap();
    let stdout = std::io::BufReader::new(child.stdout.take().unwrap());
    let (tx, rx) = mpsc::channel();
    std::thread::spawn(move || {
        use std::io::BufRead;
        for l in stdout.lines() {
            match l {
                Ok(l) => {
                    if tx.send(Some(l)).is_err() {
                        return;
                    }
                }
                Err(_) => break,
            }
        }
        let _ = tx.send(None);
    });
    Worker { child, stdin, rx }
}

thread_local! {
    static WORKER: std::cell::RefCell<Option<Worker>> = const { std::cell::RefCell::new(None) };
}

/// parent side: run the case in the worker; a worker that dies is a memory error of the code under test
pub fn exec_isolated(case: &Case) -> Exec {
    use std::io::Write;
    WORKER.with(|cell| {
        let mut slot = cell.borrow_mut();
        if slot.is_none() {
            *slot = Some(spawn_worker());
        }
        let w = slot.as_mut().unwrap();
        let mut ex = Exec::new();
        let mut msg = format!("#case {}\n", case.name);
        for l in &case.lines {
            msg.push_str(l);
            msg.push('\n');
        }
        msg.push_str("#end\n");
        let sent = w.stdin.write_all(msg.as_bytes()).and_then(|_| w.stdin.flush()).is_ok();
        let mut done = false;
        let mut hung = false;
        if sent {
            loop {
                let line = match w.rx.recv_timeout(WORKER_WATCHDOG) {
                    Ok(Some(l)) => l,
                    Ok(None) | Err(mpsc::RecvTimeoutError::Disconnected) => break,
                    Err(mpsc::RecvTimeoutError::Timeout) => {
                        hung = true;
                        let _ = w.child.kill();
                        break;
                    }
                };
                let l = line.as_str();
                if l == "#done" {
                    done = true;
                    break;
                }
                let mut it = l.splitn(3, SEP);
                match (it.next(), it.next(), it.next()) {
                    (Some("o"), Some(o), _) => ex.out.push(o.to_string()),
                    (Some("f"), Some(sig), Some(detail)) => ex.fail(sig, detail),
                    (Some("t"), Some(t), _) => ex.tag(t),
                    (Some("n"), Some(b), _) => ex.nontrivial = b == "true",
                    _ => {}
                }
            }
        }
        if !done {
            // the worker died in the middle of this case
            let status = w.child.wait().map(|s| format!("{s}")).unwrap_or_else(|_| "unknown".into());
            let status = if hung { format!("killed by the harness after {} s without an answer: the code under test hangs", WORKER_WATCHDOG.as_secs()) } else { status };
            *slot = None;
            let at = ex.out.len();
            let line = case.lines.get(at).cloned().unwrap_or_default();
            while ex.out.len() < case.lines.len() {
                ex.out.push(if hung { "hang".into() } else { "crash".into() });
            }
            let poll_cancel = case.lines.first().map(|l| l.starts_with("cfg poll") || l.starts_with("mfd poll")).unwrap_or(false)
                && case.lines.iter().any(|l| l.starts_with("cancel") || l.starts_with("tcancel") || l.starts_with("ccancel") || l.starts_with("mcancel"));
            let sig = if hung { "C01:hang" } else if poll_cancel { "C01:stale-poller-key" } else { "C01:crash" };
            ex.fail(
                sig,
                format!(
                    "the process executing the case died ({status}) at line {} `{line}`: memory error / hang in the code under test{}",
                    at + 1,
                    if poll_cancel && !hung { " (polling driver after a cancel: a readiness event dereferences the key the poller carries as user data)" } else { "" }
                ),
            );
            ex.nontrivial = true;
        }
        ex
    })
}

/// Execute one case on the real code, reporting every output line as soon as it exists.
pub fn exec_case_streaming(
    case: &Case,
    nontrivial: impl Fn(&[String], &[String]) -> bool,
    emit: &mut dyn FnMut(&str),
) -> Exec {
    if case.lines.first().map(|l| l.starts_with("mfd ")).unwrap_or(false) {
        // multi-descriptor case (Splice): its own small world, see keylife/multifd.rs
        return multifd::exec_case(case, emit);
    }
    let mut ex = Exec::new();
    let mut w = World::new();
    for l in &case.lines {
        let words: Vec<&str> = l.split_whitespace().collect();
        w.line_no += 1;
        let out = match catch(|| w.line(&mut ex, &words)) {
            Ok(o) => o,
            Err(e) => format!("harness-panic:{e}"),
        };
        emit(&out);
        ex.out.push(out);
    }
    w.finish(&mut ex);
    ex.nontrivial = nontrivial(&case.lines, &ex.out);
    ex
}

// ---------------------------------------------------------------------------------------------
// runtime level: compio_runtime::CancelToken + FutureExt::with_cancel on a real Runtime
// ---------------------------------------------------------------------------------------------

pub mod rt {
    //! `tok <steps> <neighbour>`: ONE future, wrapped `with_cancel(token)`, runs the steps in order:
    //!   r  receive on a fresh never-ready socket; if the token has not fired yet it is fired (by a controller task) while
    //!      the op is in flight
    //!   k  receive on a fresh never-ready socket under a 15 ms timeout, nobody fires the token
    //!   d  receive on a socket that already has 4 bytes
    //!   F  the future fires the token itself (between two ops)
    //!   X  the controller fires the token while the future sleeps
    //!   s  sleep 1 ms
    //! `neighbour = 1`: a second task, NOT registered with the token, waits on its own never-ready socket under a timeout.
    //! `nest` (4th word, default `c`): the combinators around the future, innermost first — `c` = `with_cancel(token)`,
    //! `p` = `with_personality(a personality registered with the runtime; 0 when the driver has none)`; e.g. `pc` =
    //! `fut.with_personality(p).with_cancel(token)`. Exactly one `c`.
    //! Output: the result of every op step (`c` cancelled, `ok:n`, `t` timed out, `e:errno`), then ` n:<t|c|..>`.
    use std::{cell::Cell, io::Write as _, os::fd::OwnedFd, rc::Rc, sync::Arc, time::Duration};

    use compio_driver::{DriverType, ErrorExt, ProactorBuilder, op::Recv};
    use compio_runtime::{CancelToken, FutureExt, Runtime, time::{sleep, timeout}};
    use hx_common::Exec;
    use rustix::net::RecvFlags;

    fn pair() -> (Arc<OwnedFd>, std::os::unix::net::UnixStream) {
        let (a, b) = std::os::unix::net::UnixStream::pair().unwrap();
        a.set_nonblocking(true).unwrap();
        (Arc::new(a.into()), b)
    }

    async fn recv(fd: Arc<OwnedFd>, limit: Duration) -> String {
        let op = Recv::new(fd, Vec::with_capacity(4), RecvFlags::empty());
        match timeout(limit, compio_runtime::submit(op)).await {
            Err(_) => "t".into(),
            Ok(res) => {
                if res.is_cancelled() {
                    "c".into()
                } else {
                    match res.0 {
                        Ok(n) => format!("ok:{n}"),
                        Err(e) => format!("e:{}", e.raw_os_error().unwrap_or(0)),
                    }
                }
            }
        }
    }

    /// the same wait through the other two submit flavours (C05-4b): `e` = `submit(op).with_extra()`, `m` = the multishot
    /// stream `submit_multi(AcceptMulti)` on a listener nobody connects to (first item)
    async fn recv_fl(fd: Arc<OwnedFd>, limit: Duration, fl: char) -> String {
        use futures_util::StreamExt;
        let show = |res: compio_buf::BufResult<usize, ()>| {
            if res.is_cancelled() {
                "c".to_string()
            } else {
                match res.0 {
                    Ok(n) => format!("ok:{n}"),
                    Err(e) => format!("e:{}", e.raw_os_error().unwrap_or(0)),
                }
            }
        };
        match fl {
            'e' => {
                let op = Recv::new(fd, Vec::with_capacity(4), RecvFlags::empty());
                match timeout(limit, compio_runtime::submit(op).with_extra()).await {
                    Err(_) => "t".into(),
                    Ok((res, _extra)) => show(compio_buf::BufResult(res.0, ())),
                }
            }
            'm' => {
                use std::os::linux::net::SocketAddrExt as _;
                let l = std::os::unix::net::UnixListener::bind_addr(&std::os::unix::net::SocketAddr::from_abstract_name(format!("hx-c05-{}-{:p}", std::process::id(), Arc::as_ptr(&fd)).as_bytes()).unwrap()).unwrap();
                l.set_nonblocking(true).unwrap();
                let lfd: Arc<OwnedFd> = Arc::new(l.into());
                let mut st = compio_runtime::submit_multi(compio_driver::op::AcceptMulti::new(lfd));
                match timeout(limit, st.next()).await {
                    Err(_) => "t".into(),
                    Ok(None) => "end".into(),
                    Ok(Some(res)) => show(compio_buf::BufResult(res.0, ())),
                }
            }
            _ => recv(fd, limit).await,
        }
    }

    pub fn run_token_case(ex: &mut Exec, drv: DriverType, cap: u32, steps: &str, neighbour: bool, nest: &str) -> String {
        if nest.chars().filter(|c| *c == 'c').count() != 1 || nest.chars().any(|c| c != 'c' && c != 'p') {
            return "bad-op".into();
        }
        let nest = nest.to_string();
        let mut pb = ProactorBuilder::new();
        pb.driver_type(drv).capacity(cap);
        let rt = match Runtime::builder().with_proactor(pb).build() {
            Ok(rt) => rt,
            Err(e) => return format!("build-err:{e}"),
        };
        let steps: Vec<String> = steps.split(',').map(|s| s.to_string()).collect();
        let mut keep = vec![];
        let (outs, nres, fired_at) = rt.block_on(async {
            let tok = CancelToken::new();
            let req = Rc::new(Cell::new(false));
            let fired = Rc::new(Cell::new(false));
            // controller: fires the token when asked to
            let ctl = {
                let (tok, req, fired) = (tok.clone(), req.clone(), fired.clone());
                compio_runtime::spawn(async move {
                    for _ in 0..2000 {
                        if req.get() {
                            tok.clone().cancel();
                            fired.set(true);
                            break;
                        }
                        sleep(Duration::from_micros(500)).await;
                    }
                })
            };
            let nb = if neighbour {
                let (a, b) = pair();
                keep.push(b);
                Some(compio_runtime::spawn(async move { recv(a, Duration::from_millis(40)).await }))
            } else {
                None
            };
            let mut peers = vec![];
            let mut socks = vec![];
            for st in &steps {
                let (a, mut b) = pair();
                if st == "d" {
                    b.write_all(b"data").unwrap();
                }
                socks.push(a);
                peers.push(b);
            }
            let fut = {
                let (tok2, req, fired, steps) = (tok.clone(), req.clone(), fired.clone(), steps.clone());
                async move {
                    let mut outs: Vec<String> = vec![];
                    // index of the first op step that STARTED under a fired token
                    let mut fired_at: Vec<bool> = vec![];
                    for (i, st) in steps.iter().enumerate() {
                        match st.as_str() {
                            "r" | "e" | "m" => {
                                let was = fired.get();
                                if !was {
                                    req.set(true);
                                }
                                fired_at.push(was);
                                outs.push(recv_fl(socks[i].clone(), Duration::from_millis(400), st.chars().next().unwrap()).await);
                            }
                            "k" | "E" | "M" => {
                                let was = fired.get();
                                fired_at.push(was);
                                let fl = match st.as_str() { "E" => 'e', "M" => 'm', _ => 'r' };
                                outs.push(recv_fl(socks[i].clone(), Duration::from_millis(if was { 400 } else { 15 }), fl).await);
                            }
                            "d" => {
                                fired_at.push(false);
                                outs.push(recv(socks[i].clone(), Duration::from_millis(400)).await);
                            }
                            "F" => {
                                tok2.clone().cancel();
                                fired.set(true);
                            }
                            "X" => {
                                req.set(true);
                                for _ in 0..2000 {
                                    if fired.get() {
                                        break;
                                    }
                                    sleep(Duration::from_micros(500)).await;
                                }
                            }
                            _ => sleep(Duration::from_millis(1)).await,
                        }
                    }
                    (outs, fired_at)
                }
            };
            let personality = Runtime::with_current(|r| r.register_personality()).unwrap_or(0);
            let mut wrapped: std::pin::Pin<Box<dyn std::future::Future<Output = (Vec<String>, Vec<bool>)>>> = Box::pin(fut);
            for ch in nest.chars() {
                wrapped = if ch == 'c' { Box::pin(wrapped.with_cancel(tok.clone())) } else { Box::pin(wrapped.with_personality(personality)) };
            }
            let (outs, fired_at) = wrapped.await;
            if personality != 0 {
                let _ = Runtime::with_current(|r| r.unregister_personality(personality));
            }
            req.set(true);
            let _ = ctl.await;
            let nres = match nb {
                Some(h) => h.await.unwrap_or_else(|_| "join-err".into()),
                None => "-".into(),
            };
            drop(peers);
            (outs, nres, fired_at)
        });
        drop(keep);
        // monitors (implementation only)
        let op_steps: Vec<&String> = steps.iter().filter(|s| matches!(s.as_str(), "r" | "k" | "d" | "e" | "m" | "E" | "M")).collect();
        for (j, st) in op_steps.iter().enumerate() {
            let (o, late) = (&outs[j], fired_at[j]);
            if st.as_str() != "d" && late && o != "c" {
                ex.fail(
                    "C05:late-registration-not-cancelled",
                    format!("step {j} (`{st}`) of `{}` submitted a receive on a never-ready socket AFTER the token had fired; it must finish with a cancellation error at once, got `{o}` (400 ms watchdog)", steps.join(",")),
                );
            }
            if matches!(st.as_str(), "r" | "e" | "m") && !late && o != "c" {
                ex.fail(
                    "C05:cancel-not-prompt",
                    format!("step {j} (`{st}`) of `{}`: the token fired while the receive was in flight, got `{o}` instead of a cancellation error", steps.join(",")),
                );
            }
            if st.as_str() == "d" && o != "ok:4" {
                ex.fail("C05:fabricated-success", format!("step {j} (`d`) of `{}`: 4 bytes were waiting, got `{o}`", steps.join(",")));
            }
        }
        if nres == "c" {
            ex.fail("C05:neighbour-cancelled", format!("`{}`: the receive of a task that is not registered with the token finished with a cancellation error", steps.join(",")));
        }
        ex.tag("rt:token-case");
        ex.tag(format!("rt:nest:{nest}"));
        for (j, st) in op_steps.iter().enumerate() {
            let fl = match st.as_str() { "e" | "E" => "with_extra", "m" | "M" => "multi", _ => "plain" };
            ex.tag(format!("rt:flavour:{fl}:{}", if fired_at[j] { "late" } else { "early" }));
        }
        format!("{} n:{nres}", outs.join(","))
    }
}

// ---------------------------------------------------------------------------------------------
// generators
// ---------------------------------------------------------------------------------------------

/// relative frequencies of the line kinds in a random program
#[derive(Clone)]
pub struct Weights {
    pub push: u64,
    pub ready: u64,
    pub poll: u64,
    pub flush: u64,
    pub pop: u64,
    pub popm: u64,
    pub cancel: u64,
    pub ccancel: u64,
    pub dropk: u64,
    pub token: u64,
    pub tcancel: u64,
    pub gate: u64,
    pub pdrop: u64,
}

struct GOp {
    kind: &'static str,
    slot: usize,
    held: bool,
    token: bool,
    gate: bool,
}

pub const CAPS: [u32; 4] = [1, 2, 4, 1024];
pub const DRIVERS: [&str; 2] = ["iour", "poll"];

/// A random, mostly valid program. Approximate bookkeeping only: lines that turn out to address a key the
/// caller no longer holds are defined no-ops (`nokey`) on both sides.
pub fn random_program(
    rng: &mut hx_common::Rng,
    drv: &str,
    cap: u32,
    kinds: &[&'static str],
    max_ops: usize,
    max_lines: usize,
    w: &Weights,
    share_slots: bool,
) -> Vec<String> {
    let iour = drv == "iour";
    let mut lines = vec![format!("cfg {drv} {cap}")];
    let mut ops: Vec<GOp> = vec![];
    let mut alive = true;
    // io_uring: CQEs of a multishot / zero-copy op may sit unseen in the CQ (see F13): poll before pdrop
    let mut dirty = false;
    let mut pushed_on = [0usize; 8];
    let n_lines = rng.range(3, max_lines as u64) as usize;
    let total = w.push + w.ready + w.poll + w.flush + w.pop + w.popm + w.cancel + w.ccancel + w.dropk + w.token + w.tcancel + w.gate + w.pdrop;
    while lines.len() < n_lines + 1 && alive {
        let mut x = rng.below(total);
        let mut pick = |wt: u64| {
            if x < wt {
                x = u64::MAX;
                true
            } else {
                if x != u64::MAX {
                    x -= wt;
                }
                false
            }
        };
        let any = |ops: &Vec<GOp>, f: &dyn Fn(&GOp) -> bool| ops.iter().position(f);
        let some_held = |rng: &mut hx_common::Rng, ops: &Vec<GOp>| -> Option<usize> {
            let c: Vec<usize> = ops.iter().enumerate().filter(|(_, o)| o.held).map(|(i, _)| i).collect();
            if c.is_empty() { None } else { Some(*rng.pick(&c)) }
        };
        if pick(w.push) {
            if ops.len() >= max_ops {
                continue;
            }
            let kind = *rng.pick(kinds);
            let slot = match kind {
                "rd" => {
                    if share_slots && rng.chance(2, 3) { 0 } else { rng.below(3) as usize }
                }
                "acc" => {
                    // one multishot accept per listener
                    match (4..=5).find(|s| !ops.iter().any(|o| o.kind == "acc" && o.slot == *s)) {
                        Some(s) => s,
                        None => continue,
                    }
                }
                // slot 6 is real TCP zero-copy: its notification CQE arrives a few microseconds after the submit, so
                // keep it where no same-call drain can follow the submit (no SQ overflow); slot 7 is synchronous
                "zc" => if cap == 1024 { 6 + rng.below(2) as usize } else { 7 },
                _ => 0,
            };
            pushed_on[slot] += (kind == "rd") as usize;
            ops.push(GOp { kind, slot, held: true, token: false, gate: kind == "blk" });
            lines.push(format!("push {kind} {slot}"));
        } else if pick(w.ready) {
            let cands: Vec<usize> = ops.iter().filter(|o| o.kind == "rd" || o.kind == "acc").map(|o| o.slot).collect();
            if cands.is_empty() {
                continue;
            }
            let s = *rng.pick(&cands);
            let k = if s < 4 {
                // io_uring wakes same-descriptor waiters in a kernel-chosen order: serve all of them
                if iour { pushed_on[s].max(1) } else { rng.range(1, 2) as usize }
            } else {
                rng.range(1, 2) as usize
            };
            if s >= 4 && iour {
                dirty = true;
            }
            lines.push(format!("ready {s} {k}"));
        } else if pick(w.poll) {
            dirty = false;
            lines.push("poll".into());
        } else if pick(w.flush) {
            if iour && ops.iter().any(|o| o.kind == "zc") {
                dirty = true;
            }
            lines.push("flush".into());
        } else if pick(w.pop) {
            if let Some(i) = some_held(rng, &ops) {
                lines.push(format!("pop {i}"));
            }
        } else if pick(w.popm) {
            if let Some(i) = any(&ops, &|o| o.held && (o.kind == "acc" || o.kind == "zc")) {
                lines.push(format!("popm {i}"));
            }
        } else if pick(w.cancel) {
            if let Some(i) = some_held(rng, &ops) {
                ops[i].held = false;
                lines.push(format!("cancel {i}"));
            }
        } else if pick(w.ccancel) {
            if let Some(i) = some_held(rng, &ops) {
                lines.push(format!("ccancel {i}"));
            }
        } else if pick(w.dropk) {
            if let Some(i) = some_held(rng, &ops) {
                ops[i].held = false;
                lines.push(format!("drop {i}"));
            }
        } else if pick(w.token) {
            if let Some(i) = some_held(rng, &ops) {
                ops[i].token = true;
                lines.push(format!("token {i}"));
            }
        } else if pick(w.tcancel) {
            let c: Vec<usize> = ops.iter().enumerate().filter(|(_, o)| o.token).map(|(i, _)| i).collect();
            if !c.is_empty() {
                lines.push(format!("tcancel {}", rng.pick(&c)));
            }
        } else if pick(w.gate) {
            if let Some(i) = any(&ops, &|o| o.gate) {
                ops[i].gate = false;
                lines.push(format!("gate {i}"));
            }
        } else if pick(w.pdrop) {
            if dirty {
                lines.push("poll".into());
            }
            alive = false;
            lines.push("pdrop".into());
        }
    }
    epilogue(rng, &mut lines, &ops.iter().map(|o| (o.kind, o.gate)).collect::<Vec<_>>(), alive, dirty);
    lines
}

/// release everything in a random order so that the final line shows every op released or handed back
pub fn epilogue(rng: &mut hx_common::Rng, lines: &mut Vec<String>, ops: &[(&'static str, bool)], alive: bool, dirty: bool) {
    let mut tail: Vec<String> = vec![];
    for (i, (kind, gate)) in ops.iter().enumerate() {
        tail.push(format!("drop {i}"));
        if *kind == "blk" && *gate {
            tail.push(format!("gate {i}"));
        }
    }
    if alive {
        tail.push("pdrop".into());
    }
    // Fisher-Yates
    for i in (1..tail.len()).rev() {
        let j = rng.below(i as u64 + 1) as usize;
        tail.swap(i, j);
    }
    if alive && dirty {
        // never let drop(proactor) meet unseen multishot CQEs here (finding F13 has its own cases)
        lines.push("poll".into());
        let p = tail.iter().position(|l| l == "pdrop").unwrap();
        // no readiness events are generated in the epilogue, so one poll up front is enough
        let l = tail.remove(p);
        tail.insert(0, l);
    }
    lines.extend(tail);
    lines.push("end".into());
}

/// rule for "non-trivial": at least one op was pending in a driver and at least one line changed an op's storage state
pub fn nontrivial(lines: &[String], outs: &[String]) -> bool {
    let pend = outs.iter().any(|o| o.starts_with("pending"));
    let mut vecs: Vec<&str> = outs.iter().filter_map(|o| o.split(" | ").nth(1)).collect();
    vecs.dedup();
    pend && vecs.len() >= 3 && lines.len() >= 4
}

pub fn case(name: String, lines: Vec<String>) -> Case {
    Case { name, lines }
}
