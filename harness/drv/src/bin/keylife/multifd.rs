//! Multi-descriptor cases (`mfd <iour|poll>` as first line): `Splice` between two pipes, the one operation that waits on
//! TWO descriptors on the polling driver (`Decision::wait_for_many`, one key clone per descriptor queue) and is one SQE
//! on io_uring. Model side: lean/Compio/Model/MultiFd.lean.
//!
//!   spl <p>      push `Splice(pipe_in[p].read -> pipe_out[p].write, 4 bytes)`; the input pipe is EMPTY and the output
//!                pipe is FULL, so the op parks on both ends (a pair that was made ready is refused: `skip`)
//!   mcancel <i>  `Proactor::cancel(key)`        mdrop <i>  `drop(key)`        mpop <i>  `Proactor::pop(key)`
//!   mpoll        poll to quiescence             mpdrop     `drop(proactor)`
//!   mready <p>   the harness drains the output pipe (output end writable) and writes 4 bytes into the input pipe
//!
//! Every line prints the call's answer and `L`ive / `F`reed / `R`eturned per op, read from the drop counters of the two
//! instrumented descriptor handles the op owns.

use std::{
    os::fd::{AsRawFd, FromRawFd, OwnedFd, RawFd},
    sync::{Arc, atomic::Ordering::SeqCst},
    time::{Duration, Instant},
};

use compio_buf::IntoInner;
use compio_driver::{
    DriverType, Key, Proactor, PushEntry,
    op::{Splice, SpliceFlags},
};
use hx_common::{Case, Exec, catch};

use super::{CANARY, Counter, Fd, PH_CANCEL, PH_HARNESS, PH_KEYDROP, PH_PDROP, PH_POLL, PH_POP, PH_PUSH, RING_FD, with_phase};

fn pipe2(nonblock_r: bool, nonblock_w: bool) -> (OwnedFd, OwnedFd) {
    let mut fds = [0 as RawFd; 2];
    let r = unsafe { libc::pipe2(fds.as_mut_ptr(), libc::O_CLOEXEC | libc::O_NONBLOCK) };
    assert_eq!(r, 0);
    for (fd, nb) in [(fds[0], nonblock_r), (fds[1], nonblock_w)] {
        if !nb {
            unsafe {
                let fl = libc::fcntl(fd, libc::F_GETFL);
                libc::fcntl(fd, libc::F_SETFL, fl & !libc::O_NONBLOCK);
            }
        }
    }
    unsafe { (OwnedFd::from_raw_fd(fds[0]), OwnedFd::from_raw_fd(fds[1])) }
}

struct Pair {
    in_r: Arc<OwnedFd>,
    in_w: OwnedFd,
    out_w: Arc<OwnedFd>,
    out_r: OwnedFd,
    hot: bool,
}

impl Pair {
    fn new(iour: bool) -> Pair {
        // io_uring does not poll for a splice: blocking ends keep it in flight (io-wq) until it is cancelled
        let (in_r, in_w) = pipe2(!iour, true);
        let (out_r, out_w) = pipe2(true, true);
        let chunk = [0x55u8; 4096];
        loop {
            let n = unsafe { libc::write(out_w.as_raw_fd(), chunk.as_ptr().cast(), chunk.len()) };
            if n <= 0 {
                break;
            }
        }
        if iour {
            unsafe {
                let fl = libc::fcntl(out_w.as_raw_fd(), libc::F_GETFL);
                libc::fcntl(out_w.as_raw_fd(), libc::F_SETFL, fl & !libc::O_NONBLOCK);
            }
        }
        Pair { in_r: Arc::new(in_r), in_w, out_w: Arc::new(out_w), out_r, hot: false }
    }

    /// drain the output pipe completely; returns the number of bytes read that are NOT the filler
    fn drain_out(&self) -> usize {
        let mut foreign = 0;
        let mut buf = [0u8; 4096];
        loop {
            let n = unsafe { libc::read(self.out_r.as_raw_fd(), buf.as_mut_ptr().cast(), buf.len()) };
            if n <= 0 {
                break;
            }
            foreign += buf[..n as usize].iter().filter(|b| **b != 0x55).count();
        }
        foreign
    }
}

struct Rec {
    pair: usize,
    key: Option<Key<Splice<Fd, Fd>>>,
    cin: Arc<Counter>,
    cout: Arc<Counter>,
    returned: bool,
    /// `Proactor::cancel(key)` ran while the op was parked: the caller holds nothing any more
    cancelled: bool,
    /// an `mpoll` line finished after that cancel
    polled_after_cancel: bool,
    reported: bool,
}

impl Rec {
    fn status(&self) -> char {
        let (a, b) = (self.cin.n(), self.cout.n());
        if a > 1 || b > 1 {
            'D'
        } else if self.returned {
            'R'
        } else if a == 1 && b == 1 {
            'F'
        } else if a == 0 && b == 0 {
            'L'
        } else {
            'H'
        }
    }
}

struct MWorld {
    p: Option<Proactor>,
    iour: bool,
    pairs: Vec<Pair>,
    ops: Vec<Rec>,
}

impl MWorld {
    fn vec(&self) -> String {
        if self.ops.is_empty() { "-".into() } else { self.ops.iter().map(|o| o.status()).collect() }
    }

    fn out(&self, s: &str) -> String {
        format!("{s} | {}", self.vec())
    }

    fn dispose(op: Splice<Fd, Fd>) {
        with_phase(PH_HARNESS, || drop(op.into_inner()));
    }

    fn poll_quiet(&mut self) {
        let Some(p) = self.p.as_mut() else { return };
        let t0 = Instant::now();
        let mut quiet = 0;
        for i in 0..4000 {
            match with_phase(PH_POLL, || p.poll(Some(Duration::ZERO))) {
                Ok(()) => quiet = 0,
                Err(_) => quiet += 1,
            }
            // io_uring: the CQE of a cancelled io-wq splice arrives a moment after the submit of the AsyncCancel
            let waiting = self.iour && self.ops.iter().any(|o| o.cancelled && !o.returned && o.status() == 'L');
            if quiet >= 2 && i >= 2 && (!waiting || t0.elapsed() > Duration::from_millis(400)) {
                break;
            }
            if quiet > 0 {
                std::thread::sleep(Duration::from_micros(150));
            }
        }
    }

    fn monitors(&mut self, ex: &mut Exec, line: &str) {
        let alive = self.p.is_some();
        let drv = if self.iour { "io_uring" } else { "polling" };
        for (i, o) in self.ops.iter_mut().enumerate() {
            if o.reported {
                continue;
            }
            let st = o.status();
            let bad = o.cin.bad_canary.load(SeqCst) + o.cout.bad_canary.load(SeqCst);
            if st == 'D' || bad > 0 {
                o.reported = true;
                ex.fail("C01:dropped-twice", format!("op {i} (splice, {drv}): descriptor handles dropped in/out {}/{} times, {bad} with a dead canary (after `{line}`)", o.cin.n(), o.cout.n()));
            } else if st == 'H' {
                o.reported = true;
                ex.fail("C01:half-released", format!("op {i} (splice, {drv}): one of its two descriptor handles was dropped, the other not (after `{line}`)"));
            } else if st == 'F' && !o.cancelled && alive {
                // parked on two never-ready ends, never cancelled, proactor alive: the driver (queues of both descriptors /
                // the kernel) still refers to the op
                o.reported = true;
                ex.fail("C01:freed-while-inflight", format!("op {i} (splice, {drv}) is parked on two descriptors that never became ready and was never cancelled, yet its storage was released (after `{line}`)"));
            } else if st == 'L' && o.cancelled && o.polled_after_cancel && alive {
                // the cancel consumed the caller's key and the cancellation was reaped by a poll: whoever still keeps the
                // op alive is a registration the cancel left behind
                o.reported = true;
                ex.fail(
                    "C01:cancelled-multifd-op-still-held",
                    format!("op {i} (splice between two pipes, {drv}) was cancelled while parked (`Proactor::cancel` consumed the caller's key) and the driver was polled to quiescence, but the op — and the two descriptor handles it owns — is still alive: the driver kept a reference (interest queue of one of its descriptors) after reporting the cancellation (after `{line}`)"),
                );
            }
        }
    }

    fn line(&mut self, ex: &mut Exec, w: &[&str]) -> String {
        let idx = |s: &str, n: usize| s.parse::<usize>().ok().filter(|i| *i < n);
        match w {
            ["mfd", d] => {
                self.iour = *d != "poll";
                let mut b = Proactor::builder();
                b.driver_type(if self.iour { DriverType::IoUring } else { DriverType::Poll }).capacity(1024);
                match b.build() {
                    Ok(p) => {
                        RING_FD.store(if self.iour { p.as_raw_fd() } else { -1 }, SeqCst);
                        self.p = Some(p);
                        ex.tag(format!("drv:{d}"));
                        ex.tag("mfd");
                        "ok | -".into()
                    }
                    Err(e) => format!("build-err:{e}"),
                }
            }
            ["spl", p] => {
                let Some(pi) = p.parse::<usize>().ok().filter(|p| *p <= self.pairs.len() && *p < 8) else { return "bad-op".into() };
                if self.p.is_none() {
                    return self.out("noproactor");
                }
                if pi == self.pairs.len() {
                    self.pairs.push(Pair::new(self.iour));
                }
                if self.pairs[pi].hot {
                    return self.out("skip");
                }
                let (cin, cout) = (Arc::new(Counter::default()), Arc::new(Counter::default()));
                let fin = Fd { canary: CANARY, fd: self.pairs[pi].in_r.clone(), c: cin.clone() };
                let fout = Fd { canary: CANARY, fd: self.pairs[pi].out_w.clone(), c: cout.clone() };
                let flags = if self.iour { SpliceFlags::empty() } else { SpliceFlags::NONBLOCK };
                let op = Splice::new(fin, -1, fout, -1, 4, flags);
                let pr = self.p.as_mut().unwrap();
                let mut rec = Rec { pair: pi, key: None, cin, cout, returned: false, cancelled: false, polled_after_cancel: false, reported: false };
                let ans = match with_phase(PH_PUSH, || pr.push(op)) {
                    PushEntry::Pending(k) => {
                        rec.key = Some(k);
                        "pending".to_string()
                    }
                    PushEntry::Ready(r) => {
                        rec.returned = true;
                        let s = match &r.0 {
                            Ok(n) => format!("ready:ok:{n}"),
                            Err(e) => format!("ready:err:{}", e.raw_os_error().unwrap_or(0)),
                        };
                        Self::dispose(r.1);
                        s
                    }
                };
                self.ops.push(rec);
                ex.tag("push:spl");
                self.out(&ans)
            }
            ["mcancel", i] => {
                let Some(i) = idx(i, self.ops.len()) else { return "bad-op".into() };
                let Some(pr) = self.p.as_mut() else { return self.out("noproactor") };
                let Some(k) = self.ops[i].key.take() else { return self.out("nokey") };
                let ans = match with_phase(PH_CANCEL, || pr.cancel(k)) {
                    None => {
                        self.ops[i].cancelled = true;
                        "none".to_string()
                    }
                    Some(r) => {
                        self.ops[i].returned = true;
                        let s = match &r.0 {
                            Ok(n) => format!("some:ok:{n}"),
                            Err(e) => format!("some:err:{}", e.raw_os_error().unwrap_or(0)),
                        };
                        Self::dispose(r.1);
                        s
                    }
                };
                ex.tag("mcancel");
                self.out(&ans)
            }
            ["mdrop", i] => {
                let Some(i) = idx(i, self.ops.len()) else { return "bad-op".into() };
                let Some(k) = self.ops[i].key.take() else { return self.out("nokey") };
                with_phase(PH_KEYDROP, || drop(k));
                self.out("ok")
            }
            ["mpop", i] => {
                let Some(i) = idx(i, self.ops.len()) else { return "bad-op".into() };
                let Some(pr) = self.p.as_mut() else { return self.out("noproactor") };
                let Some(k) = self.ops[i].key.take() else { return self.out("nokey") };
                let ans = match with_phase(PH_POP, || pr.pop(k)) {
                    PushEntry::Pending(k) => {
                        self.ops[i].key = Some(k);
                        "pending".to_string()
                    }
                    PushEntry::Ready(r) => {
                        self.ops[i].returned = true;
                        let s = match &r.0 {
                            Ok(n) => format!("ok:{n}"),
                            Err(e) => format!("err:{}", e.raw_os_error().unwrap_or(0)),
                        };
                        Self::dispose(r.1);
                        s
                    }
                };
                self.out(&ans)
            }
            ["mpoll"] => {
                if self.p.is_none() {
                    return self.out("noproactor");
                }
                self.poll_quiet();
                for o in &mut self.ops {
                    if o.cancelled {
                        o.polled_after_cancel = true;
                    }
                }
                // a cancelled and released op must not move data any more
                for (pi, pair) in self.pairs.iter().enumerate() {
                    if pair.hot {
                        let foreign = pair.drain_out();
                        if foreign > 0 {
                            ex.fail("C01:cancelled-op-moved-data", format!("pair {pi}: {foreign} bytes arrived in the output pipe after every splice on it had been cancelled"));
                        }
                    }
                }
                self.out("ok")
            }
            ["mready", p] => {
                let Some(pi) = idx(p, self.pairs.len()) else { return self.out("ok") };
                let pair = &mut self.pairs[pi];
                pair.drain_out();
                if !pair.hot {
                    let n = unsafe { libc::write(pair.in_w.as_raw_fd(), b"DATA".as_ptr().cast(), 4) };
                    assert_eq!(n, 4);
                }
                pair.hot = true;
                ex.tag("mready");
                self.out("ok")
            }
            ["mpdrop"] => {
                let Some(p) = self.p.take() else { return self.out("noproactor") };
                with_phase(PH_PDROP, || drop(p));
                ex.tag("mpdrop");
                self.out("ok")
            }
            ["end"] => self.out("ok"),
            _ => "bad-op".into(),
        }
    }

    fn finish(&mut self, ex: &mut Exec) {
        for o in &mut self.ops {
            if let Some(k) = o.key.take() {
                with_phase(PH_HARNESS, || drop(k));
            }
        }
        if let Some(p) = self.p.take() {
            with_phase(PH_HARNESS, || drop(p));
        }
        for (i, o) in self.ops.iter().enumerate() {
            let (a, b) = (o.cin.n(), o.cout.n());
            if (a, b) != (1, 1) && !o.reported {
                ex.fail("C01:leak", format!("op {i} (splice on pair {}): after every key and the proactor were dropped its descriptor handles were dropped in/out {a}/{b} times instead of once each", o.pair));
            }
        }
    }
}

pub fn exec_case(case: &Case, emit: &mut dyn FnMut(&str)) -> Exec {
    let mut ex = Exec::new();
    let mut w = MWorld { p: None, iour: true, pairs: vec![], ops: vec![] };
    for l in &case.lines {
        let words: Vec<&str> = l.split_whitespace().collect();
        let out = match catch(|| {
            let o = w.line(&mut ex, &words);
            w.monitors(&mut ex, l);
            o
        }) {
            Ok(o) => o,
            Err(e) => format!("harness-panic:{e}"),
        };
        emit(&out);
        ex.out.push(out);
    }
    let _ = catch(|| w.finish(&mut ex));
    ex.nontrivial = super::nontrivial(&case.lines, &ex.out);
    ex
}
